"""Self-test catalogue: small edits against the current tree.  kind 'M' = mutant (the property's check must report it, exit 1),
kind 'B' = benign variant (the check must stay silent, exit 0).  Each edit is (file, old text, new text); an edit whose anchor
no longer occurs exactly once is skipped and reported, never a failure.  The thorough tier applies them to scratch copies."""

E = 'src/erasurecode.c'
PRE = 'src/erasurecode_preprocessing.c'
POST = 'src/erasurecode_postprocessing.c'
HLP = 'src/erasurecode_helpers.c'
XHD = 'src/builtin/xor_codes/xor_hd_code.c'
XC = 'src/builtin/xor_codes/xor_code.c'
RSB = 'src/builtin/rs_vand/liberasurecode_rs_vand.c'
RSA = 'src/backends/rs_vand/liberasurecode_rs_vand.c'
GAL = 'src/builtin/rs_vand/rs_galois.c'
ISA = 'src/backends/isa-l/isa_l_common.c'
HDR = 'include/erasurecode/erasurecode.h'
DEFS = 'include/xor_codes/xor_hd_code_defs.h'

CATALOGUE = [
 # ---- C01
 dict(prop='C01', kind='M', name='split loop: cursor not advanced', rule='R01a', edits=[(PRE, '        orig_data += copy_size;\n', '')]),
 dict(prop='C01', kind='M', name='split loop: copies payload_size', rule='R01a',
      edits=[(PRE, 'memcpy(encoded_data[i] + data_offset, orig_data, copy_size);', 'memcpy(encoded_data[i] + data_offset, orig_data, payload_size);')]),
 dict(prop='C01', kind='M', name='parity realign branch removed', rule='R01b',
      edits=[(PRE, '''        } else if (!is_addr_aligned((unsigned long)parity[i], 16)) {''', '''        } else if (0) {''')]),
 dict(prop='C01', kind='B', name='split loop with renamed locals and while', rule=None,
      edits=[(PRE, '''        orig_data += copy_size;
        data_len -= copy_size;''', '''        data_len = data_len - copy_size;
        orig_data = orig_data + copy_size;''')]),
 # ---- C02
 dict(prop='C02', kind='M', name='decode: op result not tested', rule='R02c',
      edits=[(E, '''    if (ret < 0) {
        log_error("Encountered error in backend decode function!");
        goto out;
    }''', '')]),
 dict(prop='C02', kind='M', name='GE_HD arm returns 0', rule='R02a', edits=[(XHD, '''      // More failures than this decoder knows how to repair
      ret = -1;
      break;''', '''      break;''')]),
 dict(prop='C02', kind='M', name='partition index bound > k+m', rule='R02d', edits=[(PRE, 'if (index < 0 || index >= (k + m)) {', 'if (index < 0 || index > (k + m)) {')]),
 dict(prop='C02', kind='M', name='decode_one_data: sentinel test removed', rule='R02e', edits=[(XHD, '''  if (parity_index < 0) {
    // No surviving parity covers this element: not decodable
    return -2;
  }

  // Copy the appropriate parity into the data buffer
  fast_memcpy(data[data_index], parity[parity_index-code_desc->k], blocksize);''', '''  // Copy the appropriate parity into the data buffer
  fast_memcpy(data[data_index], parity[parity_index-code_desc->k], blocksize);''')]),
 # ---- C03
 dict(prop='C03', kind='M', name='range test only upper', rule='R03a', edits=[(E, 'if (destination_idx < 0 || destination_idx >= (k + m)) {', 'if (destination_idx >= (k + m)) {')]),
 dict(prop='C03', kind='M', name='reconstruct: checksum off', rule='R03c', edits=[(E, '''                          orig_data_size, blocksize, instance->args.uargs.ct,
                          set_chksum);''', '''                          orig_data_size, blocksize, instance->args.uargs.ct,
                          !set_chksum);''')]),
 dict(prop='C03', kind='M', name='supplied destination re-headered', rule='R03b',
      edits=[(E, '        log_warn("Dest idx for reconstruction was supplied as available buffer!");', '        init_fragment_header(fragment_ptr);')]),
 # ---- C04
 dict(prop='C04', kind='M', name='other primitive polynomial', rule='R04a', edits=[(GAL, '#define PRIM_POLY 0x1100b', '#define PRIM_POLY 0x1002d')]),
 dict(prop='C04', kind='M', name='region_multiply on bytes', rule='R04a', edits=[(RSB, '''  uint16_t *_from_buf = (uint16_t*)from_buf;
  uint16_t *_to_buf = (uint16_t*)to_buf;
  int adj_blocksize = blocksize / 2;
  int trailing_bytes = blocksize % 2;''', '''  uint8_t *_from_buf = (uint8_t*)from_buf;
  uint8_t *_to_buf = (uint8_t*)to_buf;
  int adj_blocksize = blocksize;
  int trailing_bytes = 0;''')]),
 dict(prop='C04', kind='M', name='decode normalises the generator in place', rule='R04b',
      edits=[(RSB, '''  create_decoding_matrix(generator_matrix, decoding_matrix, missing, k, m);
  gaussj_inversion(decoding_matrix, inverse_decoding_matrix, k);

  // Rebuild data fragments''', '''  create_decoding_matrix(generator_matrix, decoding_matrix, missing, k, m);
  gaussj_inversion(decoding_matrix, inverse_decoding_matrix, k);
  generator_matrix[0] = 1;

  // Rebuild data fragments''')]),
 # ---- C05
 dict(prop='C05', kind='M', name='one table bit flipped', rule='R05a', edits=[(DEFS, 'unsigned int g_12_6_4_hd_code_parity_bms[] = { 1649,', 'unsigned int g_12_6_4_hd_code_parity_bms[] = { 1648,')]),
 dict(prop='C05', kind='M', name='whitelist k <= 21 for hd 4 m 6', rule='R05c', edits=[(XHD, '''      if (k <= 20 && k >= 6) {''', '''      if (k <= 21 && k >= 6) {''')]),
 dict(prop='C05', kind='M', name='transition 1D_1P + parity -> 2D_1P', rule='R05f',
      edits=[(XC, 'pattern = (missing_idxs[i] < code_desc->k) ? FAIL_PATTERN_2D_1P : FAIL_PATTERN_1D_2P;', 'pattern = (missing_idxs[i] < code_desc->k) ? FAIL_PATTERN_2D_1P : FAIL_PATTERN_2D_1P;')]),
 dict(prop='C05', kind='M', name='planner uses absolute parity bit', rule='R05e',
      edits=[(XHD, '''    *parity_bm |= (1 << contains_2d);''', '''    *parity_bm |= (1 << (contains_2d + code_desc->k));''')]),
 # ---- C06
 dict(prop='C06', kind='M', name='XOR adapter returns 0', rule='R06a',
      edits=[('src/backends/xor/flat_xor_hd.c', '    return xor_desc->fragments_needed(xor_desc, missing_idxs, fragments_to_exclude, fragments_needed);',
              '    xor_desc->fragments_needed(xor_desc, missing_idxs, fragments_to_exclude, fragments_needed);\n    return 0;')]),
 dict(prop='C06', kind='M', name='RS planner ignores the exclude list', rule='R06c',
      edits=[(RSA, '    uint64_t missing_bm = convert_list_to_bitmap(missing_idxs) | exclude_bm;', '    uint64_t missing_bm = convert_list_to_bitmap(missing_idxs); (void) exclude_bm;')]),
 dict(prop='C06', kind='M', name='RS planner: no terminator', rule='R06d', edits=[(RSA, '''            ret = 0;
            fragments_needed[j] = -1;
            break;''', '''            ret = 0;
            break;''')]),
 # ---- C07
 dict(prop='C07', kind='M', name='magic changed', rule='W07', edits=[(HDR, '#define LIBERASURECODE_FRAG_HEADER_MAGIC    0xb0c5ecc', '#define LIBERASURECODE_FRAG_HEADER_MAGIC    0xb0c5ecd')]),
 dict(prop='C07', kind='M', name='two one-byte members swapped', rule='W07', edits=[(HDR, '''    uint8_t     chksum_mismatch;                         /*  1 */
    uint8_t     backend_id;                              /*  1 */''', '''    uint8_t     backend_id;                              /*  1 */
    uint8_t     chksum_mismatch;                         /*  1 */''')]),
 dict(prop='C07', kind='M', name='metadata CRC over the whole header in the writer', rule='R07b', edits=[(POST, '''        header->metadata_chksum = crc32(0, (unsigned char *) &header->meta,
                                        sizeof(fragment_metadata_t));''', '''        header->metadata_chksum = crc32(0, (unsigned char *) &header->meta,
                                        sizeof(fragment_header_t));''')]),
 dict(prop='C07', kind='M', name='set_backend_version call deleted', rule='R07a', edits=[(POST, '    set_backend_version(fragment, be->common.ec_backend_version);\n', '')]),
 # ---- C08
 dict(prop='C08', kind='M', name='fragment size = len / k', rule='R08b', edits=[(E, '    int aligned_data_len = get_aligned_data_size(instance, data_len);', '    int aligned_data_len = data_len;')]),
 dict(prop='C08', kind='M', name='minimum = aligned(0)', rule='R08c', edits=[(E, '    return liberasurecode_get_aligned_data_size(desc, 1);', '    return liberasurecode_get_aligned_data_size(desc, 0);')]),
 # ---- C09
 dict(prop='C09', kind='M', name='16-bit checksum compare', rule='R09b', edits=[(E, '''    if (metadata_chksum == csum) {
        return 0;
    }''', '''    if ((metadata_chksum & 0xffff) == (csum & 0xffff)) {
        return 0;
    }''')]),
 dict(prop='C09', kind='M', name='version gate <=', rule='R09b', edits=[(E, '    if (libec_version < _VERSION(1,2,0))', '    if (libec_version <= _VERSION(1,2,0))')]),
 dict(prop='C09', kind='M', name='decode validates only k headers', rule='R09a', edits=[(E, '''    for (i = 0; i < num_fragments; ++i) {
        /* Verify metadata checksum */''', '''    for (i = 0; i < k; ++i) {
        /* Verify metadata checksum */''')]),
 dict(prop='C09', kind='B', name='version-0 test written with !', rule=None, edits=[(E, '    if (header->libec_version == 0)\n', '    if (!header->libec_version)\n')]),
 # ---- C10
 dict(prop='C10', kind='M', name='mismatch never raised', rule='R10b', edits=[(E, '''                if (stored_chksum != computed_chksum) {
                    fragment_metadata->chksum_mismatch = 1;''', '''                if (stored_chksum != computed_chksum) {
                    fragment_metadata->chksum_mismatch = 0;''')]),
 dict(prop='C10', kind='M', name='checksum over blocksize - 1', rule='R10a', edits=[(POST, '        set_checksum(ct, fragment, blocksize);', '        set_checksum(ct, fragment, blocksize - 1);')]),
 dict(prop='C10', kind='B', name='unsigned byte fetch in the historical CRC (index is masked: same function)', rule=None, edits=[('src/utils/chksum/crc32.c', '  const char *p;', '  const unsigned char *p;')]),
 dict(prop='C10', kind='M', name='historical CRC without the sign-extending shift', rule='R10d', edits=[('src/utils/chksum/crc32.c', '((((crc >> 8) & 0x00FFFFFF) ^ 0x00800000) - 0x00800000)', '((crc >> 8) & 0x00FFFFFF)')]),
 dict(prop='C10', kind='M', name='mismatch not rejected', rule='R10c', edits=[(E, '''    if (fragment_metadata->chksum_mismatch == 1) {
        return -EBADCHKSUM;
    }
''', '')]),
 # ---- C11
 dict(prop='C11', kind='M', name='backend_version not swapped', rule='R11a', edits=[(E, '''            fragment_metadata->backend_version =
                bswap_32(fragment_metadata->backend_version);
''', '')]),
 dict(prop='C11', kind='M', name='64-bit length swapped as 32 bits', rule='R11a', edits=[(E, '                bswap_64(fragment_metadata->orig_data_size);', '                bswap_32(fragment_metadata->orig_data_size);')]),
 dict(prop='C11', kind='M', name='chksum_type swapped again', rule='R11a', edits=[(E, '''            for (int i = 0; i < LIBERASURECODE_MAX_CHECKSUM_LEN; i++) {''', '''            fragment_metadata->chksum_type = bswap_32(fragment_metadata->chksum_type);
            for (int i = 0; i < LIBERASURECODE_MAX_CHECKSUM_LEN; i++) {''')]),
 # ---- C12
 dict(prop='C12', kind='M', name='idx > k+m again', rule='R12a', edits=[(E, '    if (md->idx >= (k + m)) {', '    if (md->idx > (k + m)) {')]),
 dict(prop='C12', kind='M', name='backend id comparison removed', rule='R12a', edits=[(E, '''    if (md->backend_id != be->common.id) {
        return 1;
    }
''', '')]),
 dict(prop='C12', kind='M', name='version bound removed', rule='R12b', edits=[(E, '            ver > LIBERASURECODE_VERSION) {', '            0) {')]),
 dict(prop='C12', kind='B', name='operands of the backend id comparison swapped', rule=None, edits=[(E, '    if (md->backend_id != be->common.id) {', '    if (be->common.id != md->backend_id) {')]),
 # ---- C13
 dict(prop='C13', kind='M', name='decode: out_data_len null test removed', rule='R13a', edits=[(E, '''    if (NULL == out_data_len) {
        log_error("Pointer to decoded data length variable is null!");
        ret = -EINVALIDPARAMS;
        goto out;
    }
''', '')]),
 dict(prop='C13', kind='M', name='fragments_needed: null test falls through', rule='R13a', edits=[(E, '''        log_error("Unable to determine list of fragments needed, pointer to list of fragments to reconstruct is NULL.");
        ret = -EINVALIDPARAMS;
        goto out_error;''', '''        log_error("Unable to determine list of fragments needed, pointer to list of fragments to reconstruct is NULL.");
        ret = -EINVALIDPARAMS;''')]),
 dict(prop='C13', kind='M', name='k >= 0 accepted', rule='R13d', edits=[(E, '    if (args->k < 1 || args->m < 0)', '    if (args->k < 0 || args->m < 0)')]),
 dict(prop='C13', kind='M', name='k+m > 33', rule='R13d', edits=[(E, '    if ((args->k + args->m) > EC_MAX_FRAGMENTS) {', '    if ((args->k + args->m) > EC_MAX_FRAGMENTS + 1) {')]),
 dict(prop='C13', kind='B', name='two null tests merged', rule=None, edits=[(E, '''    if (NULL == fragments_to_reconstruct) {
        log_error("Unable to determine list of fragments needed, pointer to list of indexes to reconstruct is NULL.");
        ret = -EINVALIDPARAMS;
        goto out_error;
    }

    if (NULL == fragments_to_exclude) {''', '''    if (NULL == fragments_to_reconstruct || NULL == fragments_to_exclude) {''')]),
 # ---- C14
 dict(prop='C14', kind='M', name='alloc_desc clamp < 0', rule='R14a', edits=[(E, '        if (++next_backend_desc <= 0)', '        if (++next_backend_desc < 0)')]),
 dict(prop='C14', kind='M', name='free before unregister', rule='R14c', edits=[(E, '''    rc = liberasurecode_backend_instance_unregister(instance);
    if (rc == 0) {
        free(instance);
    }''', '''    free(instance);
    rc = liberasurecode_backend_instance_unregister(instance);''')]),
 dict(prop='C14', kind='M', name='adapter caches into its descriptor', rule='R14e',
      edits=[(RSA, '    rs_vand_desc->liberasurecode_rs_vand_decode(rs_vand_desc->matrix, data, parity,', '    rs_vand_desc->w = blocksize; rs_vand_desc->liberasurecode_rs_vand_decode(rs_vand_desc->matrix, data, parity,')]),
 dict(prop='C14', kind='M', name='tables freed when counter >= 0', rule='R14f', edits=[(GAL, '  } else if (init_counter == 0) {', '  } else if (init_counter >= 0) {')]),
 # ---- C15
 dict(prop='C15', kind='M', name='original freed before replacement', rule='R15b', edits=[(PRE, '''            memcpy(tmp_buf, data[i], fragment_size);
            data[i] = tmp_buf;''', '''            memcpy(tmp_buf, data[i], fragment_size);
            free(data[i]);
            data[i] = tmp_buf;''')]),
 dict(prop='C15', kind='M', name='allocator without zero fill', rule='R15c', edits=[(HLP, '    memset(buf, 0, size);\n', '')]),
 dict(prop='C15', kind='M', name='static scratch in region_multiply', rule='R15d', edits=[(RSB, '''void region_multiply(char *from_buf, char *to_buf, int mult, int xor, int blocksize)
{
  int i;''', '''static int last_mult;
void region_multiply(char *from_buf, char *to_buf, int mult, int xor, int blocksize)
{
  int i;
  last_mult = mult;''')]),
 # ---- C16
 dict(prop='C16', kind='M', name='decode out: forgets missing_idxs', rule='R16a', edits=[(E, '''    free(data);
    free(parity);
    free(missing_idxs);
    free(data_segments);
    free(parity_segments);
    free(valid_fragments);''', '''    free(data);
    free(parity);
    free(data_segments);
    free(parity_segments);
    free(valid_fragments);''')]),
 dict(prop='C16', kind='M', name='encode_cleanup loops to m for data', rule='R16c', edits=[(E, '''        for (i = 0; i < k; i++) {
            free(encoded_data[i]);
        }''', '''        for (i = 0; i < m; i++) {
            free(encoded_data[i]);
        }''')]),
 dict(prop='C16', kind='M', name='isa_l_exit forgets encode_tables', rule='R16d', edits=[(ISA, '    free(isa_l_desc->encode_tables);\n', '')]),
 # ---- C17
 dict(prop='C17', kind='M', name='dlclose dropped on init failure', rule='R17b', edits=[(E, '''        liberasurecode_backend_close(instance);
        free (instance);
        return -EBACKENDINITERR;''', '''        free (instance);
        return -EBACKENDINITERR;''')]),
 dict(prop='C17', kind='M', name='reconstruct result ignored', rule='R17a', edits=[(E, '''    if (ret < 0) {
        log_error("Could not reconstruct fragment!");
        goto out;
    }''', '')]),
 # ---- C18
 dict(prop='C18', kind='M', name='insert before the lock', rule='R18a', edits=[(E, '''    rc = rwlock_wrlock(&active_instances_rwlock);
    if (rc == 0) {
        SLIST_INSERT_HEAD(&active_instances, instance, link);''', '''    SLIST_INSERT_HEAD(&active_instances, instance, link);
    rc = rwlock_wrlock(&active_instances_rwlock);
    if (rc == 0) {''')]),
 dict(prop='C18', kind='M', name='refcount decrement outside the mutex', rule='R18b', edits=[(GAL, '''  pthread_mutex_lock(&init_mutex);
  init_counter--;''', '''  init_counter--;
  pthread_mutex_lock(&init_mutex);''')]),
 dict(prop='C18', kind='M', name='early return with the lock held', rule='R18d', edits=[(E, '''        if (desc <= 0)
            goto register_out;''', '''        if (desc <= 0)
            return -1;''')]),
 # ---- C19
 dict(prop='C19', kind='M', name='inversion result ignored in decode', rule='R19a', edits=[(ISA, '''    int im_ret = isa_l_desc->gf_invert_matrix(decode_matrix, decode_inverse, k);
    if (im_ret < 0) {
        goto out;
    }

    // Generate g_tbls''', '''    int im_ret = isa_l_desc->gf_invert_matrix(decode_matrix, decode_inverse, k);
    (void) im_ret;

    // Generate g_tbls''')]),
 dict(prop='C19', kind='M', name='gf_mul symbol not null-checked', rule='R19d', edits=[(ISA, '''    if (NULL == desc->gf_mul) {
        goto error;
    }''', '')]),
 # ---- C20
 dict(prop='C20', kind='M', name='filter keeps the invalid fragments', rule='R20a', edits=[(E, '            if (!is_invalid_fragment(desc, available_fragments[i])) {', '            if (is_invalid_fragment(desc, available_fragments[i])) {')]),
 dict(prop='C20', kind='M', name='filtered list not used', rule='R20a', edits=[(E, '''        available_fragments = valid_fragments;
        num_fragments = num_valid_fragments;''', '''        num_fragments = num_valid_fragments;''')]),
]
