#!/bin/sh
# tools/tm.sh <patch> PROP... : terse trymut (exit lines, violations, analysis-broken lines only)
p=$1; shift
python3 "$(dirname "$0")/trymut.py" --patch "$p" "$@" 2>&1 | grep -E "^\s*violation:|ANALYSIS-BROKEN|-> exit|Traceback|Error" | cut -c1-${W:-300}
