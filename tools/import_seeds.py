#!/usr/bin/python3
"""copy confirmed seeds from /tmp/seed/Cxx/SEED/n into /verif/seeded/<id>/ with meta.json (confirmation results)"""
import json, os, shutil, sys, re
conf = {}
OFFSET = int(sys.argv[2]) if len(sys.argv) > 2 else 0      # wave 2: seeds 1,2 are stored as s3,s4
for f in (sys.argv[1:2] or ['/tmp/seed/confirm1.jsonl', '/tmp/seed/confirm2.jsonl']):
    for l in open(f):
        l = l.strip()
        if l.startswith('{'):
            d = json.loads(l); conf[d['seed']] = d
props = {json.loads(l)['id']: json.loads(l) for l in open('/verif/properties.jsonl')}
for key, c in sorted(conf.items()):
    prop, n = key.split('/')
    ok = c['applies'] and c['builds'] and c['suite_ok'] == 292 and c['suite_not_ok'] == 0 and c['suite_rc'] == 0 and c['demo_with'] != 0 and c['demo_without'] == 0
    if not ok:
        print('skip', key, c); continue
    sid = f'{prop}-s{int(n) + OFFSET}'
    dst = f'/verif/seeded/{sid}'
    src = f'/tmp/seed/{prop}/SEED/{n}'
    os.makedirs(dst, exist_ok=True)
    for fn in sorted(os.listdir(src)):
        p = os.path.join(src, fn)
        if os.path.isfile(p) and not fn.startswith('.') and os.path.getsize(p) < 200000 and (fn in ('patch.diff', 'NOTES.md') or fn.endswith(('.c', '.sh', '.h', '.py'))):
            shutil.copy(p, os.path.join(dst, fn))
    for sub in sorted(os.listdir(src)):
        sp = os.path.join(src, sub)
        if os.path.isdir(sp) and not sub.startswith('.'):
            for fn in sorted(os.listdir(sp)):
                p2 = os.path.join(sp, fn)
                if os.path.isfile(p2) and fn.endswith(('.c', '.h', '.sh')) and os.path.getsize(p2) < 200000:
                    os.makedirs(os.path.join(dst, sub), exist_ok=True)
                    shutil.copy(p2, os.path.join(dst, sub, fn))
    if prop == 'C19' and os.path.exists('/tmp/seed/C19/SEED/stub/isal_stub.c'):
        os.makedirs(os.path.join(dst, 'stub'), exist_ok=True)
        shutil.copy(f'/tmp/seed/C19/SEED/stub/isal_stub.c', os.path.join(dst, 'stub', 'isal_stub.c'))
    notes = open(os.path.join(src, 'NOTES.md')).read() if os.path.exists(os.path.join(src, 'NOTES.md')) else ''
    files = sorted(set(re.findall(r'^\+\+\+ b/(\S+)', open(os.path.join(src, 'patch.diff')).read(), re.M)))
    meta = {
        'id': sid, 'property': prop, 'title': props[prop]['title'],
        'origin': 'written by an independent sub-agent that was given only the property text and a private scratch worktree (nothing from /verif)',
        'files_touched': files,
        'needs_to_manifest': 'see NOTES.md (trigger conditions stated by the author of the change)',
        'confirmed': {
            'against_repo_head': c['head'],
            'how': 'tools/confirm_seed.sh in a scratch worktree configured in place: baseline build + demo (must exit 0); git apply patch.diff; make; '
                   'make test (must exit 0 with 292 ok / 0 not ok); demo again (must exit non-zero); revert',
            'patch_applies': c['applies'], 'builds': c['builds'], 'suite_ok_lines': c['suite_ok'], 'suite_not_ok_lines': c['suite_not_ok'],
            'suite_exit': c['suite_rc'], 'demo_exit_with_change': c['demo_with'], 'demo_exit_without_change': c['demo_without'],
        },
    }
    json.dump(meta, open(os.path.join(dst, 'meta.json'), 'w'), indent=1)
    print('imported', sid)
