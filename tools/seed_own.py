#!/usr/bin/python3
"""tools/seed_own.py [seed-id ...] : quick regression - run only the check of the property each seeded change was written against
(scratch copy of /repo + patch) and list the seeds it does not report; nothing is written to seeded/"""
import json, os, subprocess, sys
from concurrent.futures import ThreadPoolExecutor
sys.path.insert(0, os.path.dirname(os.path.dirname(os.path.abspath(__file__))))
from lecverif.scratch import scratch_tree
V = os.path.dirname(os.path.dirname(os.path.abspath(__file__)))

def run_seed(sid):
    d = os.path.join(V, 'seeded', sid)
    prop = json.load(open(os.path.join(d, 'meta.json')))['property']
    with scratch_tree('/repo', os.path.join(d, 'patch.diff')) as root:
        r = subprocess.run([os.path.join(V, 'check'), prop, '--root', root], capture_output=True, text=True)
    return sid, prop, r.returncode

def main():
    ids = sys.argv[1:] or sorted(x for x in os.listdir(os.path.join(V, 'seeded')) if os.path.isdir(os.path.join(V, 'seeded', x)))
    with ThreadPoolExecutor(max_workers=int(os.environ.get('JOBS', '8'))) as ex:
        res = list(ex.map(run_seed, ids))
    bad = [r for r in res if r[2] != 1]
    print(f'{len(res) - len(bad)}/{len(res)} seeded changes reported by the check of their own property')
    for r in bad:
        print('NOT REPORTED', r)
    sys.exit(1 if bad else 0)

if __name__ == '__main__':
    main()
