#!/bin/sh
# tools/mkworktree.sh <dir> [commit]  : scratch git worktree of /repo, configured and built in place (own include paths)
set -e
d="$1"; c="${2:-HEAD}"
git -C /repo worktree add -q --detach "$d" "$c"
# configure scaffolding is git-ignored in /repo: copy it (not the build output, not the generated Makefiles)
rsync -a --ignore-existing --exclude=.git --exclude='*.o' --exclude='*.lo' --exclude='*.la' --exclude=.libs --exclude=.deps \
      --exclude=Makefile --exclude=config.status --exclude=config.log --exclude=libtool --exclude='*.pc' --exclude=doc/html \
      --exclude=doc/latex --exclude='test/*_test' --exclude=test/libec_slap --exclude=autom4te.cache --exclude=stamp-h1 \
      --exclude=include/config.h --exclude=config_liberasurecode.h /repo/ "$d"/
cd "$d"
./configure -q >/dev/null 2>&1
make -j16 >/dev/null 2>&1
echo "worktree ready: $d (run: make test)"
