#!/usr/bin/python3
"""tools/trymut.py [--patch P.diff | --edit FILE OLD NEW]... PROP [PROP...]  : run checks against a mutated scratch copy"""
import sys, os, subprocess
sys.path.insert(0, os.path.dirname(os.path.dirname(os.path.abspath(__file__))))
from lecverif.scratch import scratch_tree
a = sys.argv[1:]
patch = None; edits = []
while a and a[0].startswith('--'):
    if a[0] == '--patch':
        patch = a[1]; a = a[2:]
    elif a[0] == '--edit':
        edits.append((a[1], a[2], a[3])); a = a[4:]
    else:
        sys.exit('bad option ' + a[0])
rc = 0
with scratch_tree('/repo', patch, edits) as root:
    for p in a:
        env = dict(os.environ, LECVERIF_NO_EVIDENCE='1')
        r = subprocess.run([os.path.join(os.path.dirname(os.path.dirname(os.path.abspath(__file__))), 'check'), p, '--root', root], env=env)
        rc = max(rc, r.returncode)
sys.exit(rc)
