#!/usr/bin/python3
"""regenerates MANIFEST.json from lecverif/manifest_data.py (single source of truth for claimed checks)"""
import json, os, sys
sys.path.insert(0, os.path.dirname(os.path.dirname(os.path.abspath(__file__))))
from lecverif import manifest_data as md
props = [json.loads(l) for l in open(os.path.join(os.path.dirname(__file__), '..', 'properties.jsonl'))]
ids = [p['id'] for p in props]
checks = []
for pid in ids:
    c = md.CHECKS.get(pid)
    if not c:
        continue
    checks.append({
        'property_id': pid,
        'quick_cmd': f'./check {pid} --tier quick',
        'thorough_cmd': f'./check {pid} --tier thorough',
        'evidence_file': f'/verif/evidence/{pid}.json',
        'replay_cmd_template': 'cat {path}',
        'engine': 'lecverif',
        'level_claimed': {'category': 'other', 'text': c['text'], 'design_ref': f'DESIGN.md §3 {pid}'},
        'level_note': c['note'],
        'technique': c['technique'],
    })
na = [{'property_id': pid, 'reason': md.NOT_APPLICABLE.get(pid, 'no static rule built for this property yet')}
      for pid in ids if pid not in md.CHECKS]
man = {
    'version': 1,
    'setup_cmd': 'true',
    'hooks': {'guard': 'LIBERASURECODE_VERIF', 'enable': 'none needed: the checks analyse the unmodified sources (no hook code in /repo)',
              'baseline_off_cmd': 'cd /repo && make test', 'source_commits': [], 'add_only': True},
    'engines': [{'name': 'lecverif', 'path': '/verif/lecverif', 'serves_properties': [c['property_id'] for c in checks],
                 'kind_free_text': 'repository-specific static analyses in Python over clang-14 -O0/mem2reg LLVM IR of every unit of the '
                                   'build (CFG, dominators, value flow, slot-resolved call graph, effect summaries, lockset, ownership '
                                   'typestate, path obligations), constant-table mathematics on initialisers, and _Static_assert witnesses'}],
    'checks': checks,
    'notes': md.NOTES,
    'not_applicable': na,
}
json.dump(man, open(os.path.join(os.path.dirname(__file__), '..', 'MANIFEST.json'), 'w'), indent=1)
print('claimed', len(checks), 'not applicable', len(na))
