#!/bin/bash
# tools/confirm_seed.sh <worktree> <n>   : confirm seed <worktree>/SEED/<n> against /repo's current HEAD
# prints one JSON line: {"seed":..., "applies":..., "builds":..., "suite_ok":N, "suite_rc":..., "demo_with":rc, "demo_without":rc}
W="$1"; N="$2"; S="$W/SEED/$N"
cd "$W" || exit 2
HEAD=$(git -C /repo rev-parse HEAD)
git checkout -q -- . 2>/dev/null
git checkout -q --detach "$HEAD" 2>/dev/null
rundemo() {
  if [ -f "$S/run.sh" ]; then
    timeout 600 sh "$S/run.sh" >"$S/.out.$1" 2>&1; echo $?
  else
    gcc -g -I include -I include/erasurecode "$S/demo.c" -o "$S/demo" -L src/.libs -lerasurecode -lz -lpthread -ldl >"$S/.out.$1" 2>&1 || { echo 99; return; }
    LD_LIBRARY_PATH=src/.libs:src/builtin/rs_vand/.libs:src/builtin/xor_codes/.libs:src/builtin/null_code/.libs timeout 600 "$S/demo" >>"$S/.out.$1" 2>&1; echo $?
  fi
}
make -j4 >/dev/null 2>&1
WITHOUT=$(rundemo without)
APPLIES=true; git apply --check "$S/patch.diff" 2>/dev/null || APPLIES=false
BUILDS=false; OK=0; RC=-1; WITH=-1
if $APPLIES; then
  git apply "$S/patch.diff"
  if make -j4 >/dev/null 2>&1; then
    BUILDS=true
    make test >"$S/.suite.log" 2>&1; RC=$?
    OK=$(grep -c '^ok' "$S/.suite.log"); NOK=$(grep -c 'not ok' "$S/.suite.log")
    WITH=$(rundemo with)
  fi
  git checkout -q -- src include
  make -j4 >/dev/null 2>&1
fi
echo "{\"seed\":\"$(basename $W)/$N\",\"head\":\"${HEAD:0:7}\",\"applies\":$APPLIES,\"builds\":$BUILDS,\"suite_ok\":$OK,\"suite_not_ok\":${NOK:-0},\"suite_rc\":$RC,\"demo_with\":$WITH,\"demo_without\":$WITHOUT}"
