#!/usr/bin/python3
"""tools/gen_known_statics.py : (re)generate lecverif/known_statics.json - signature and referrers of every file-local function of the
reference tree (/repo HEAD), per unit.  Reference data like known_functions.txt: regenerate only when the rules are re-anchored."""
import os, sys, json
sys.path.insert(0, os.path.dirname(os.path.dirname(os.path.abspath(__file__))))
from lecverif import build
out = {}
for c, p in build.compile_all('/repo'):
    prof = build.static_profile(open(p).read())
    d = {n: {'sig': v['sig'], 'refs': v['refs']} for n, v in prof.items() if v['internal']}
    if d:
        out.setdefault(c['unit'], {}).update(d)
path = os.path.join(os.path.dirname(os.path.dirname(os.path.abspath(__file__))), 'lecverif', 'known_statics.json')
json.dump(out, open(path, 'w'), indent=1, sort_keys=True)
print(sum(len(v) for v in out.values()), 'file-local functions in', len(out), 'units')
