#!/usr/bin/python3
"""tools/stack_benign.py [N] : apply as many behaviour-preserving patches from selftest/benign as stack without conflict (N random orders,
default 4) onto a scratch copy of /repo and run every check on the result - refactorings combine in practice"""
import os, sys, random, subprocess, glob
sys.path.insert(0, os.path.dirname(os.path.dirname(os.path.abspath(__file__))))
from lecverif.scratch import scratch_tree
V = os.path.dirname(os.path.dirname(os.path.abspath(__file__)))
PROPS = [f'C{i:02d}' for i in range(1, 21)]
patches = sorted(glob.glob(os.path.join(V, 'selftest', 'benign', '*', 'patch.diff')))
N = int(sys.argv[1]) if len(sys.argv) > 1 else 4
bad = 0
for rnd in range(N):
    random.seed(1000 + rnd)
    order = patches[:]
    random.shuffle(order)
    with scratch_tree('/repo', None) as root:
        applied = []
        for p in order:
            if subprocess.run(['git', 'apply', '--check', p], cwd=root, capture_output=True).returncode == 0 or \
               subprocess.run(['patch', '-p1', '--dry-run', '-s', '-f', '-i', p], cwd=root, capture_output=True).returncode == 0:
                if subprocess.run(['patch', '-p1', '-s', '-f', '-i', p], cwd=root, capture_output=True).returncode == 0:
                    applied.append(os.path.basename(os.path.dirname(p)))
        # must still compile
        from lecverif import build
        try:
            build.compile_all(root)
        except Exception as e:
            print(f'round {rnd}: stacked tree does not compile ({str(e)[:80]}); skipped'); continue
        res = {}
        procs = {p: subprocess.Popen([os.path.join(V, 'check'), p, '--root', root], stdout=subprocess.PIPE, stderr=subprocess.STDOUT, text=True) for p in PROPS}
        for p, pr in procs.items():
            out = pr.communicate()[0]
            if pr.returncode != 0:
                res[p] = (pr.returncode, [l.strip()[:220] for l in out.split('\n') if 'violation:' in l or 'ANALYSIS-BROKEN' in l][:3])
        print(f'round {rnd}: {len(applied)} patches stacked; ' + ('all 20 checks silent' if not res else f'{len(res)} checks not silent'))
        for p, (rc, lines) in res.items():
            bad += 1
            print('   ', p, 'exit', rc)
            for l in lines:
                print('       ', l)
print('problems:', bad)
