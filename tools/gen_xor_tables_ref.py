#!/usr/bin/python3
"""tools/gen_xor_tables_ref.py [root] : write lecverif/xor_tables_ref.json - the integer contents of the flat-XOR equation tables of
every accepted shape, read from the IR of the reference tree (the pinned commit).  The tables are part of the wire format: parity
bytes of stored stripes depend on every entry."""
import json, os, sys
sys.path.insert(0, os.path.dirname(os.path.dirname(os.path.abspath(__file__))))
from lecverif.ir import load_program
from lecverif import xorrules
root = sys.argv[1] if len(sys.argv) > 1 else '/repo'
P = load_program(root)
mod = P.mod('src/builtin/xor_codes/xor_hd_code.c')
acc, box = xorrules.accepted_shapes(P)
out = {}
for (k, m, hd), a in sorted(acc.items()):
    Pt, Dt = xorrules.table_ints(P, mod, a['parity']), xorrules.table_ints(P, mod, a['data'])
    out[f'{k},{m},{hd}'] = {'parity': Pt, 'data': Dt}
dst = os.path.join(os.path.dirname(os.path.dirname(os.path.abspath(__file__))), 'lecverif', 'xor_tables_ref.json')
json.dump(out, open(dst, 'w'), indent=0, sort_keys=True)
print(len(out), 'shapes written to', dst)
