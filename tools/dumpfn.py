#!/usr/bin/python3
"""tools/dumpfn.py <patch|-> <function> [...] : print the normalised IR of functions with a patch applied to a scratch copy (debug aid)"""
import os, sys
sys.path.insert(0, os.path.dirname(os.path.dirname(os.path.abspath(__file__))))
from lecverif.scratch import scratch_tree
from lecverif.ir import load_program
def dump(root):
    P = load_program(root)
    for n in sys.argv[2:]:
        f = P.fn(n if n.startswith('@') else '@' + n)
        print(f'; ---- {f.name}  ({getattr(f, "unit", "")})')
        for b in f.order:
            print(f'{b.label}:   ; preds {[p.label for p in b.preds]}')
            for i in b.insts:
                print(f'    {i.raw.strip() if hasattr(i, "raw") else i}   ; L{i.line}')
if sys.argv[1] == '-':
    dump('/repo')
else:
    with scratch_tree('/repo', sys.argv[1]) as root:
        dump(root)
