#!/usr/bin/python3
"""tools/benign_matrix.py <dir-with-patches...> : run every check against each behaviour-preserving patch; anything but exit 0 is a problem"""
import os, re, subprocess, sys, glob
from concurrent.futures import ThreadPoolExecutor
sys.path.insert(0, os.path.dirname(os.path.dirname(os.path.abspath(__file__))))
from lecverif.scratch import scratch_tree
V = os.path.dirname(os.path.dirname(os.path.abspath(__file__)))
PROPS = [f'C{i:02d}' for i in range(1, 21)]
def run(patch):
    out = {}
    try:
        with scratch_tree('/repo', patch) as root:
            for p in PROPS:
                r = subprocess.run([os.path.join(V, 'check'), p, '--root', root], capture_output=True, text=True)
                if r.returncode != 0:
                    lines = [l.strip()[:230] for l in r.stdout.split('\n') if 'violation:' in l or 'ANALYSIS-BROKEN' in l]
                    out[p] = (r.returncode, lines[:4])
    except ValueError as e:
        return patch, {'apply': (None, [str(e)[:100]])}
    return patch, out
patches = []
for a in sys.argv[1:]:
    patches += sorted(glob.glob(os.path.join(a, '*', 'patch.diff'))) + sorted(glob.glob(os.path.join(a, '*.diff')))
with ThreadPoolExecutor(max_workers=8) as ex:
    res = list(ex.map(run, patches))
bad = 0
for patch, out in res:
    if not out:
        print('silent      ', patch)
    else:
        bad += 1
        for p, (rc, lines) in out.items():
            print('FALSE-ALARM ' if rc == 1 else ('BROKEN      ' if rc == 2 else 'SKIP        '), patch, p)
            for l in lines:
                print('             ', l)
print(f'{len(res) - bad}/{len(res)} silent')
