#include "common.h"
/* C03/C13: out-of-range destination index */
int main(int argc,char**argv){
  int dest=argc>1?atoi(argv[1]):99;
  struct ec_args a={.k=4,.m=2,.hd=2,.ct=CHKSUM_NONE};
  int d=liberasurecode_instance_create(EC_BACKEND_LIBERASURECODE_RS_VAND,&a); assert(d>0);
  int n=4000; char *buf=mkbuf(n); char **ed,**ep; uint64_t fl;
  assert(0==liberasurecode_encode(d,buf,n,&ed,&ep,&fl));
  char *av[6]={ed[0],ed[1],ed[2],ed[3],ep[0],ep[1]};
  char *rf=calloc(1,fl);
  int rc=liberasurecode_reconstruct_fragment(d,av,6,fl,dest,rf);
  printf("reconstruct dest=%d rc=%d\n",dest,rc);
  return 0;
}
