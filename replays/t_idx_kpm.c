#include "common.h"
#include <zlib.h>
/* C12: idx == k+m, resealed */
int main(void){
  struct ec_args a={.k=4,.m=2,.hd=2,.ct=CHKSUM_CRC32};
  int d=liberasurecode_instance_create(EC_BACKEND_LIBERASURECODE_RS_VAND,&a); assert(d>0);
  int n=4000; char *buf=mkbuf(n); char **ed,**ep; uint64_t fl;
  assert(0==liberasurecode_encode(d,buf,n,&ed,&ep,&fl));
  for(int idx=5; idx<=7; idx++){
    fragment_header_t *h=(fragment_header_t*)ed[0];
    h->meta.idx=idx; h->metadata_chksum=crc32(0,(unsigned char*)&h->meta,sizeof(h->meta));
    printf("idx=%d is_invalid_fragment=%d verify_stripe=%d\n",idx,is_invalid_fragment(d,ed[0]),liberasurecode_verify_stripe_metadata(d,ed,1));
  }
  return 0;
}
