#include "common.h"
#include <zlib.h>
#include <byteswap.h>
/* C11: byte-swapped twin */
int main(void){
  struct ec_args a={.k=4,.m=2,.hd=2,.ct=CHKSUM_CRC32};
  int d=liberasurecode_instance_create(EC_BACKEND_LIBERASURECODE_RS_VAND,&a); assert(d>0);
  int n=4000; char *buf=mkbuf(n); char **ed,**ep; uint64_t fl;
  assert(0==liberasurecode_encode(d,buf,n,&ed,&ep,&fl));
  fragment_metadata_t m0,m1;
  assert(0==liberasurecode_get_fragment_metadata(ed[1],&m0));
  char *tw=malloc(fl); memcpy(tw,ed[1],fl);
  fragment_header_t *h=(fragment_header_t*)tw;
  h->meta.idx=bswap_32(h->meta.idx); h->meta.size=bswap_32(h->meta.size);
  h->meta.frag_backend_metadata_size=bswap_32(h->meta.frag_backend_metadata_size);
  h->meta.orig_data_size=bswap_64(h->meta.orig_data_size);
  for(int i=0;i<8;i++) h->meta.chksum[i]=bswap_32(h->meta.chksum[i]);
  h->meta.backend_version=bswap_32(h->meta.backend_version);
  h->magic=bswap_32(h->magic); h->libec_version=bswap_32(h->libec_version);
  h->metadata_chksum=bswap_32(crc32(0,(unsigned char*)&h->meta,sizeof(h->meta)));
  int rc=liberasurecode_get_fragment_metadata(tw,&m1);
  printf("rc=%d idx %u/%u size %u/%u orig %lu/%lu ct %u/%u chk %x/%x bid %u/%u bver %x/%x mism %u/%u\n",rc,m0.idx,m1.idx,m0.size,m1.size,(unsigned long)m0.orig_data_size,(unsigned long)m1.orig_data_size,m0.chksum_type,m1.chksum_type,m0.chksum[0],m1.chksum[0],m0.backend_id,m1.backend_id,m0.backend_version,m1.backend_version,m0.chksum_mismatch,m1.chksum_mismatch);
  tw[80+5]^=0x40; ed[1][80+5]^=0x40;
  liberasurecode_get_fragment_metadata(ed[1],&m0); liberasurecode_get_fragment_metadata(tw,&m1);
  printf("after payload corruption: mismatch native=%u swapped=%u\n",m0.chksum_mismatch,m1.chksum_mismatch);
  return 0;
}
