#include "common.h"
/* C20: forced metadata checks with a corrupted data fragment payload */
int main(void){
  struct ec_args a={.k=4,.m=2,.hd=2,.ct=CHKSUM_CRC32};
  int d=liberasurecode_instance_create(EC_BACKEND_LIBERASURECODE_RS_VAND,&a); assert(d>0);
  int n=4000; char *buf=mkbuf(n); char **ed,**ep; uint64_t fl;
  assert(0==liberasurecode_encode(d,buf,n,&ed,&ep,&fl));
  ed[1][80+17]^=0x01;
  char *av[6]={ed[0],ed[1],ed[2],ed[3],ep[0],ep[1]};
  char *out=NULL; uint64_t ol=0;
  int rc=liberasurecode_decode(d,av,6,fl,1,&out,&ol);
  printf("all6 force=1 rc=%d equal=%d\n",rc, rc==0? (ol==(uint64_t)n&&!memcmp(out,buf,n)):-1);
  char *av2[5]={ed[1],ed[2],ed[3],ep[0],ep[1]};
  rc=liberasurecode_decode(d,av2,5,fl,1,&out,&ol);
  printf("5 (missing d0, d1 corrupt) force=1 rc=%d equal=%d\n",rc, rc==0? (ol==(uint64_t)n&&!memcmp(out,buf,n)):-1);
  return 0;
}
