#include "common.h"
/* C13: combined null args */
int main(void){
  struct ec_args a={.k=4,.m=2,.hd=2,.ct=CHKSUM_NONE};
  int d=liberasurecode_instance_create(EC_BACKEND_LIBERASURECODE_RS_VAND,&a); assert(d>0);
  uint64_t fl; char **ep=NULL;
  int rc=liberasurecode_encode(d,NULL,10,NULL,&ep,&fl);
  printf("encode(NULL data, NULL encoded_data) rc=%d\n",rc);
  return 0;
}
