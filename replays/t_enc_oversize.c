/* F17: liberasurecode_encode with a length that does not fit an int: the first fragment allocation in
 * prepare_fragments_for_encode fails, its error path frees the fragment arrays, and liberasurecode_encode then walks the
 * freed arrays and frees them again through liberasurecode_encode_cleanup (use after free + double free).
 * Run under valgrind:  valgrind -q ./t_enc_oversize   (clean after the fix; rc must be negative) */
#include <stdio.h>
#include <stdlib.h>
#include <string.h>
#include <erasurecode.h>
int main(void)
{
    struct ec_args args = { .k = 4, .m = 2, .w = 16, .hd = 3, .ct = CHKSUM_NONE };
    int desc = liberasurecode_instance_create(EC_BACKEND_LIBERASURECODE_RS_VAND, &args);
    char **data = NULL, **parity = NULL;
    uint64_t flen = 0;
    char *buf = calloc(1, 4096);
    if (desc <= 0) { printf("create failed %d\n", desc); return 2; }
    int rc = liberasurecode_encode(desc, buf, 0x80000000ULL, &data, &parity, &flen);
    printf("encode rc=%d\n", rc);
    liberasurecode_instance_destroy(desc);
    free(buf);
    return rc < 0 ? 0 : 1;
}
