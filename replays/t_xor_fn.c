#include "common.h"
static int popc(unsigned x){return __builtin_popcount(x);}
/* triage fragments_needed: all R with |R|<hd, X empty; check rc, range, disjointness; count anomalies */
int main(int argc,char**argv){
  int k=atoi(argv[1]), m=atoi(argv[2]), hd=atoi(argv[3]);
  struct ec_args a={.k=k,.m=m,.hd=hd,.ct=CHKSUM_NONE};
  int d=liberasurecode_instance_create(EC_BACKEND_FLAT_XOR_HD,&a); if(d<=0){printf("create %d\n",d);return 0;}
  int N=k+m; long tot=0,anom=0;
  for(unsigned e=1;e<(1u<<N);e++){ int c=popc(e); if(c>=hd) continue;
    int R[8],X[1]={-1},need[64]; int j=0; for(int i=0;i<N;i++) if(e>>i&1) R[j++]=i; R[j]=-1;
    for(int i=0;i<64;i++) need[i]=-777;
    int rc=liberasurecode_fragments_needed(d,R,X,need); tot++;
    int bad=0; if(rc!=0) bad=1; else { int t; for(t=0;t<64&&need[t]!=-1;t++){ if(need[t]<0||need[t]>=N||(e>>need[t]&1)) bad=2; } if(t==64) bad=3; }
    if(bad){ anom++; if(anom<=5){ printf("  anomaly kind=%d R=0x%x rc=%d need=",bad,e,rc); for(int t=0;t<8;t++)printf("%d ",need[t]); printf("\n"); } }
  }
  /* beyond tolerance */
  int R[8]={0,1,2,3,-1},X[1]={-1},need[64]; for(int i=0;i<64;i++)need[i]=-777;
  int rc=liberasurecode_fragments_needed(d,R,X,need);
  printf("(%d,%d,%d) sets=%ld anomalies=%ld ; beyond-tolerance R={0,1,2,3}: rc=%d need[0]=%d\n",k,m,hd,tot,anom,rc,need[0]);
  return 0;
}
