#include "common.h"
/* F16 (C08/C13): ISA-L adapter keeps the caller's w but reports element size 8.
 * Needs some libisal.so.2 on the library path; a stub exporting the five primitives is enough
 * because only create and the size queries are exercised. */
int main(int argc,char**argv){
  int w=argc>1?atoi(argv[1]):16;
  struct ec_args a={.k=3,.m=2,.w=w,.hd=2,.ct=CHKSUM_NONE};
  int d=liberasurecode_instance_create(EC_BACKEND_ISA_L_RS_VAND,&a);
  printf("create w=%d -> %d\n",w,d); fflush(stdout); if(d<=0) return 0;
  for(int len=1; len<=13; len+=6){
    int al=liberasurecode_get_aligned_data_size(d,len);
    int fs=liberasurecode_get_fragment_size(d,len);
    printf("len=%d public aligned=%d (aligned/k=%d)  fragment_size=%d\n",len,al,al/3,fs); fflush(stdout);
  }
  return 0;
}
