/* F19 triage: flat XOR fragments_needed, single requested data fragment + one excluded data fragment of the same equation.
 * Property C06: the answer contains none of the requested or excluded indexes.
 * build: gcc -I /repo/include/erasurecode -I /repo/include t_xor_needed_excluded.c -L /repo/src/.libs -lerasurecode -o t
 * run:   LD_LIBRARY_PATH=/repo/src/.libs:/repo/src/builtin/xor_codes/.libs:/repo/src/builtin/rs_vand/.libs:/repo/src/builtin/null_code/.libs ./t */
#include <stdio.h>
#include <string.h>
#include <erasurecode.h>
int main(void)
{
    int bad = 0, total = 0;
    int shapes[][3] = {{6,6,3},{10,5,3},{12,6,4},{5,5,3},{7,6,4}};
    for (unsigned s = 0; s < sizeof shapes / sizeof shapes[0]; s++) {
        struct ec_args a; memset(&a, 0, sizeof a);
        a.k = shapes[s][0]; a.m = shapes[s][1]; a.hd = shapes[s][2];
        int d = liberasurecode_instance_create(EC_BACKEND_FLAT_XOR_HD, &a);
        if (d <= 0) { printf("create failed %d\n", d); return 2; }
        for (int r = 0; r < a.k; r++) for (int x = 0; x < a.k + a.m; x++) {
            if (x == r) continue;
            int R[2] = {r, -1}, X[2] = {x, -1}, N[64];
            int rc = liberasurecode_fragments_needed(d, R, X, N);
            total++;
            if (rc == 0) {
                for (int i = 0; N[i] > -1; i++)
                    if (N[i] == x || N[i] == r) {
                        if (bad < 5) printf("(%d,%d,%d) R={%d} X={%d}: answer contains %d\n", a.k, a.m, a.hd, r, x, N[i]);
                        bad++; break;
                    }
            }
        }
        liberasurecode_instance_destroy(d);
    }
    printf("%d of %d queries name a requested or excluded fragment\n", bad, total);
    return bad ? 1 : 0;
}
