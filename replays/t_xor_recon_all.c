#include "common.h"
/* F2 triage: reconstruct every destination from every survivor set with <= maxe erasures */
static int popc(unsigned x){return __builtin_popcount(x);}
int main(int argc,char**argv){
  int k=atoi(argv[1]), m=atoi(argv[2]), hd=atoi(argv[3]); int maxe=argc>4?atoi(argv[4]):m;
  struct ec_args a={.k=k,.m=m,.hd=hd,.ct=CHKSUM_CRC32};
  int d=liberasurecode_instance_create(EC_BACKEND_FLAT_XOR_HD,&a); if(d<=0){printf("create %d\n",d);return 0;}
  int n=977; char *buf=mkbuf(n); char **ed,**ep; uint64_t fl;
  assert(0==liberasurecode_encode(d,buf,n,&ed,&ep,&fl));
  int N=k+m; long tot=0,ok=0,err=0,bad=0,badlt=0,errlt=0; char *rf=malloc(fl);
  for(unsigned e=1;e<(1u<<N);e++){ int c=popc(e); if(c>maxe) continue;
    char *av[32]; int na=0; for(int i=0;i<N;i++) if(!(e>>i&1)) av[na++]= i<k?ed[i]:ep[i-k];
    for(int dst=0; dst<N; dst++){ if(!(e>>dst&1)) continue;
      memset(rf,0x5a,fl); int rc=liberasurecode_reconstruct_fragment(d,av,na,fl,dst,rf); tot++;
      char *want= dst<k?ed[dst]:ep[dst-k];
      if(rc==0){ if(!memcmp(rf,want,fl)) ok++; else {bad++; if(c<hd)badlt++; if(bad<=3) printf("  SILENT: erasures=0x%x dst=%d rc=0 wrong bytes\n",e,dst);} }
      else {err++; if(c<hd){errlt++; if(errlt<=3) printf("  ERR within tolerance 0x%x dst=%d rc=%d\n",e,dst,rc);}}
    }
  }
  printf("(%d,%d,%d) recon cases=%ld ok=%ld err=%ld silent_bad=%ld (within<hd: bad=%ld err=%ld)\n",k,m,hd,tot,ok,err,bad,badlt,errlt);
  return 0;
}
