#include "common.h"
int main(void){
  struct ec_args a={.k=4,.m=0,.hd=0,.ct=CHKSUM_NONE};
  int d=liberasurecode_instance_create(EC_BACKEND_LIBERASURECODE_RS_VAND,&a);
  printf("create k=4 m=0 -> %d\n",d);
  return 0;
}
