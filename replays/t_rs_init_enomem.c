/* F18: when make_systematic_matrix() fails inside liberasurecode_rs_vand_init (allocation failure), the reference on the
 * shared GF(2^16) tables taken by init_liberasurecode_rs_vand() is never dropped: the create fails, no instance exists, yet
 * the tables (1 MiB) stay allocated for the life of the process and the count is off by one for all later instances.
 * Build:  gcc -g -DSHIM -shared -fPIC -o /tmp/failmalloc.so t_rs_init_enomem.c -ldl
 *         gcc -g -I/repo/include/erasurecode -o /tmp/t_rs_init_enomem t_rs_init_enomem.c -L/repo/src/.libs -lerasurecode -lz
 * Run:    LD_PRELOAD=/tmp/failmalloc.so LD_LIBRARY_PATH=... /tmp/t_rs_init_enomem      (exit 0 = tables released) */
#define _GNU_SOURCE
#include <stdio.h>
#include <stdlib.h>
#include <string.h>
#include <dlfcn.h>
#ifdef SHIM
static long fail_size = -1;          /* fail the next malloc of exactly this size; -1: never fail */
void failmalloc_arm(long n) { fail_size = n; }
void *malloc(size_t sz)
{
    static void *(*real)(size_t) = NULL;
    if (!real) real = (void *(*)(size_t)) dlsym(RTLD_NEXT, "malloc");
    if (fail_size > 0 && (long) sz == fail_size) { fail_size = -1; return NULL; }
    return real(sz);
}
#else
#include <erasurecode.h>
extern int *log_table;               /* exported by liberasurecode.so */
int main(void)
{
    void (*arm)(long) = (void (*)(long)) dlsym(RTLD_DEFAULT, "failmalloc_arm");
    struct ec_args args = { .k = 4, .m = 2, .w = 16, .hd = 3, .ct = CHKSUM_NONE };
    int bad = 0, n;
    if (!arm) { printf("run with LD_PRELOAD=failmalloc.so\n"); return 2; }
    /* the generator matrix of a (4,2) code: (k+m)*k ints = 96 bytes, allocated by create_non_systematic_vand_matrix */
    for (n = 96; n <= 96; n++) {
        arm(n);
        int d = liberasurecode_instance_create(EC_BACKEND_LIBERASURECODE_RS_VAND, &args);
        arm(-1);
        if (d > 0) { liberasurecode_instance_destroy(d); continue; }
        /* the create failed: no instance is live, so the shared tables must be gone */
        if (log_table != NULL) { printf("malloc(%d) fails -> create rc=%d but GF tables still allocated (refcount leaked)\n", n, d); bad++; 
            /* rebalance so that later iterations are independent */
            extern void rs_galois_deinit_tables(void); rs_galois_deinit_tables(); }
    }
    printf(bad ? "FAIL: %d leaked references\n" : "PASS\n", bad);
    return bad ? 1 : 0;
}
#endif
