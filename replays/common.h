#include <stdio.h>
#include <stdlib.h>
#include <string.h>
#include <stdint.h>
#include <assert.h>
#include "erasurecode.h"
#include "erasurecode_helpers.h"
static char *mkbuf(int n){ char *b=malloc(n?n:1); for(int i=0;i<n;i++) b[i]=(char)(i*7+3); return b; }
