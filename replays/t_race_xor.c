#include "common.h"
#include <pthread.h>
/* C18: per-thread create/use/destroy of own instances, run under ThreadSanitizer */
static void *worker(void *arg){
  long id=(long)arg;
  for(int it=0; it<200; it++){
    struct ec_args a={.k=3,.m=3,.hd=3,.ct=CHKSUM_NONE};
    int d=liberasurecode_instance_create(EC_BACKEND_FLAT_XOR_HD,&a); if(d<=0) continue;
    int n=512; char *buf=mkbuf(n); char **ed,**ep; uint64_t fl;
    if(0==liberasurecode_encode(d,buf,n,&ed,&ep,&fl)){
      char *av[4]={ed[1],ed[2],ep[0],ep[1]}; char *out; uint64_t ol;
      if(0==liberasurecode_decode(d,av,4,fl,0,&out,&ol)){ if(memcmp(out,buf,n)) printf("thread %ld MISMATCH\n",id); liberasurecode_decode_cleanup(d,out);}
      liberasurecode_encode_cleanup(d,ed,ep);
    }
    free(buf);
    liberasurecode_instance_destroy(d);
  }
  return NULL;
}
int main(void){ pthread_t t[4]; for(long i=0;i<4;i++) pthread_create(&t[i],0,worker,(void*)i); for(int i=0;i<4;i++) pthread_join(t[i],0); puts("done"); return 0; }
