#include "common.h"
int main(int argc,char**argv){
  int k=atoi(argv[1]), m=atoi(argv[2]), hd=atoi(argv[3]); unsigned e=strtoul(argv[4],0,0);
  struct ec_args a={.k=k,.m=m,.hd=hd,.ct=CHKSUM_NONE};
  int d=liberasurecode_instance_create(EC_BACKEND_FLAT_XOR_HD,&a); assert(d>0);
  int N=k+m; int R[8],X[1]={-1},need[64]; int j=0; for(int i=0;i<N;i++) if(e>>i&1) R[j++]=i; R[j]=-1;
  for(int i=0;i<64;i++) need[i]=-777;
  int rc=liberasurecode_fragments_needed(d,R,X,need);
  printf("rc=%d R=",rc); for(int i=0;R[i]>=0;i++)printf("%d ",R[i]); printf(" need="); for(int t=0;t<40&&need[t]!=-777;t++)printf("%d ",need[t]); printf("\n");
}
