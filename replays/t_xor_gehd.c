#include "common.h"
/* C02: flat_xor_hd (10,5,3): drop 3 data fragments (>= hd, <= m) */
int main(void){
  struct ec_args a={.k=10,.m=5,.hd=3,.ct=CHKSUM_NONE};
  int d=liberasurecode_instance_create(EC_BACKEND_FLAT_XOR_HD,&a); assert(d>0);
  int n=4000; char *buf=mkbuf(n); char **ed,**ep; uint64_t fl;
  assert(0==liberasurecode_encode(d,buf,n,&ed,&ep,&fl));
  char *av[15]; int c=0;
  for(int i=3;i<10;i++) av[c++]=ed[i];
  for(int i=0;i<5;i++) av[c++]=ep[i];
  char *out=NULL; uint64_t ol=0;
  int rc=liberasurecode_decode(d,av,c,fl,0,&out,&ol);
  printf("decode rc=%d len=%lu equal=%d\n",rc,(unsigned long)ol, rc==0? (ol==(uint64_t)n && !memcmp(out,buf,n)):-1);
  char *rf=malloc(fl);
  rc=liberasurecode_reconstruct_fragment(d,av,c,fl,0,rf);
  printf("reconstruct rc=%d equal=%d\n",rc, rc==0? !memcmp(rf,ed[0],fl):-1);
  int rec[]={0,1,2,-1}, exc[]={-1}, need[40]; for(int i=0;i<40;i++)need[i]=-7;
  rc=liberasurecode_fragments_needed(d,rec,exc,need);
  printf("fragments_needed rc=%d first=%d %d %d\n",rc,need[0],need[1],need[2]);
  return 0;
}
