#include "common.h"
/* C13: k=0 accepted by create? then encode */
int main(int argc,char**argv){
  int k=argc>1?atoi(argv[1]):0, m=argc>2?atoi(argv[2]):4;
  struct ec_args a={.k=k,.m=m,.hd=m,.ct=CHKSUM_NONE};
  int d=liberasurecode_instance_create(EC_BACKEND_LIBERASURECODE_RS_VAND,&a);
  printf("create k=%d m=%d -> %d\n",k,m,d); fflush(stdout);
  if(d<=0) return 0;
  printf("aligned(10)=%d\n",liberasurecode_get_aligned_data_size(d,10)); fflush(stdout);
  int n=100; char *buf=mkbuf(n); char **ed,**ep; uint64_t fl;
  int rc=liberasurecode_encode(d,buf,n,&ed,&ep,&fl);
  printf("encode rc=%d\n",rc);
  return 0;
}
