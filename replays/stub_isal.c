/* minimal stand-in for libisal.so.2: only what create + size queries need (triage of F16) */
void ec_encode_data(int len,int k,int rows,unsigned char*t,unsigned char**d,unsigned char**c){}
void ec_init_tables(int k,int rows,unsigned char*a,unsigned char*t){}
void gf_gen_rs_matrix(unsigned char*a,int m,int k){}
void gf_gen_cauchy1_matrix(unsigned char*a,int m,int k){}
int gf_invert_matrix(unsigned char*in,unsigned char*out,const int n){return -1;}
unsigned char gf_mul(unsigned char a,unsigned char b){return 0;}
