"""constant return value propagation along CFG regions (E4)"""
from .cfg import reachable_from
from .vflow import possible_consts

def returns_via_edge(fn, src, dst):
    """set of possible return values (ints / descriptors) on paths that take CFG edge src->dst"""
    via = reachable_from(dst) | {src}
    vals = set()
    for b in fn.order:
        t = b.insts[-1]
        if t.op == 'ret' and b in via:
            if not t.ops:
                vals.add('void')
            else:
                vals |= possible_consts(fn, t.ops[0], via)
    return vals

def returns_from_block(fn, blk):
    via = reachable_from(blk)
    vals = set()
    for b in fn.order:
        t = b.insts[-1]
        if t.op == 'ret' and b in via and t.ops:
            vals |= possible_consts(fn, t.ops[0], via)
    return vals

def all_negative(vals):
    return bool(vals) and all(isinstance(v, int) and v < 0 for v in vals)

def all_nonzero_const(vals):
    return bool(vals) and all(isinstance(v, int) and v != 0 for v in vals)
