"""constant return value propagation along CFG regions (E4)"""
from .cfg import reachable_from
from .vflow import possible_consts

def returns_via_edge(fn, src, dst):
    """set of possible return values (ints / descriptors) on paths that take CFG edge src->dst"""
    after = reachable_from(dst)
    via = after | {src}
    # the branch condition that selects this edge is known on every path through it (unless the branch can run again)
    truth = None
    bt = src.insts[-1]
    if bt.op == 'br' and bt.ops and len(bt.targets) == 2 and bt.targets[0] != bt.targets[1] and src not in after:
        truth = {bt.ops[0]: fn.blocks[bt.targets[0]] is dst}
    vals = set()
    for b in fn.order:
        t = b.insts[-1]
        if t.op == 'ret' and b in via:
            if not t.ops:
                vals.add('void')
            else:
                vals |= possible_consts(fn, t.ops[0], via, truth=truth)
    return vals

def returns_from_block(fn, blk):
    via = reachable_from(blk)
    vals = set()
    for b in fn.order:
        t = b.insts[-1]
        if t.op == 'ret' and b in via and t.ops:
            vals |= possible_consts(fn, t.ops[0], via)
    return vals

def all_negative(vals):
    return bool(vals) and all(isinstance(v, int) and v < 0 for v in vals)

def all_nonzero_const(vals):
    return bool(vals) and all(isinstance(v, int) and v != 0 for v in vals)
