"""constant return value propagation along CFG regions (E4)"""
from .cfg import reachable_from
from .vflow import possible_consts

def returns_via_edge(fn, src, dst):
    """set of possible return values (ints / descriptors) on paths that take CFG edge src->dst"""
    after = reachable_from(dst)
    if src not in after:
        # the edge fixes the truth of its condition; a later test of the same (or the complementary) condition cannot go the other way
        from .cfg import correlated_conditions, feasible_reachable, known_truths_at, _edge_truth
        conds = correlated_conditions(fn)
        if conds:
            et = _edge_truth(fn, src, dst, conds)
            known = set(known_truths_at(fn, src))
            if et is not None and not any(k == et[0] and v != et[1] for k, v in known):
                known = {(k, v) for k, v in known if k != et[0]} | {et}
            after = feasible_reachable(fn, dst, known=known)
    via = after | {src}
    # the branch condition that selects this edge is known on every path through it (unless the branch can run again)
    truth = None
    bt = src.insts[-1]
    if bt.op == 'br' and bt.ops and len(bt.targets) == 2 and bt.targets[0] != bt.targets[1] and src not in after:
        truth = {bt.ops[0]: fn.blocks[bt.targets[0]] is dst}
    vals = set()
    for b in fn.order:
        t = b.insts[-1]
        if t.op == 'ret' and b in via:
            if not t.ops:
                vals.add('void')
            else:
                vals |= possible_consts(fn, t.ops[0], via, truth=truth)
    return vals

def returns_from_block(fn, blk):
    via = reachable_from(blk)
    vals = set()
    for b in fn.order:
        t = b.insts[-1]
        if t.op == 'ret' and b in via and t.ops:
            vals |= possible_consts(fn, t.ops[0], via)
    return vals

def all_negative(vals):
    return bool(vals) and all(isinstance(v, int) and v < 0 for v in vals)

def all_nonzero_const(vals):
    return bool(vals) and all(isinstance(v, int) and v != 0 for v in vals)
