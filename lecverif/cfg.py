"""E3: CFG utilities – RPO, dominators, post-dominators, reachability, edge facts, natural loops."""
from collections import deque

NORETURN = {'@__assert_fail', '@abort', '@exit', '@_exit'}

def rpo(fn, entry=None, succ=lambda b: b.succs):
    entry = entry or fn.order[0]
    seen, order = {entry}, []
    stack = [(entry, iter(succ(entry)))]
    while stack:
        node, it = stack[-1]
        for s in it:
            if s not in seen:
                seen.add(s); stack.append((s, iter(succ(s)))); break
        else:
            order.append(node); stack.pop()
    order.reverse()
    return order

def _idoms(order, preds):
    idx = {b: i for i, b in enumerate(order)}
    entry = order[0]
    idom = {entry: entry}
    def intersect(a, b):
        while a is not b:
            while idx[a] > idx[b]:
                a = idom[a]
            while idx[b] > idx[a]:
                b = idom[b]
        return a
    changed = True
    while changed:
        changed = False
        for b in order[1:]:
            ps = [p for p in preds(b) if p in idom]
            if not ps:
                continue
            new = ps[0]
            for p in ps[1:]:
                new = intersect(p, new)
            if idom.get(b) is not new:
                idom[b] = new; changed = True
    return idom

def dominators(fn):
    c = fn._cache.get('idom')
    if c is None:
        c = _idoms(rpo(fn), lambda b: b.preds)
        fn._cache['idom'] = c
    return c

class _Exit:
    label = '<exit>'
    def __repr__(self):
        return '<exit>'

def postdominators(fn):
    """idom on the reversed CFG with a virtual exit joining all ret/unreachable blocks"""
    c = fn._cache.get('ipdom')
    if c is not None:
        return c
    ex = _Exit()
    exits = [b for b in fn.order if not b.succs]
    succ = lambda b: exits if b is ex else b.preds
    pred = lambda b: ([ex] if not b.succs else []) + list(b.succs) if b is not ex else []
    order = rpo(fn, ex, succ)
    c = _idoms(order, pred)
    c['<exit>'] = ex
    fn._cache['ipdom'] = c
    return c

def dominates(idom, a, b):
    while True:
        if a is b:
            return True
        nb = idom.get(b)
        if nb is None or nb is b:
            return False
        b = nb

def inst_dominates(fn, a, b):
    """instruction a dominates instruction b"""
    if a.bb is b.bb:
        return a.idx <= b.idx
    return dominates(dominators(fn), a.bb, b.bb)

def reachable_from(b, avoid_edges=(), avoid_blocks=()):
    seen = {b}; dq = deque([b])
    while dq:
        x = dq.popleft()
        for s in x.succs:
            if (x, s) in avoid_edges or s in avoid_blocks:
                continue
            if s not in seen:
                seen.add(s); dq.append(s)
    return seen

def edge_dominates(fn, src, dst, target):
    """every path entry -> target uses CFG edge src->dst"""
    entry = fn.order[0]
    if target is entry:
        return False
    seen = reachable_from(entry, avoid_edges={(src, dst)})
    if target not in seen:
        # target must at least be reachable at all
        return target in reachable_from(entry)
    return False

_REP = {'sge': ('slt', True), 'sle': ('sgt', True), 'uge': ('ult', True), 'ule': ('ugt', True), 'ne': ('eq', True)}

def cond_key(fn, c):
    """(key, flipped): two comparisons of the same operands with opposite predicates (`x >= 0` here, `x < 0` there) are one
    condition read with opposite sense"""
    d = fn.defs.get(c)
    if d is not None and d.op == 'icmp' and len(d.ops) >= 2:
        pred, flip = _REP.get(d.pred, (d.pred, False))
        return ('icmp', pred, d.ops[0], d.ops[1]), flip
    return ('ssa', c), False

def correlated_conditions(fn):
    """i1 values that decide more than one conditional branch and are computed outside every loop: such a value is the same
    each time it is tested, so a path that took its true edge once takes the true edge at the other branches as well
    (`if (missing) rebuild(); pick(); if (missing) stamp();`)"""
    key = ('corrconds',)
    if key in fn._cache:
        return fn._cache[key]
    uses = {}
    for b in fn.order:
        t = b.insts[-1]
        if t.op == 'br' and len(t.targets) == 2 and t.ops and t.targets[0] != t.targets[1]:
            uses.setdefault(cond_key(fn, t.ops[0])[0], []).append((b, t.ops[0]))
    inloop = set()
    for h, body in natural_loops(fn).items():
        inloop |= set(body)
    out = set()
    for k_, bs in uses.items():
        if len(bs) < 2:
            continue
        ok = True
        for b, c in bs:
            d = fn.defs.get(c)
            if d is None or d.bb in inloop:
                ok = False
            # (a comparison outside every loop runs once per call; values it reads from a finished loop are final)
        if ok:
            out.add(k_)
    fn._cache[key] = out
    return out

def infeasible_edges(fn):
    """CFG edges that cannot be taken: the NULL side of a test of a merged pointer all of whose incoming values were tested
    non-NULL on the way in (`p = alloc(); if (!p) return; ... q = phi(p, p2); if (q != NULL) store(q)`)"""
    key = ('infeasible',)
    if key in fn._cache:
        return fn._cache[key]
    out = set()
    fn._cache[key] = out            # (guards against re-entry through the helpers below)
    try:
        from .nullcheck import nonnull_edges
        idom = dominators(fn)
        for b in fn.order:
            t = b.insts[-1]
            if t.op != 'br' or len(t.targets) != 2 or not t.ops:
                continue
            c = fn.defs.get(t.ops[0])
            if c is None or c.op != 'icmp' or c.pred not in ('eq', 'ne') or 'null' not in c.ops:
                continue
            pv = c.ops[0] if c.ops[1] == 'null' else c.ops[1]
            ph = fn.defs.get(pv)
            if ph is None or ph.op != 'phi' or ph.bb is not b:
                continue
            ok = True
            for v, lab in ph.incoming:
                pred = fn.blocks[lab]
                if v == 'null' or not isinstance(v, str) or not v.startswith('%'):
                    ok = False; break
                if not any((sb is pred and db is b) or db is pred or dominates(idom, db, pred) for (sb, db) in nonnull_edges(fn, {v})):
                    ok = False; break
            if ok:
                null_target = fn.blocks[t.targets[0] if c.pred == 'eq' else t.targets[1]]
                out.add((b, null_target))
    except Exception:
        pass
    return out

def _edge_truth(fn, src, dst, conds):
    t = src.insts[-1]
    if t.op == 'br' and len(t.targets) == 2 and t.ops and t.targets[0] != t.targets[1]:
        k_, flip = cond_key(fn, t.ops[0])
        if k_ in conds:
            return k_, (fn.blocks[t.targets[0]] is dst) != flip
    return None

def feasible_reachable(fn, start, avoid_edges=(), known=(), avoid_blocks=()):
    """blocks reachable from `start` along paths that are consistent in the correlated conditions (see above)"""
    conds = correlated_conditions(fn)
    if not conds:
        return reachable_from(start, avoid_edges=avoid_edges, avoid_blocks=avoid_blocks)
    st0 = (start, frozenset(known))
    seen = {st0}
    dq = deque([st0])
    out = {start}
    while dq:
        b, tr = dq.popleft()
        trd = dict(tr)
        for s in b.succs:
            if (b, s) in avoid_edges or s in avoid_blocks:
                continue
            et = _edge_truth(fn, b, s, conds)
            ntr = tr
            if et is not None:
                if et[0] in trd and trd[et[0]] != et[1]:
                    continue                                  # contradicts an earlier test of the same value
                ntr = frozenset(set(tr) | {et})
            stn = (s, ntr)
            if stn not in seen:
                seen.add(stn); out.add(s); dq.append(stn)
    return out

def known_truths_at(fn, block):
    """truths of correlated conditions established by the branches every path to `block` takes"""
    conds = correlated_conditions(fn)
    if not conds:
        return frozenset()
    idom = dominators(fn)
    out = set()
    b = block
    while True:
        nb = idom.get(b)
        if nb is None or nb is b:
            break
        if len(nb.succs) == 2:
            for dst in nb.succs:
                et = _edge_truth(fn, nb, dst, conds)
                if et is not None and block not in reachable_from(fn.entry, avoid_edges={(nb, dst)}):
                    out.add(et)
        b = nb
    return frozenset(out)

def reaches_without(fn, start, goal_pred, avoid_pred, start_idx=0):
    """is there a (feasible, see correlated_conditions) path from instruction (start block, start_idx) to an instruction
    satisfying goal_pred that does not pass an instruction satisfying avoid_pred?  returns the goal instruction or None"""
    conds = correlated_conditions(fn)
    tr0 = known_truths_at(fn, start) if conds else frozenset()
    seen = set()
    dq = deque([(start, start_idx, tr0)])
    while dq:
        b, i0, tr = dq.popleft()
        blocked = False
        for ins in b.insts[i0:]:
            if avoid_pred(ins):
                blocked = True; break
            if goal_pred(ins):
                return ins
        if blocked:
            continue
        trd = dict(tr)
        for s in b.succs:
            if (b, s) in infeasible_edges(fn):
                continue
            ntr = tr
            et = _edge_truth(fn, b, s, conds) if conds else None
            if et is not None:
                if et[0] in trd and trd[et[0]] != et[1]:
                    continue
                ntr = frozenset(set(tr) | {et})
            if (s, ntr) not in seen:
                seen.add((s, ntr)); dq.append((s, 0, ntr))
    return None

def is_noreturn_block(b):
    return any(i.op == 'call' and i.callee in NORETURN for i in b.insts) or b.insts[-1].op == 'unreachable'

def back_edges(fn):
    idom = dominators(fn)
    out = []
    for b in fn.order:
        for s in b.succs:
            if dominates(idom, s, b):
                out.append((b, s))
    return out

def natural_loops(fn):
    """header -> set of blocks"""
    loops = {}
    for tail, head in back_edges(fn):
        body = {head, tail}
        st = [tail]
        while st:
            x = st.pop()
            if x is head:
                continue
            for p in x.preds:
                if p not in body:
                    body.add(p); st.append(p)
        loops.setdefault(head, set()).update(body)
    return loops

def branch_edges(b):
    """for a conditional br: [(cond_value, True, target_block), (cond_value, False, target_block)]"""
    t = b.insts[-1]
    if t.op == 'br' and len(t.targets) == 2 and t.ops:
        return [(t.ops[0], True, b.fn.blocks[t.targets[0]]), (t.ops[0], False, b.fn.blocks[t.targets[1]])]
    return []
