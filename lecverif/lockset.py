"""E7 lockset: forward must-analysis of held locks, interprocedural via must-hold-at-entry (intersection over all
call sites; public entry points and never-called functions start empty) and per-function net effects."""
import re
from .cfg import rpo
from . import callgraph
from .vflow import strip_int_casts

ACQ = {'@pthread_rwlock_wrlock': 'W', '@pthread_rwlock_rdlock': 'R', '@pthread_mutex_lock': 'W',
       '@pthread_rwlock_trywrlock': 'W', '@pthread_rwlock_tryrdlock': 'R', '@pthread_mutex_trylock': 'W'}
REL = {'@pthread_rwlock_unlock', '@pthread_mutex_unlock'}
TOP = None

def meet(a, b):
    if a is TOP:
        return b
    if b is TOP:
        return a
    return {k: (a[k] if a[k] == b[k] else 'R') for k in a.keys() & b.keys()}

def lock_operand(ins):
    for a in ins.ops:
        m = re.search(r'@[\w.$]+', a or '')
        if m:
            return m.group(0)
    return None

class Lockset:
    def __init__(self, prog, entry_points):
        self.prog = prog
        self.cg = callgraph.get(prog)
        self.entry_points = set(entry_points)
        self.summ = {}       # fn name -> (acquired dict, released set) net effect on success paths
        self.entry = {}      # fn name -> must-hold-at-entry dict or TOP (never reached)
        self.held = {}       # id(ins) -> dict
        self.exit_state = {}
        self._solve()

    def _transfer(self, f, entry_state):
        IN, OUT = {}, {}
        IN[f.entry] = dict(entry_state)
        held = {}
        order = rpo(f)
        changed = True
        edge_drop = {}
        while changed:
            changed = False
            for b in order:
                if b is not f.entry:
                    st = TOP
                    for p in b.preds:
                        if p in OUT:
                            o = OUT[p]
                            d = edge_drop.get((p, b))
                            if d:
                                o = {k: v for k, v in o.items() if k not in d}
                            st = meet(st, o)
                    if st is TOP:
                        continue
                    IN[b] = st
                st = dict(IN[b])
                for ins in b.insts:
                    held[id(ins)] = dict(st)
                    if ins.op == 'call':
                        if ins.callee in ACQ:
                            st[lock_operand(ins)] = ACQ[ins.callee]
                        elif ins.callee in REL:
                            st.pop(lock_operand(ins), None)
                        else:
                            for c in self.cg.callees(f, ins):
                                if c in self.summ:
                                    acq, rel = self.summ[c]
                                    for l in rel:
                                        st.pop(l, None)
                                    st.update(acq)
                # failure edge of an acquire: `rc = lock(); if (rc == 0) ... else <lock not held>`
                t = b.insts[-1]
                if t.op == 'br' and len(t.targets) == 2 and t.ops:
                    c = f.defs.get(t.ops[0])
                    if c is not None and c.op == 'icmp' and c.pred in ('eq', 'ne'):
                        x, y = c.ops
                        v = x if y == '0' else (y if x == '0' else None)
                        if v is not None:
                            d = f.defs.get(strip_int_casts(f, v))
                            if d is not None and d.op == 'call' and d.callee in ACQ:
                                fail_t = t.targets[1] if c.pred == 'eq' else t.targets[0]
                                edge_drop[(b, f.blocks[fail_t])] = {lock_operand(d)}
                if OUT.get(b) != st:
                    OUT[b] = st; changed = True
        ex = TOP
        for b in f.order:
            if b.insts[-1].op == 'ret' and b in OUT:
                ex = meet(ex, OUT[b])
        # may-hold at return (join = union) for the pairing rule: clang merges all returns into one block,
        # so a must-analysis alone would hide a path that returns with the lock held
        MIN, MOUT = {f.entry: set(entry_state)}, {}
        changed = True
        while changed:
            changed = False
            for b in order:
                if b is not f.entry:
                    st = set()
                    got = False
                    for p in b.preds:
                        if p in MOUT:
                            got = True
                            st |= (MOUT[p] - edge_drop.get((p, b), set()))
                    if not got:
                        continue
                    MIN[b] = st
                st = set(MIN[b])
                for ins in b.insts:
                    if ins.op == 'call':
                        if ins.callee in ACQ:
                            st.add(lock_operand(ins))
                        elif ins.callee in REL:
                            st.discard(lock_operand(ins))
                        else:
                            for c in self.cg.callees(f, ins):
                                if c in self.summ:
                                    st |= set(self.summ[c][0])
                if MOUT.get(b) != st:
                    MOUT[b] = st; changed = True
        rets = {}
        for b in f.order:
            if b.insts[-1].op == 'ret' and b in MOUT:
                # attribute to the predecessors that bring a lock in
                rets[b] = {'may': set(MOUT[b]), 'via': {p.label: sorted(MOUT[p] - edge_drop.get((p, b), set())) for p in b.preds if p in MOUT}}
        return held, ex, rets

    def _solve(self):
        fns = self.prog.fns
        # 1. net effects, bottom-up by iteration
        for _ in range(6):
            changed = False
            for n, f in fns.items():
                _, ex, _ = self._transfer(f, {})
                s = (dict(ex) if ex else {}, set())
                if self.summ.get(n) != s:
                    self.summ[n] = s; changed = True
            if not changed:
                break
        # 2. must-hold-at-entry
        called = set()
        for f in fns.values():
            for i in f.insts():
                if i.op == 'call':
                    called.update(self.cg.callees(f, i))
        def init():
            return {n: (dict() if (n in self.entry_points or n not in called) else TOP) for n in fns}
        entry = init()
        for _ in range(12):
            new = init()
            for n, f in fns.items():
                if entry[n] is TOP:
                    continue
                held, _, _ = self._transfer(f, entry[n])
                for i in f.insts():
                    if i.op == 'call':
                        h = held.get(id(i))
                        if h is None:
                            continue
                        for c in self.cg.callees(f, i):
                            if c in fns and c not in self.entry_points:
                                new[c] = meet(new[c], h)
            if new == entry:
                break
            entry = new
        self.entry = entry
        for n, f in fns.items():
            if entry[n] is TOP:
                continue
            held, ex, rets = self._transfer(f, entry[n])
            self.held.update(held)
            self.exit_state[n] = (ex, rets)

    def held_at(self, ins):
        return self.held.get(id(ins))
