"""E9 guard / bound reasoning: branch conditions that dominate a site, normalised to facts over canonical
expressions; a one-symbol difference-bound implication check (no solver)."""
import re
from .cfg import dominators, reachable_from, feasible_reachable
from .vflow import Canon, strip_int_casts
from .ir import INT

NEG = {'eq': 'ne', 'ne': 'eq', 'slt': 'sge', 'sge': 'slt', 'sgt': 'sle', 'sle': 'sgt',
       'ult': 'uge', 'uge': 'ult', 'ugt': 'ule', 'ule': 'ugt'}
SWAP = {'eq': 'eq', 'ne': 'ne', 'slt': 'sgt', 'sgt': 'slt', 'sle': 'sge', 'sge': 'sle',
        'ult': 'ugt', 'ugt': 'ult', 'ule': 'uge', 'uge': 'ule'}

def dominating_edges(fn, block):
    """[(branch block, successor block)] CFG edges that every path entry->block must take"""
    key = ('domedges', block.label)
    if key in fn._cache:
        return fn._cache[key]
    out = []
    entry = fn.entry
    idom = dominators(fn)
    # only edges whose source dominates `block` can dominate it
    b = block
    doms = []
    while True:
        doms.append(b)
        nb = idom.get(b)
        if nb is None or nb is b:
            break
        b = nb
    from .cfg import correlated_conditions
    cands = doms
    if correlated_conditions(fn):
        # with branches tied together by a common condition an edge can be unavoidable although its source does not dominate
        cands = doms + [b_ for b_ in fn.order if b_ not in doms and len(b_.succs) >= 2 and block in reachable_from(b_)]
    for src in cands:
        if len(src.succs) < 2:
            continue
        for dst in src.succs:
            seen = feasible_reachable(fn, entry, avoid_edges={(src, dst)})
            if block not in seen:
                out.append((src, dst))
    fn._cache[key] = out
    return out

def edge_condition(fn, src, dst):
    """-> list of (icmp instruction or ('switch', value, case), truth) describing the edge"""
    t = src.insts[-1]
    if t.op == 'br' and len(t.targets) == 2 and t.ops:
        truth = None
        if fn.blocks[t.targets[0]] is dst and fn.blocks[t.targets[1]] is not dst:
            truth = True
        elif fn.blocks[t.targets[1]] is dst and fn.blocks[t.targets[0]] is not dst:
            truth = False
        if truth is None:
            return []
        return [(t.ops[0], truth)]
    if t.op == 'switch':
        vals = [v for v, l in t.cases if fn.blocks[l] is dst]
        if fn.blocks[t.targets[0]] is dst:
            return [(('switch-default', t.ops[0], tuple(v for v, _ in t.cases)), True)]
        if len(vals) >= 1:
            return [(('switch', t.ops[0], tuple(vals)), True)]
    return []

SWAP_PRED = {'slt': 'sgt', 'sgt': 'slt', 'sle': 'sge', 'sge': 'sle', 'ult': 'ugt', 'ugt': 'ult', 'ule': 'uge', 'uge': 'ule', 'eq': 'eq', 'ne': 'ne'}

_BSWAP_OF_CONST = re.compile(r'^@(__libec_bswap_(?:16|32|64)|llvm\.bswap\.i(?:16|32|64)|__bswap_(?:16|32|64))\((-?\d+)\)$')

def involution_form(pred, a, b):
    """`x == bswap(K)` says the same as `bswap(x) == K` (byte reversal is its own inverse): equalities against the reversal of a
    constant are put into the second form, the one written when the value is reversed before it is compared"""
    if pred in ('eq', 'ne'):
        for x, y in ((a, b), (b, a)):
            m = _BSWAP_OF_CONST.match(y) if isinstance(y, str) else None
            if m and isinstance(x, str) and not INT.match(x):
                return pred, f'@{m.group(1)}({x})', m.group(2)
    return pred, a, b

def implied_atoms(fn, cond, truth, depth=0):
    """comparisons (icmp instruction, truth) that necessarily hold when the i1 value `cond` has value `truth`:
    !x, a && b (true), a || b (false) and their select forms are decomposed"""
    d = fn.defs.get(cond) if isinstance(cond, str) else None
    if d is None or depth > 8:
        return []
    if d.op == 'icmp':
        return [(d, truth)]
    if d.op == 'xor' and 'true' in d.ops:
        return implied_atoms(fn, d.ops[0] if d.ops[1] == 'true' else d.ops[1], not truth, depth + 1)
    if d.op in ('trunc', 'zext') :
        return implied_atoms(fn, d.ops[0], truth, depth + 1)
    parts = []
    if d.op == 'or' and d.ty == 'i1' and not truth:
        parts = [(d.ops[0], False), (d.ops[1], False)]
    elif d.op == 'and' and d.ty == 'i1' and truth:
        parts = [(d.ops[0], True), (d.ops[1], True)]
    elif d.op == 'select' and d.ty == 'i1':
        c, a, b = d.ops
        if a == 'true' and not truth: parts = [(c, False), (b, False)]
        elif b == 'false' and truth: parts = [(c, True), (a, True)]
        elif a == 'false' and truth: parts = [(c, False), (b, True)]
        elif b == 'true' and not truth: parts = [(c, True), (a, False)]
    out = []
    for v, t in parts:
        out += implied_atoms(fn, v, t, depth + 1)
    return out

class Facts:
    """facts that hold at a block: list of (pred, lhs_canon, rhs_canon, width) all TRUE"""
    def __init__(self, prog, fn, block, canon=None, extra_edge=None):
        self.prog, self.fn = prog, fn
        self.C = canon or Canon(prog, fn)
        self.facts = []
        self.raw = []
        for src, dst in dominating_edges(fn, block):
            for cond, truth in edge_condition(fn, src, dst):
                self._add(cond, truth)
        if extra_edge is not None:
            for cond, truth in edge_condition(fn, *extra_edge):
                self._add(cond, truth)

    def _add(self, cond, truth):
        fn, C = self.fn, self.C
        if isinstance(cond, tuple):
            kind, v, vals = cond
            e = self.norm(v)
            if kind == 'switch' and len(vals) == 1:
                self.facts.append(('eq', e, str(vals[0])))
            elif kind == 'switch-default':
                for x in vals:
                    self.facts.append(('ne', e, str(x)))
            # a verdict computed by conditional expressions (`kind = bad ? 0 : (idx < k ? 1 : 2); switch (kind)`): the arm taken
            # says which conditions held
            leaves = self._select_leaves(v)
            if leaves and all(c_ is not None for _, c_ in leaves):
                keep = [cs for cs, c_ in leaves if (c_ in [int(x) for x in vals]) == (kind == 'switch')]
                if keep:
                    common = set(keep[0])
                    for cs in keep[1:]:
                        common &= set(cs)
                    for c2, t2 in common:
                        self._add(c2, t2)
            return
        d = fn.defs.get(cond)
        if d is None:
            return
        if d.op == 'icmp':
            pred = d.pred if truth else NEG[d.pred]
            a, b = self.norm(d.ops[0]), self.norm(d.ops[1])
            # constants (and null) on the right-hand side, whichever way the comparison is written
            if (INT.match(a) or a == 'null') and not (INT.match(b) or b == 'null'):
                a, b, pred = b, a, SWAP_PRED[pred]
            pred, a, b = involution_form(pred, a, b)
            self.facts.append((pred, a, b))
            self.raw.append((d, truth))
            # sign test of a bitwise or: (x | y) >= 0 means neither has its sign bit set
            od = fn.defs.get(strip_int_casts(fn, d.ops[0])) if not INT.match(d.ops[0]) else fn.defs.get(strip_int_casts(fn, d.ops[1]))
            if od is not None and od.op == 'or' and od.ty != 'i1' and ((pred == 'sge' and b == '0') or (pred == 'sgt' and b == '-1')):
                for o in od.ops:
                    self.facts.append(('sge', self.norm(o), '0'))
        elif d.op == 'xor' and 'true' in d.ops:          # !cond
            other = d.ops[0] if d.ops[1] == 'true' else d.ops[1]
            self._add(other, not truth)
        elif d.op == 'or' and d.ty == 'i1':
            if not truth:                                # !(a | b)  =>  !a and !b
                self._add(d.ops[0], False); self._add(d.ops[1], False)
        elif d.op == 'and' and d.ty == 'i1':
            if truth:
                self._add(d.ops[0], True); self._add(d.ops[1], True)
        elif d.op == 'select' and d.optys and d.optys[0] == 'i1' and d.ty == 'i1':
            c, a, b = d.ops
            if a == 'true' and not truth:                # select c, true, b  == c || b
                self._add(c, False); self._add(b, False)
            elif b == 'false' and truth:                 # select c, a, false == c && a
                self._add(c, True); self._add(a, True)
            elif a == 'false' and truth:                 # !c && b
                self._add(c, False); self._add(b, True)
            elif b == 'true' and not truth:              # !c || b  false => c and !b
                self._add(c, True); self._add(b, False)
        elif d.op == 'trunc' or d.op == 'zext':
            self._add(d.ops[0], truth)
        elif d.op == 'call':
            # boolean-valued call used directly as a condition (i1 zeroext)
            self.facts.append(('ne' if truth else 'eq', self.C.val(cond), '0'))
            self.raw.append((d, truth))
        elif d.op == 'phi' and d.ty == 'i1':
            # short-circuit && / || : value is known only on edges where the phi is fully decided; skip (sound: fewer facts)
            return

    def _select_leaves(self, v, conds=(), depth=0):
        """[(conditions that select this leaf, constant or None)] of a value built from conditional expressions"""
        v = strip_int_casts(self.fn, v) if isinstance(v, str) else v
        if isinstance(v, str) and INT.match(v):
            return [(tuple(conds), int(v))]
        d = self.fn.defs.get(v) if isinstance(v, str) else None
        if d is not None and d.op == 'select' and depth < 6:
            return self._select_leaves(d.ops[1], tuple(conds) + ((d.ops[0], True),), depth + 1) + \
                   self._select_leaves(d.ops[2], tuple(conds) + ((d.ops[0], False),), depth + 1)
        return [(tuple(conds), None)] if depth else []

    def norm(self, v):
        """canonical expression with integer casts stripped (value-preserving for the comparisons used here)"""
        return self.C.val(strip_int_casts(self.fn, v))

    # ---- queries: value expression e (canonical string)
    def lower_bound(self, e, signed=True):
        """largest constant c such that facts imply e >= c (signed), or None"""
        best = None
        for pred, a, b in self.facts:
            c = None
            if a == e and INT.match(b):
                k = int(b)
                if pred in ('sge',): c = k
                elif pred in ('sgt',): c = k + 1
                elif pred == 'eq': c = k
                elif pred == 'uge' and k >= 0 and not signed: c = k
                elif pred == 'ugt' and k >= 0 and not signed: c = k + 1
            elif b == e and INT.match(a):
                k = int(a)
                if pred in ('sle',): c = k
                elif pred in ('slt',): c = k + 1
                elif pred == 'eq': c = k
                elif pred == 'ule' and not signed: c = k
                elif pred == 'ult' and not signed: c = k + 1
            if c is not None and (best is None or c > best):
                best = c
        return best

    def upper_bound_const(self, e, signed=True):
        """smallest constant c such that facts imply e <= c"""
        best = None
        for pred, a, b in self.facts:
            c = None
            if a == e and INT.match(b):
                k = int(b)
                if pred in ('sle', 'ule'): c = k
                elif pred in ('slt', 'ult'): c = k - 1
                elif pred == 'eq': c = k
            elif b == e and INT.match(a):
                k = int(a)
                if pred in ('sge', 'uge'): c = k
                elif pred in ('sgt', 'ugt'): c = k - 1
                elif pred == 'eq': c = k
            if c is not None and (best is None or c < best):
                best = c
        return best

    def upper_bound_sym(self, e):
        """list of (expr, strict) such that facts imply e < expr (strict) or e <= expr"""
        out = []
        for pred, a, b in self.facts:
            if a == e:
                if pred in ('slt', 'ult'): out.append((b, True, pred[0]))
                elif pred in ('sle', 'ule'): out.append((b, False, pred[0]))
            elif b == e:
                if pred in ('sgt', 'ugt'): out.append((a, True, pred[0]))
                elif pred in ('sge', 'uge'): out.append((a, False, pred[0]))
        return out

    def nonnull(self, e):
        return any((pred == 'ne' and {a, b} == {e, 'null'}) for pred, a, b in self.facts)

    def is_null(self, e):
        return any((pred == 'eq' and {a, b} == {e, 'null'}) for pred, a, b in self.facts)

    def mentions(self, e):
        return [(p, a, b) for p, a, b in self.facts if e in (a, b)]


def lower_bound_at(prog, fn, v, block, edge=None, depth=0):
    """largest c such that v >= c is implied where `block` is entered (optionally through CFG edge `edge`);
    a phi is bounded through each of its incoming edges"""
    F = Facts(prog, fn, block, extra_edge=edge)
    lo = F.lower_bound(F.norm(v))
    if lo is not None:
        return lo
    if INT.match(v):
        return int(v)
    d = fn.defs.get(strip_int_casts(fn, v))
    if d is not None and d.op == 'phi' and depth < 4:
        los = []
        for val, lab in d.incoming:
            pb = fn.blocks[lab]
            l2 = lower_bound_at(prog, fn, val, pb, (pb, d.bb), depth + 1)
            if l2 is None:
                los = None
                break
            los.append(l2)
        via_phi = min(los) if los else None
    else:
        via_phi = None
    # a join: the bound holds when it holds on every way into the block (the same test duplicated on each arm, a threaded jump)
    via_join = None
    if edge is None and len(block.preds) > 1 and depth < 3 and not (d is not None and d.bb is block):
        los = []
        for pb in block.preds:
            l2 = lower_bound_at(prog, fn, v, pb, (pb, block), depth + 1)
            if l2 is None:
                los = None
                break
            los.append(l2)
        via_join = min(los) if los else None
    both = [x for x in (via_phi, via_join) if x is not None]
    return max(both) if both else None


def upper_bound_at(prog, fn, v, block, edge=None, depth=0, live=None):
    """smallest c such that v <= c is implied where `block` is left through CFG edge `edge` (or entered, without edge);
    a phi is bounded through each of its incoming edges (restricted to predecessor blocks in `live` when given)"""
    if INT.match(v):
        return int(v)
    F = Facts(prog, fn, block, extra_edge=edge)
    hi = F.upper_bound_const(F.norm(v))
    if hi is not None:
        return hi
    d = fn.defs.get(strip_int_casts(fn, v))
    if d is not None and d.op == 'phi' and depth < 4:
        his = []
        for val, lab in d.incoming:
            pb = fn.blocks[lab]
            if live is not None and pb not in live:
                continue
            h2 = upper_bound_at(prog, fn, val, pb, (pb, d.bb), depth + 1, live)
            if h2 is None:
                return None
            his.append(h2)
        return max(his) if his else None
    return None


class PolyFacts:
    """the comparisons that hold at a block as linear facts over poly.py forms: every fact is a polynomial Q with Q >= 0
    (integers, signed reading; an unsigned comparison is used only against a non-negative constant).  `implies(T)` decides
    T >= 0 from one fact or the sum of two, so `i > n - 1`, `!(i < n)`, `i - k >= m` and `i >= k + m` are the same
    statement; `(a | b) >= 0` yields a >= 0 and b >= 0 (sign bit)."""
    def __init__(self, prog, fn, block, pc=None, extra_edge=None, extra=None):
        from .poly import PolyCtx
        self.fn = fn
        self.pc = pc or PolyCtx(prog, fn)
        self.ge = []
        F = Facts(prog, fn, block, canon=self.pc.C, extra_edge=extra_edge)
        for cond, truth in (extra or []):
            F._add(cond, truth)
        for raw, truth in F.raw:
            if raw.op == 'icmp' and not (raw.ty or '').endswith('*'):
                self.add(raw.pred if truth else NEG[raw.pred], raw.ops[0], raw.ops[1])

    def add(self, pred, x, y):
        from .poly import Poly
        fn = self.fn
        # sign test of a bitwise or: (x | y) >= 0  <=>  x >= 0 and y >= 0
        for u, v in ((x, y), (y, x)):
            d = fn.defs.get(strip_int_casts(fn, u))
            if d is not None and d.op == 'or' and d.ty != 'i1' and INT.match(v):
                c = int(v)
                nonneg = (u is x and ((pred == 'sge' and c == 0) or (pred == 'sgt' and c == -1))) or \
                         (u is y and ((pred == 'sle' and c == 0) or (pred == 'slt' and c == -1)))
                if nonneg:
                    for o in d.ops:
                        self.add('sge', o, '0')
                    return
        a, b = self.pc.val(x), self.pc.val(y)
        if pred in ('ult', 'ule', 'ugt', 'uge'):
            # only against a non-negative constant: x <u C  =>  0 <= x < C
            if INT.match(y) and int(y) >= 0 and pred in ('ult', 'ule'):
                self.ge.append(a)
                self.ge.append(b - a - Poly.const(1 if pred == 'ult' else 0))
            elif INT.match(x) and int(x) >= 0 and pred in ('ugt', 'uge'):
                self.ge.append(b)
                self.ge.append(a - b - Poly.const(1 if pred == 'ugt' else 0))
            return
        q = {'slt': [b - a - Poly.const(1)], 'sle': [b - a], 'sgt': [a - b - Poly.const(1)], 'sge': [a - b], 'eq': [a - b, b - a]}.get(pred)
        if q:
            self.ge += q

    def implies(self, T):
        """T >= 0 follows from the facts (one fact, or two added up)"""
        from .poly import Poly
        if T.is_const():
            return T.const_value() >= 0
        for q in self.ge:
            d = T - q
            if d.is_const() and d.const_value() >= 0:
                return True
        for i, q1 in enumerate(self.ge):
            for q2 in self.ge[i + 1:]:
                d = T - q1 - q2
                if d.is_const() and d.const_value() >= 0:
                    return True
        return False

    def lt(self, a, b):
        from .poly import Poly
        return self.implies(b - a - Poly.const(1))

    def ge0(self, a):
        return self.implies(a)
