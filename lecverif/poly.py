"""E4b polynomial value forms.  An integer SSA value is expanded through + - * << and integer casts into a polynomial over
atoms; an atom is the SSA name of a phi (`%x`, so recurrences can be read off) or the canonical expression (vflow.Canon)
of anything else (loads, calls, parameters, divisions ...).  A pointer value is expanded through bitcasts and
scalar-element getelementptrs into (root, byte-offset polynomial).  Two expressions that differ only in how the arithmetic
is written (i + k vs. k + i, (l * k) + j vs. a row pointer plus j, idx - k with idx starting at k) have equal forms, so
rules state relations between values instead of matching expression shapes.  Integer wrap-around is ignored (casts are
transparent): the forms are used for index / offset relations of in-range values only."""
import re
from .ir import INT
from .vflow import Canon

MAXDEG = 3

class Poly(dict):
    """{monomial: coeff}; monomial = sorted tuple of atom strings, () is the constant term"""
    @staticmethod
    def const(c):
        return Poly({(): int(c)}) if int(c) else Poly()
    @staticmethod
    def atom(a):
        return Poly({(a,): 1})
    def norm(self):
        for k in [k for k, v in self.items() if v == 0]:
            del self[k]
        return self
    def __add__(self, o):
        r = Poly(self)
        for k, v in o.items():
            r[k] = r.get(k, 0) + v
        return r.norm()
    def __neg__(self):
        return Poly({k: -v for k, v in self.items()})
    def __sub__(self, o):
        return self + (-o)
    def __mul__(self, o):
        if isinstance(o, int):
            return Poly({k: v * o for k, v in self.items()}).norm()
        r = Poly()
        for k1, v1 in self.items():
            for k2, v2 in o.items():
                k = tuple(sorted(k1 + k2))
                r[k] = r.get(k, 0) + v1 * v2
        return r.norm()
    def degree(self):
        return max((len(k) for k in self), default=0)
    def is_const(self):
        return all(k == () for k in self)
    def const_value(self):
        return self.get((), 0) if self.is_const() else None
    def is_zero(self):
        return not self.norm()
    def atoms(self):
        return {a for k in self for a in k}
    def coeff_of(self, atom):
        """polynomial c such that self = c*atom + rest, with `atom` not occurring in rest or c; None if atom occurs non-linearly"""
        c, rest = Poly(), Poly()
        for k, v in self.items():
            n = k.count(atom)
            if n == 0:
                rest[k] = v
            elif n == 1:
                kk = list(k); kk.remove(atom)
                c[tuple(kk)] = c.get(tuple(kk), 0) + v
            else:
                return None, None
        return c.norm(), rest.norm()
    def subst(self, atom, p):
        r = Poly()
        for k, v in self.items():
            term = Poly({(): v})
            for a in k:
                term = term * (p if a == atom else Poly.atom(a))
            r = r + term
        return r
    def rename(self, fn):
        r = Poly()
        for k, v in self.items():
            kk = tuple(sorted(fn(a) for a in k))
            r[kk] = r.get(kk, 0) + v
        return r.norm()
    def __eq__(self, o):
        return isinstance(o, Poly) and dict(Poly(self).norm()) == dict(Poly(o).norm())
    def __ne__(self, o):
        return not self.__eq__(o)
    __hash__ = None
    def __str__(self):
        if not self.norm():
            return '0'
        parts = []
        for k in sorted(self, key=lambda k: (len(k), k)):
            v = self[k]
            body = '*'.join(k)
            if not k:
                parts.append(str(v))
            elif v == 1:
                parts.append(body)
            elif v == -1:
                parts.append('-' + body)
            else:
                parts.append(f'{v}*{body}')
        return ' + '.join(parts).replace('+ -', '- ')
    __repr__ = __str__

SIZES = {'i8': 1, 'i16': 2, 'i32': 4, 'i64': 8, 'float': 4, 'double': 8, '<2 x i64>': 16, '<4 x i32>': 16, '<16 x i8>': 16,
         '<4 x i64>': 32, '<2 x double>': 16, '<4 x float>': 16}

def sizeof(ty):
    ty = (ty or '').strip()
    if ty.endswith('*'):
        return 8
    return SIZES.get(ty)

class PolyCtx:
    def __init__(self, prog, fn, canon=None, choice=None):
        self.P, self.fn = prog, fn
        self.C = canon or Canon(prog, fn)
        self.choice = choice or {}        # phi name -> the incoming operand to follow (merge phis resolved for one path)
        self._memo = {}

    def val(self, v, depth=0):
        """polynomial form of integer operand v"""
        if INT.match(v):
            return Poly.const(int(v))
        if v in self._memo:
            return self._memo[v]
        d = self.fn.defs.get(v)
        r = None
        if d is not None and depth < 24:
            if d.op in ('sext', 'zext', 'trunc') and d.optys and d.optys[0] != 'i1':
                r = self.val(d.ops[0], depth + 1)
            elif d.op in ('add', 'sub'):
                a, b = self.val(d.ops[0], depth + 1), self.val(d.ops[1], depth + 1)
                r = a + b if d.op == 'add' else a - b
            elif d.op == 'mul':
                a, b = self.val(d.ops[0], depth + 1), self.val(d.ops[1], depth + 1)
                if a.degree() + b.degree() <= MAXDEG:
                    r = a * b
            elif d.op == 'shl' and INT.match(d.ops[1]) and 0 <= int(d.ops[1]) < 62:
                r = self.val(d.ops[0], depth + 1) * (1 << int(d.ops[1]))
            elif d.op in ('sdiv', 'udiv') and INT.match(d.ops[1]) and int(d.ops[1]) > 0:
                r = self.div(self.val(d.ops[0], depth + 1), int(d.ops[1]))
            elif d.op in ('lshr', 'ashr') and INT.match(d.ops[1]) and 0 <= int(d.ops[1]) < 62:
                r = self.div(self.val(d.ops[0], depth + 1), 1 << int(d.ops[1]))
            elif d.op in ('srem', 'urem') and INT.match(d.ops[1]) and int(d.ops[1]) > 0:
                x = self.val(d.ops[0], depth + 1)
                r = x - self.div(x, int(d.ops[1])) * int(d.ops[1])
            elif d.op == 'and' and any(INT.match(o) and int(o) > 0 and (int(o) + 1) & int(o) == 0 for o in d.ops):
                # x & (2^k - 1) == x mod 2^k
                mk = [o for o in d.ops if INT.match(o) and int(o) > 0 and (int(o) + 1) & int(o) == 0][0]
                xo = [o for o in d.ops if o is not mk][0] if d.ops[0] != d.ops[1] else mk
                x = self.val(xo, depth + 1)
                r = x - self.div(x, int(mk) + 1) * (int(mk) + 1)
            elif d.op == 'and' and any(INT.match(o) and int(o) < -1 and (-int(o)) & (-int(o) - 1) == 0 for o in d.ops):
                # x & ~(2^k - 1) == 2^k * (x / 2^k): the low bits cleared
                mk = [o for o in d.ops if INT.match(o) and int(o) < -1 and (-int(o)) & (-int(o) - 1) == 0][0]
                xo = [o for o in d.ops if o is not mk][0]
                r = self.div(self.val(xo, depth + 1), -int(mk)) * (-int(mk))
            elif d.op == 'select' and d.res in self.choice:
                r = self.val(self.choice[d.res], depth + 1)
            elif d.op == 'select' and d.ty != 'i1':
                r = Poly.atom(d.res)
            elif d.op == 'phi' and d.res in self.choice:
                r = self.val(self.choice[d.res], depth + 1)
            elif d.op == 'phi':
                r = Poly.atom(d.res)
            elif d.op == 'ptrtoint':
                root, off = self.ptr(d.ops[0], depth + 1)
                r = Poly.atom('&' + root) + off
        if r is None:
            r = Poly.atom(self.C.val(v))
        self._memo[v] = r
        return r

    @staticmethod
    def div(x, c):
        """x / c for a positive constant c, rounding toward zero; exact when every coefficient is a multiple of c.  Values are
        taken to be non-negative (sizes, offsets): srem/urem/and-mask are rewritten as x - c*div(x, c) so that
        c*(x/c) + x%c == x holds by construction"""
        if c == 1:
            return x
        if x.is_const():
            v = x.const_value()
            return Poly.const(abs(v) // c * (1 if v >= 0 else -1))
        if all(v % c == 0 for v in x.values()):
            return Poly({k: v // c for k, v in x.items()})
        return Poly.atom(f'div({x},{c})')

    def ptr(self, v, depth=0):
        """(root, byte offset polynomial) of pointer operand v; root is a phi's SSA name or a canonical expression"""
        d = self.fn.defs.get(v)
        if d is not None and depth < 24:
            if d.op == 'bitcast':
                return self.ptr(d.ops[0], depth + 1)
            if d.op == 'getelementptr' and len(d.ops) == 2:
                sz = sizeof(d.gep_base_ty)
                if sz is not None:
                    root, off = self.ptr(d.ops[0], depth + 1)
                    return root, off + self.val(d.ops[1], depth + 1) * sz
            if d.op == 'call' and (d.callee or '').startswith('@') and depth < 8:
                # a pointer accessor (`get_matrix_row(m, r, cols)` is `&m[r * cols]`): a one-block function that returns one of
                # its pointer arguments plus an offset computed from its integer arguments
                g = self.P.fns.get(d.callee) if hasattr(self.P, 'fns') else None
                if g is not None and len(g.order) == 1 and g.retty.strip().endswith('*'):
                    rets = [i for i in g.insts() if i.op == 'ret' and i.ops]
                    if len(rets) == 1:
                        summ = g.__dict__.get('_ptr_summary')
                        if summ is None:
                            gr, go = PolyCtx(self.P, g).ptr(rets[0].ops[0])
                            summ = (gr, go) if re.match(r'^arg\d+$', gr) and all(re.match(r'^arg\d+$', a) for a in go.atoms()) else False
                            g._ptr_summary = summ
                        if summ:
                            gr, go = summ
                            base_r, base_o = self.ptr(d.ops[int(gr[3:])], depth + 1)
                            off = go
                            for a in sorted(go.atoms()):
                                off = off.subst(a, self.val(d.ops[int(a[3:])], depth + 1))
                            return base_r, base_o + off
            if d.op in ('phi', 'select') and d.res in self.choice:
                return self.ptr(self.choice[d.res], depth + 1)
            if d.op == 'phi':
                # a pointer phi whose incoming values all point into one object is (that object's root, offset atom %phi):
                # walking pointers become ordinary induction variables measured in bytes from the root
                R = self.phi_root(d)
                if R is not None:
                    return R, Poly.atom(d.res) * self.phi_scale(d)      # the atom counts elements of the phi's pointee type
                return d.res, Poly()
        return self.C.val(v), Poly()

    @staticmethod
    def phi_scale(phi):
        return sizeof(phi.ty[:-1]) or 1

    def phi_root(self, phi):
        """the one object all values merged by `phi` point into (through other merges and pointer arithmetic), or None"""
        pr = self.__dict__.setdefault('_proot', {})
        if phi.res in pr:
            return pr[phi.res]
        roots, seen, stack = set(), set(), [phi.res]
        while stack:
            x = stack.pop()
            if x in seen:
                continue
            seen.add(x)
            d = self.fn.defs.get(x)
            if d is None or d.op not in ('phi', 'select'):
                continue
            for v in ([v for v, _ in d.incoming] if d.op == 'phi' else d.ops[1:]):
                if v in ('null', 'undef'):
                    roots.add(None); continue
                base, n_ = v, 0
                bd = self.fn.defs.get(base)
                while bd is not None and bd.op in ('bitcast', 'getelementptr') and n_ < 16:
                    base = bd.ops[0]; bd = self.fn.defs.get(base); n_ += 1
                if bd is not None and bd.op in ('phi', 'select'):
                    stack.append(base)
                else:
                    roots.add(self.C.val(base))
        R = next(iter(roots)) if len(roots) == 1 and None not in roots else None
        if R is not None and R.startswith('%'):
            R = None
        pr[phi.res] = R
        return R

    def show(self, p):
        return str(p)
