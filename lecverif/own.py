"""E8 ownership typestate: per allocation site, forward dataflow of {Owned, Null, Escaped, Freed} with null-edge refinement.
Summaries (returns-owned, frees(param), escapes(param)) are computed over the slot-resolved call graph."""
import re
from .cfg import rpo, reachable_from
from . import callgraph, effects
from .vflow import strip_ptr_casts, access_path, fields_in_path
from .ir import INT

BASE_ALLOC = {'@malloc', '@calloc', '@strdup', '@realloc'}
NOCAPTURE = {'@memcpy', '@memset', '@llvm.memcpy.p0i8.p0i8.i64', '@llvm.memset.p0i8.i64', '@crc32', '@syslog', '@printf', '@fprintf',
             '@strlen', '@getenv', '@memcmp', '@liberasurecode_crc32_alt', '@dlsym', '@dlerror', '@__assert_fail', '@bzero',
             '@pthread_rwlock_wrlock', '@pthread_rwlock_rdlock', '@pthread_rwlock_unlock', '@pthread_mutex_lock', '@pthread_mutex_unlock',
             'ext:ec_encode_data', 'ext:ec_init_tables', 'ext:gf_invert_matrix', 'ext:gf_mul', 'ext:gf_gen_rs_matrix', 'ext:gf_gen_cauchy1_matrix'}

def aliases(fn, roots):
    A, slots = set(roots), set()
    changed = True
    while changed:
        changed = False
        for ins in fn.insts():
            if ins.op in ('bitcast', 'getelementptr') and ins.res not in A and ins.ops[0] in A:
                # a GEP with a non-zero constant offset still points into the same object (fragment payload pointers)
                A.add(ins.res); changed = True
            elif ins.op == 'phi' and ins.res not in A and any(v in A for v, _ in ins.incoming):
                A.add(ins.res); changed = True
            elif ins.op == 'select' and ins.res not in A and any(a in A for a in ins.ops[1:]):
                A.add(ins.res); changed = True
            elif ins.op == 'store' and ins.ops[0] in A:
                dst = fn.defs.get(strip_ptr_casts(fn, ins.ops[1]))
                if dst is not None and dst.op == 'alloca' and dst.res not in slots:
                    slots.add(dst.res); changed = True
            elif ins.op == 'load' and ins.res not in A and strip_ptr_casts(fn, ins.ops[0]) in slots:
                A.add(ins.res); changed = True
    return A, slots

class Ownership:
    def __init__(self, prog):
        self.prog = prog
        self.cg = callgraph.get(prog)
        self.fns = prog.fns
        self.returns_owned = set(BASE_ALLOC)
        self.frees = {'@free': {0}}
        self.escapes = {}
        self._summaries()

    def callees(self, fn, ins):
        return self.cg.callees(fn, ins)

    def alloc_roots(self, fn):
        roots = []
        for i in fn.insts():
            if i.op == 'call':
                if i.res and any(c in self.returns_owned for c in self.callees(fn, i)):
                    roots.append((i, 'ret', None))
                if i.callee == '@posix_memalign':
                    slot = strip_ptr_casts(fn, i.ops[0])
                    roots.append((i, 'slot', slot))
        return roots

    def _summaries(self):
        for _ in range(8):
            changed = False
            for n, fn in self.fns.items():
                if n not in self.returns_owned and fn.retty.strip().endswith('*'):
                    vals = []
                    for site, kind, slot in self.alloc_roots(fn):
                        if kind == 'ret':
                            vals.append(site.res)
                        else:
                            vals += [j.res for j in fn.insts() if j.op == 'load' and strip_ptr_casts(fn, j.ops[0]) == slot]
                    if vals:
                        A, _ = aliases(fn, vals)
                        if any(i.op == 'ret' and i.ops and i.ops[0] in A for i in fn.insts()):
                            self.returns_owned.add(n); changed = True
                for pi, (pty, pn) in enumerate(fn.params):
                    if not pty.endswith('*'):
                        continue
                    A, slots = aliases(fn, [pn])
                    for i in fn.insts():
                        if i.op == 'call':
                            for ai, a in enumerate(i.ops):
                                if a in A:
                                    for c in self.callees(fn, i):
                                        if ai in self.frees.get(c, ()) and pi not in self.frees.get(n, set()):
                                            self.frees.setdefault(n, set()).add(pi); changed = True
                                        if ai in self.escapes.get(c, ()) and pi not in self.escapes.get(n, set()):
                                            self.escapes.setdefault(n, set()).add(pi); changed = True
                        elif i.op == 'store' and i.ops[0] in A and strip_ptr_casts(fn, i.ops[1]) not in slots:
                            if pi not in self.escapes.get(n, set()):
                                self.escapes.setdefault(n, set()).add(pi); changed = True
                        elif i.op == 'ret' and i.ops and i.ops[0] in A:
                            if pi not in self.escapes.get(n, set()):
                                self.escapes.setdefault(n, set()).add(pi); changed = True
            if not changed:
                break

    # ---- per-site analysis
    def _library_entry(self, fn, callee):
        """an indirect call through a member of a back end's descriptor (`xdesc->ssencode(...)`, `desc->ec_encode_data(...)`): an
        entry point of the external coding library bound with dlsym.  These compute on the buffers they are handed; they neither
        free nor keep the caller's pointer tables"""
        from .vflow import access_path, fields_in_path
        d = fn.defs.get(callee)
        if d is None or d.op != 'load':
            return False
        fl = fields_in_path(access_path(self.prog, fn, d.ops[0])[1])
        return bool(fl) and fl[-1][0].endswith('_descriptor')

    def analyse_site(self, fn, site, kind, slot):
        """-> list of reports (kind, site, at_ins, detail)"""
        if kind == 'slot':
            roots = [i.res for i in fn.insts() if i.op == 'load' and strip_ptr_casts(fn, i.ops[0]) == slot]
            A, slots = aliases(fn, roots)
            slots.add(slot)
        else:
            A, slots = aliases(fn, [site.res])

        outparams = {pn for pty, pn in fn.params if pty.endswith('**')} if fn.retty.strip() == 'i32' else set()
        # a conditional expression `c ? NULL : obj` hands the object on only for one outcome of c (unless c tests obj itself)
        partial = set()
        for ins in fn.insts():
            if ins.op == 'select' and ins.res in A and 'null' in ins.ops[1:]:
                c = fn.defs.get(ins.ops[0])
                selftest = c is not None and c.op == 'icmp' and 'null' in c.ops and any(o in A for o in c.ops)
                if not selftest:
                    partial.add(ins.res)
        changed = True
        while changed:
            changed = False
            for ins in fn.insts():
                if ins.op in ('phi', 'bitcast') and ins.res not in partial:
                    ops = [v for v, _ in ins.incoming] if ins.op == 'phi' else ins.ops
                    if any(o in partial for o in ops) and not any(o in A and o not in partial for o in ops):
                        partial.add(ins.res); changed = True

        def dead_alias(a, facts):
            """operand a is (derived from) a merge that, on this path, received something else than this object"""
            if not facts:
                return False
            x, n_ = a, 0
            while n_ < 8:
                if ('~' + x, True) in facts:
                    return True
                d_ = fn.defs.get(x)
                if d_ is None or d_.op not in ('bitcast', 'getelementptr'):
                    return False
                x = d_.ops[0]; n_ += 1
            return False

        def edge_facts(b_, nb_, facts):
            """merges of nb_ that belong to the alias set but take another value (NULL, another object) along b_ -> nb_ do not
            denote this object on the paths through that edge"""
            add, drop = set(), set()
            for ph in nb_.insts:
                if ph.op != 'phi':
                    break
                if ph.res in A:
                    inc = [v for v, l in ph.incoming if l == b_.label]
                    if inc and inc[0] not in A and not dead_alias(inc[0], facts):
                        add.add(('~' + ph.res, True))
                    elif inc and dead_alias(inc[0], facts):
                        add.add(('~' + ph.res, True))
                    else:
                        drop.add(('~' + ph.res, True))
            if not add and not drop:
                return facts
            return frozenset((set(facts) - drop) | add)

        def event(ins, facts=frozenset()):
            if ins.op == 'ret':
                if ins.ops and ins.ops[0] in A and dead_alias(ins.ops[0], facts):
                    return None
                if ins.ops and ins.ops[0] in partial:
                    return 'ESC?', 'returned by a conditional expression whose other value is NULL'
                if ins.ops and ins.ops[0] in A:
                    return 'ESC', 'returned'
            if ins.op == 'store' and ins.ops[0] in A and not dead_alias(ins.ops[0], facts):
                if strip_ptr_casts(fn, ins.ops[1]) in slots:
                    return None
                if strip_ptr_casts(fn, ins.ops[1]) in outparams:
                    return 'OUT', 'stored to an output parameter'
                return 'ESC', 'stored to memory'
            if ins.op == 'call' and ins is not site:
                cs = self.callees(fn, ins)
                for ai, a in enumerate(ins.ops):
                    if a in A and not dead_alias(a, facts):
                        for c in cs or [ins.callee]:
                            if ai in self.frees.get(c, ()):
                                return 'FREE', c
                        for c in cs or [ins.callee]:
                            if c in NOCAPTURE or ((c.startswith('%') or c.startswith('ext:')) and (ins.callee or '').startswith('%') and self._library_entry(fn, ins.callee)):
                                continue
                            if c in self.fns:
                                if ai in self.escapes.get(c, ()):
                                    return 'ESC', 'captured by ' + c
                            else:
                                return 'ESC', 'passed to external ' + c
            return None

        # pointers other than this object that are null-tested more than once: their outcome is carried along the path, so that
        # `if (!p) free(q); ... if (p) use(q)` style correlations do not produce infeasible combinations
        tests = {}
        for bb in fn.order:
            tt = bb.insts[-1]
            if tt.op == 'br' and len(tt.targets) == 2 and tt.ops:
                cc = fn.defs.get(tt.ops[0])
                if cc is not None and cc.op == 'icmp' and cc.pred in ('eq', 'ne') and 'null' in cc.ops:
                    oth = strip_ptr_casts(fn, cc.ops[0] if cc.ops[1] == 'null' else cc.ops[1])
                    if oth not in A:
                        tests.setdefault(oth, []).append(bb)
        correlated = {x for x, bs in tests.items() if len(bs) >= 2}
        reports = []
        seen = {}
        work = [(site.bb, site.idx + 1, frozenset({'O'}), frozenset())]
        while work:
            b, idx, st, facts = work.pop()
            cur = set(st)
            for ins in b.insts[idx:]:
                ev = event(ins, facts)
                if ev:
                    if ev[0] == 'FREE':
                        if 'F' in cur:
                            # some path reaches this free with the object already freed (null tests refine F away only
                            # when the pointer was reset, which the alias set does not model: callers reset after free
                            # appear as a new definition, not as this object)
                            reports.append(('double-free', site, ins, ev[1]))
                        cur = {('F' if s == 'O' else s) for s in cur}
                    elif ev[0] == 'ESC':
                        if cur == {'F'}:
                            reports.append(('use-after-free', site, ins, ev[1]))
                        cur = {('E' if s == 'O' else s) for s in cur}
                    elif ev[0] == 'OUT':
                        cur = {('P' if s == 'O' else s) for s in cur}      # handed to the caller through *out
                    elif ev[0] == 'ESC?':
                        cur = cur | ({'E'} if 'O' in cur else set())       # owned on the NULL outcome: the leak test below still sees O
                if ins.op == 'ret' and 'O' in cur:
                    reports.append(('leak', site, ins, ''))
                if ins is site:
                    cur = {'O'}
            t = b.insts[-1]
            if t.op == 'br' and len(t.targets) == 2 and t.ops:
                c = fn.defs.get(t.ops[0])
                nullinfo = None
                if c is not None and c.op == 'icmp' and c.pred in ('eq', 'ne') and 'null' in c.ops:
                    other = c.ops[0] if c.ops[1] == 'null' else c.ops[1]
                    if other in A:
                        nullinfo = c.pred
                elif c is not None and c.op == 'icmp' and c.pred in ('eq', 'ne') and kind == 'slot' and site.res in c.ops and '0' in c.ops:
                    # posix_memalign(&p, ..) != 0  <=>  nothing was allocated
                    nullinfo = 'ne' if c.pred == 'eq' else 'eq'
                corr = None
                if c is not None and c.op == 'icmp' and c.pred in ('eq', 'ne') and 'null' in c.ops:
                    oth = strip_ptr_casts(fn, c.ops[0] if c.ops[1] == 'null' else c.ops[1])
                    if oth in correlated:
                        corr = (oth, c.pred)
                for k2, lab in enumerate(t.targets):
                    nst = set(cur)
                    nfacts = facts
                    if corr:
                        edge_null = (corr[1] == 'eq' and k2 == 0) or (corr[1] == 'ne' and k2 == 1)
                        known = dict(facts).get(corr[0])
                        if known is not None and known != edge_null:
                            continue                                   # this outcome contradicts an earlier test on the same path
                        nfacts = frozenset(set(facts) | {(corr[0], edge_null)})
                    if nullinfo:
                        is_null_edge = (nullinfo == 'eq' and k2 == 0) or (nullinfo == 'ne' and k2 == 1)
                        if is_null_edge:
                            nst = {('N' if s == 'O' else s) for s in nst}
                    self._push(work, seen, fn.blocks[lab], frozenset(nst), edge_facts(b, fn.blocks[lab], nfacts))
            else:
                for lab in (t.targets or []):
                    nb = fn.blocks[lab]
                    nst = set(cur)
                    rt = nb.insts[-1]
                    if rt.op == 'ret' and rt.ops and 'P' in nst:
                        rp = fn.defs.get(rt.ops[0])
                        inc = [v for v, l in rp.incoming if l == b.label] if rp is not None and rp.op == 'phi' and rp.bb is nb else []
                        if inc and re.match(r'^-\d+$', inc[0]) and not any(i.op == 'call' for i in nb.insts):
                            reports.append(('error-with-output', site, b.insts[-1], inc[0]))
                    if rt.op == 'ret' and rt.ops and 'O' in nst:
                        rp = fn.defs.get(rt.ops[0])
                        if rp is not None and rp.op == 'phi' and rp.bb is nb and rp.res in A and all(i.op == 'phi' for i in nb.insts[:-1]):
                            inc = [v for v, l in rp.incoming if l == b.label]
                            if inc and inc[0] not in A:
                                # this edge returns something else (NULL, an error value) while the object is still owned
                                reports.append(('leak', site, b.insts[-1], ''))
                                nst = {x for x in nst if x != 'O'} | {'E'}
                    self._push(work, seen, nb, frozenset(nst), edge_facts(b, nb, facts))
        # leaks found at the merged return block are attributed to the edges that bring the owned state in
        return reports

    @staticmethod
    def _push(work, seen, b, st, facts=frozenset()):
        old = seen.get((b, facts), frozenset())
        new = old | st
        if new != old:
            seen[(b, facts)] = new
            work.append((b, 0, new, facts))

def get(prog):
    o = prog.__dict__.get('_own')
    if o is None:
        o = Ownership(prog)
        prog._own = o
    return o
