"""public entry points = prototypes declared in include/erasurecode/erasurecode.h (type-checked AST, not text)"""
import json, os, subprocess
from . import build
from .build import AnalysisBroken

_cache = {}
def public_api(root):
    if root in _cache:
        return _cache[root]
    cmds = [c for c in build.unit_commands(root) if os.path.dirname(c['unit']) == 'src']
    c = cmds[0]
    d = build.scratch_dir()
    p = os.path.join(d, 'hdr.c')
    open(p, 'w').write('#include "erasurecode.h"\n')
    r = subprocess.run(['clang-14', *build.analysis_flags(c['flags']), '-w', '-fsyntax-only', '-Xclang', '-ast-dump=json', p],
                       capture_output=True, text=True, cwd=c['dir'])
    if r.returncode != 0:
        raise AnalysisBroken('cannot parse erasurecode.h: ' + r.stderr[-800:])
    tree = json.loads(r.stdout)
    cur = None
    out = []
    for n in tree['inner']:
        loc = n.get('loc', {})
        f = loc.get('file') or loc.get('expansionLoc', {}).get('file') or loc.get('spellingLoc', {}).get('file')
        if f:
            cur = f
        if n['kind'] == 'FunctionDecl' and cur and cur.endswith('erasurecode/erasurecode.h'):
            params = [(q.get('name', ''), q['type']['qualType']) for q in n.get('inner', []) if q['kind'] == 'ParmVarDecl']
            out.append({'name': n['name'], 'type': n['type']['qualType'], 'params': params})
    if len(out) < 10:
        raise AnalysisBroken(f'only {len(out)} prototypes found in erasurecode.h')
    _cache[root] = out
    return out
