"""E4 value flow: canonical symbolic expressions for SSA values, pointer provenance, field paths by name."""
import re
from .ir import INT, const_gep, const_bitcast_target
from .build import AnalysisBroken

def cname_of(ty):
    """'%struct.fragment_header_s*' -> 'fragment_header_s'"""
    m = re.match(r'%(?:struct|union)\.([\w.]+?)(?:\.\d+)?\**$', ty.strip())
    return m.group(1) if m else None

def field_names(prog, ty):
    c = cname_of(ty)
    if not c:
        return None
    key = ('fields', c)
    cache = prog.__dict__.setdefault('_fcache', {})
    if key not in cache:
        f = prog.struct_fields(c)
        cache[key] = [x[0] for x in f] if f else None
    return cache[key]

def gep_path(prog, ins):
    """GEP instruction -> list of path steps: ('field', struct cname, field name) | ('index', value) ; first index
    (pointer arithmetic) is ('ptradd', value) unless it is constant 0"""
    steps = []
    ty = ins.gep_base_ty
    idx = ins.ops[1:]
    if idx and idx[0] != '0':
        steps.append(('ptradd', idx[0]))
    cur = ty
    for i in idx[1:]:
        c = cname_of(cur)
        if c is not None:
            names = field_names(prog, cur)
            n = int(i)
            fname = names[n] if names and n < len(names) else f'#{n}'
            steps.append(('field', c, fname))
            cur = _member_type(prog, ins.fn.mod, cur, n)
        else:
            steps.append(('index', i))
            m = re.match(r'\[\d+ x (.*)\]$', cur.strip())
            cur = m.group(1) if m else '?'
    return steps

def _member_type(prog, mod, ty, n):
    body = None
    for m in [mod] + prog.mods:
        body = m.types.get(ty.strip().rstrip('*'))
        if body:
            break
    if not body:
        return '?'
    from .ir import split_top
    inner = body.strip()
    inner = inner[inner.index('{') + 1: inner.rindex('}')]
    parts = split_top(inner)
    return parts[n] if n < len(parts) else '?'

def const_gep_steps(prog, mod, cg):
    """constant GEP (basety, '@g', [idx...]) -> path steps with field names"""
    ty, base, idx = cg
    steps = []
    cur = ty
    for i in idx[1:]:
        c = cname_of(cur)
        if c is not None and isinstance(i, int):
            names = field_names(prog, cur)
            fname = names[i] if names and i < len(names) else f'#{i}'
            steps.append(('field', c, fname))
            cur = _member_type(prog, mod, cur, i)
        else:
            steps.append(('index', str(i)))
            m = re.match(r'\[\d+ x (.*)\]$', cur.strip())
            cur = m.group(1) if m else '?'
    return steps

def const_gep_suffix(prog, mod, cg):
    s = ''
    if cg[2] and cg[2][0] != 0:
        s += f'+{cg[2][0]}'
    for st in const_gep_steps(prog, mod, cg):
        s += ('.' + st[2]) if st[0] == 'field' else f'[{st[1]}]'
    return s

class Canon:
    """canonical expression strings; env maps phi results to chosen incoming expressions (for path walks)"""
    def __init__(self, prog, fn):
        self.prog, self.fn = prog, fn

    def addr(self, v, env=None):
        env = env or {}
        d = self.fn.defs.get(v)
        if d is None:
            if isinstance(v, str) and v.startswith('getelementptr'):
                cg = const_gep(v)
                if cg:
                    return cg[1] + const_gep_suffix(self.prog, self.fn.mod, cg)
            return self.val(v, env)
        if d.op == 'getelementptr':
            base = self.addr(d.ops[0], env)
            s = base
            for st in gep_path(self.prog, d):
                if st[0] == 'field':
                    s += '.' + st[2]
                elif st[0] == 'index':
                    s += f'[{self.val(st[1], env)}]'
                else:
                    s = f'({s} ptradd {self.val(st[1], env)})'
            return s
        if d.op == 'bitcast':
            return self.addr(d.ops[0], env)
        return self.val(v, env)

    def val(self, v, env=None, depth=0):
        env = env or {}
        if v is None:
            return 'void'
        v = v.strip()
        if INT.match(v) or v in ('null', 'true', 'false', 'undef'):
            return v
        if v in env:
            return env[v]
        if depth > 40:
            return '…'
        d = self.fn.defs.get(v)
        if d is None:
            pi = self.fn.param_index(v)
            if pi is not None:
                return f'arg{pi}'
            if v.startswith('bitcast'):
                t = const_bitcast_target(v)
                return t or v
            if v.startswith('getelementptr'):
                cg = const_gep(v)
                if cg and cg[1].startswith('@.str'):
                    t = self.fn.mod.globals.get(cg[1], '')
                    if 'c"' in t:
                        lit = t[t.index('c"') + 2:]
                        lit = lit[:lit.index('"')]
                        return '"' + re.sub(r'\\00$', '', lit) + '"'
                    if re.search(r'\[1 x i8\] zeroinitializer', t):
                        return '""'                    # the empty string literal
                if cg:
                    return '&' + cg[1] + const_gep_suffix(self.prog, self.fn.mod, cg)
            return v
        op = d.op
        if op == 'load':
            return '*' + self.addr(d.ops[0], env)
        if op in ('zext', 'sext', 'trunc'):
            inner = self.val(d.ops[0], env, depth + 1)
            if INT.match(inner) and d.ty and d.ty[1:].isdigit() and d.optys and d.optys[0][1:].isdigit():
                return str(_fold_cast(op, int(inner), int(d.optys[0][1:]), int(d.ty[1:])))
            return f'{op}.{d.ty}({inner})'
        if op in ('bitcast', 'ptrtoint', 'inttoptr'):
            return self.val(d.ops[0], env, depth + 1)
        if op in ('add', 'sub', 'mul', 'and', 'or', 'xor', 'shl', 'lshr', 'ashr', 'sdiv', 'udiv', 'srem', 'urem'):
            a, b = self.val(d.ops[0], env, depth + 1), self.val(d.ops[1], env, depth + 1)
            if INT.match(a) and INT.match(b) and d.ty and d.ty[1:].isdigit():
                fv = _fold_bin(op, int(a), int(b), int(d.ty[1:]))
                if fv is not None:
                    return str(fv)
            if op in ('add', 'mul', 'and', 'or', 'xor') and b < a:
                a, b = b, a
            return f'({a} {op} {b})'
        if op == 'call':
            cal = d.callee
            if cal.startswith('%'):
                cal = '(' + self.val(cal, env, depth + 1) + ')'
            return f'{cal}({",".join(self.val(a, env, depth + 1) for a in d.ops)})'
        if op == 'getelementptr':
            return '&' + self.addr(v, env)
        if op == 'icmp':
            return f'({self.val(d.ops[0], env, depth + 1)} {d.pred} {self.val(d.ops[1], env, depth + 1)})'
        if op == 'select':
            return f'select({self.val(d.ops[0], env, depth + 1)},{self.val(d.ops[1], env, depth + 1)},{self.val(d.ops[2], env, depth + 1)})'
        if op == 'phi':
            return f'phi{v}'
        if op == 'alloca':
            return f'local{v}'
        return f'{op}?{v}'

def _wrap(v, w, signed=True):
    v &= (1 << w) - 1
    if signed and v >> (w - 1):
        v -= 1 << w
    return v

def _fold_cast(op, a, w0, w1):
    if op == 'zext':
        return _wrap(a & ((1 << w0) - 1), w1)
    return _wrap(a, w1)

def _fold_bin(op, a, b, w):
    ua, ub = a & ((1 << w) - 1), b & ((1 << w) - 1)
    if op in ('sdiv', 'srem', 'udiv', 'urem') and b == 0:
        return None
    if op in ('shl', 'lshr', 'ashr') and not (0 <= b < w):
        return None
    r = {'add': lambda: a + b, 'sub': lambda: a - b, 'mul': lambda: a * b, 'and': lambda: a & b, 'or': lambda: a | b, 'xor': lambda: a ^ b,
         'shl': lambda: a << b, 'lshr': lambda: ua >> b, 'ashr': lambda: a >> b,
         'sdiv': lambda: abs(a) // abs(b) * (1 if (a >= 0) == (b >= 0) else -1), 'srem': lambda: (abs(a) % abs(b)) * (1 if a >= 0 else -1),
         'udiv': lambda: ua // ub, 'urem': lambda: ua % ub}[op]()
    return _wrap(r, w)

def strip_int_casts(fn, v):
    while True:
        d = fn.defs.get(v)
        if d is not None and d.op in ('sext', 'zext', 'trunc'):
            v = d.ops[0]
        else:
            return v

def strip_ptr_casts(fn, v):
    while True:
        d = fn.defs.get(v)
        if d is not None and d.op == 'bitcast':
            v = d.ops[0]
        else:
            return v

def derived_pointers(fn, roots, through_phi=True, through_alloca=True):
    """SSA values that are addresses computed from (or equal to) any root: gep / bitcast / phi / select,
    and loads from address-taken locals that received such a value"""
    A = set(roots)
    slots = set()
    changed = True
    while changed:
        changed = False
        for ins in fn.insts():
            if not ins.res or ins.res in A:
                if ins.op == 'store' and through_alloca and ins.ops[0] in A:
                    dst = fn.defs.get(strip_ptr_casts(fn, ins.ops[1]))
                    if dst is not None and dst.op == 'alloca' and dst.res not in slots:
                        slots.add(dst.res); changed = True
                continue
            if ins.op in ('bitcast', 'getelementptr') and ins.ops[0] in A:
                A.add(ins.res); changed = True
            elif ins.op == 'phi' and through_phi and any(v in A for v, _ in ins.incoming):
                A.add(ins.res); changed = True
            elif ins.op == 'select' and any(a in A for a in ins.ops[1:]):
                A.add(ins.res); changed = True
            elif ins.op == 'load' and strip_ptr_casts(fn, ins.ops[0]) in slots:
                A.add(ins.res); changed = True
    return A, slots

def access_path(prog, fn, ptr):
    """follow gep/bitcast chain backwards: -> (root value, [steps outermost-first])"""
    steps = []
    v = ptr
    while True:
        d = fn.defs.get(v)
        if d is None:
            if isinstance(v, str) and v.startswith('getelementptr'):
                cg = const_gep(v)
                if cg:
                    return cg[1], const_gep_steps(prog, fn.mod, cg) + steps
            if isinstance(v, str) and v.startswith('bitcast'):
                t = const_bitcast_target(v)
                if t:
                    v = t
                    continue
            return v, steps
        if d.op == 'getelementptr':
            steps = gep_path(prog, d) + steps
            v = d.ops[0]
        elif d.op == 'bitcast':
            steps = [('cast', d.optys[0], d.ty)] + steps
            v = d.ops[0]
        else:
            return v, steps

def fields_in_path(steps):
    return [(s[1], s[2]) for s in steps if s[0] == 'field']

def const_int(fn, v):
    v = strip_int_casts(fn, v) if isinstance(v, str) else v
    if isinstance(v, str) and INT.match(v):
        return int(v)
    return None

def ret_values(fn):
    return [(i, i.ops[0] if i.ops else None) for i in fn.insts() if i.op == 'ret']

def truth_of(fn, c, truth, depth=0):
    """truth value of i1 operand c given `truth` (i1 SSA name -> bool), following negations and re-written comparisons"""
    if c in ('true', 'false'):
        return c == 'true'
    if not truth or depth > 4:
        return None
    if c in truth:
        return truth[c]
    d = fn.defs.get(c)
    if d is None:
        return None
    if d.op == 'xor' and 'true' in d.ops:
        t = truth_of(fn, d.ops[0] if d.ops[1] == 'true' else d.ops[1], truth, depth + 1)
        return None if t is None else not t
    if d.op == 'icmp':
        from .guards import NEG
        for o, tv in truth.items():
            e = fn.defs.get(o)
            if e is not None and e.op == 'icmp' and e is not d:
                same = (e.ops == d.ops) or (e.ops == d.ops[::-1] and d.pred in ('eq', 'ne'))
                if same and e.pred == d.pred:
                    return tv
                if same and NEG.get(e.pred) == d.pred:
                    return not tv
    return None

def possible_consts(fn, v, via=None, seen=None, facts=None, known=None, truth=None):
    """set of python ints / descriptor strings value v may take; incomings of phis that sit inside the region `via` are
    restricted to predecessor blocks in `via`; `known` maps SSA values to constants established by dominating edges"""
    seen = seen if seen is not None else set()
    if INT.match(v):
        return {int(v)}
    if known and v in known:
        return {known[v]}
    if v in seen:
        return set()
    seen.add(v)
    d = fn.defs.get(v)
    if d is None:
        return {'param:' + v}
    if d.op == 'phi':
        out = set()
        inside = via is None or d.bb in via
        for val, lab in d.incoming:
            pb = fn.blocks[lab]
            if via is None or not inside or pb in via:
                out |= possible_consts(fn, val, via, seen, facts, known, truth)
        return out
    if d.op in ('sext', 'zext', 'trunc'):
        if d.optys and d.optys[0] == 'i1' and truth_of(fn, d.ops[0], truth) is not None:
            return {(1 if d.op == 'zext' else -1) if truth_of(fn, d.ops[0], truth) else 0}
        return possible_consts(fn, d.ops[0], via, seen, facts, known, truth)
    if d.op == 'select':
        t = truth_of(fn, d.ops[0], truth)
        if t is not None:
            return possible_consts(fn, d.ops[1] if t else d.ops[2], via, seen, facts, known, truth)
        return possible_consts(fn, d.ops[1], via, seen, facts, known, truth) | possible_consts(fn, d.ops[2], via, seen, facts, known, truth)
    if d.op == 'sub' and d.ops[0] == '0':
        inner = possible_consts(fn, d.ops[1], via, seen, facts, known, truth)
        return {(-x if isinstance(x, int) else 'neg:' + str(x)) for x in inner}
    if d.op == 'call':
        return {'call:' + d.callee}
    if d.op == 'load':
        return {'load'}
    return {'expr:' + d.op}


def byte_extent(prog, fn, ptr, access_ty):
    """(root SSA value, byte offset, size) of the memory an access of type access_ty through `ptr` touches, when the address is the
    root plus constant member / element / byte offsets; None otherwise.  Used to tell apart stores into different members of
    one object (x86-64 layout of the IR types)"""
    from .build import _layout, _split_top
    structs = fn.mod.__dict__.get('_structs_layout')
    if structs is None:
        structs = {}
        for m_ in [fn.mod] + list(prog.mods):
            for name, body in m_.types.items():
                if name not in structs and '{' in body and '}' in body:
                    structs[name] = _split_top(body[body.index('{') + 1: body.rindex('}')])
                    if '<{' in body:
                        structs.setdefault('__packed__', set()).add(name)
        fn.mod._structs_layout = structs
    sz = _layout(access_ty, structs)
    if sz is None:
        return None
    off, v, n = 0, ptr, 0
    while n < 12:
        n += 1
        d = fn.defs.get(v)
        if d is None:
            break
        if d.op == 'bitcast':
            v = d.ops[0]
            continue
        if d.op != 'getelementptr':
            break
        idx = d.ops[1:]
        if not all(INT.match(i) for i in idx):
            return None
        cur = d.gep_base_ty.strip()
        e = _layout(cur, structs)
        if e is None:
            return None
        off += int(idx[0]) * e[0]
        for i in idx[1:]:
            i = int(i)
            if cur in structs:
                o = 0
                for k_, f_ in enumerate(structs[cur]):
                    fe = _layout(f_, structs)
                    if fe is None:
                        return None
                    fa_ = 1 if cur in structs.get('__packed__', ()) else fe[1]
                    o = (o + fa_ - 1) // fa_ * fa_
                    if k_ == i:
                        break
                    o += fe[0]
                else:
                    return None
                off += o
                cur = structs[cur][i].strip()
            else:
                am = re.match(r'\[(\d+) x (.*)\]$', cur)
                if not am:
                    return None
                ee = _layout(am.group(2), structs)
                if ee is None:
                    return None
                off += i * ee[0]
                cur = am.group(2).strip()
        v = d.ops[0]
    return v, off, sz[0]

def may_overlap(fn, e1, e2):
    """two byte extents (byte_extent results, possibly None) may name common memory"""
    if e1 is None or e2 is None:
        return True
    if e1[0] == e2[0]:
        return not (e1[1] + e1[2] <= e2[1] or e2[1] + e2[2] <= e1[1])
    # different roots: distinct objects only when one of them is memory allocated in this very function
    for r in (e1[0], e2[0]):
        d = fn.defs.get(r)
        if d is not None and (d.op == 'alloca' or (d.op == 'call' and d.callee in ('@malloc', '@calloc'))):
            return False
    return True
