"""refusal chains: results of fallible calls are propagated (R02b/R06a), op-call results are tested and fail cleanly
(R02c/R17a), header-derived indexes are range-checked (R02d)."""
import re
from . import callgraph, oblig
from .vflow import Canon, strip_int_casts, strip_ptr_casts, derived_pointers, access_path, fields_in_path
from .guards import Facts, lower_bound_at
from .ir import INT
from .build import AnalysisBroken

OUT_OF_SCOPE = re.compile(r'jerasure|shss|phazrio|alg_sig')

def ret_sources(fn, seen=None):
    """(ints, call instructions, other) that may reach the return value"""
    ints, calls, other = set(), [], set()
    seen = set()
    st = [i.ops[0] for i in fn.insts() if i.op == 'ret' and i.ops]
    while st:
        v = st.pop()
        if v in seen:
            continue
        seen.add(v)
        if INT.match(v):
            ints.add(int(v)); continue
        d = fn.defs.get(v)
        if d is None:
            other.add('param'); continue
        if d.op == 'phi':
            st += [x for x, _ in d.incoming]
        elif d.op in ('sext', 'zext', 'trunc'):
            st.append(d.ops[0])
        elif d.op == 'select':
            st += [d.ops[1], d.ops[2]]
        elif d.op == 'call':
            calls.append(d)
        elif d.op == 'sub' and d.ops[0] == '0':
            other.add('neg')
        else:
            other.add(d.op)
    return ints, calls, other

class Fallible:
    """may-return-negative summaries"""
    def __init__(self, prog):
        self.prog = prog
        self.cg = callgraph.get(prog)
        self.neg = {}
        ext_neg = {'ext:gf_invert_matrix'}
        for _ in range(8):
            changed = False
            for n, f in prog.fns.items():
                if self.neg.get(n):
                    continue
                if not re.match(r'i(32|64)$', f.retty.strip()):
                    continue
                ints, calls, other = ret_sources(f)
                m = any(i < 0 for i in ints) or 'neg' in other
                for c in calls:
                    for g in self.cg.callees(f, c):
                        if self.neg.get(g) or g in ext_neg:
                            m = True
                if m:
                    self.neg[n] = True; changed = True
            if not changed:
                break
        self.ext_neg = ext_neg
    def may_fail(self, f, call):
        return [g for g in self.cg.callees(f, call) if self.neg.get(g) or g in self.ext_neg]

# functions whose negative return is a "not found" sentinel of a search, not an error code (their uses are R02e's business)
SENTINEL_SEARCH = {
    '@index_of_connected_parity': '-1 = no connected parity; callers fall back to another strategy (R02e checks the uses)',
    # numerical kernels of the built-in RS code: their -1 can only arise from a singular selection / division by zero, which the
    # MDS property of the generator excludes (a value-level fact of C04 that no rule here decides)
    '@get_non_zero_diagonal': '-1 = no pivot: singular matrix, excluded by the MDS property (C04, not decided)',
    '@rs_galois_inverse': '-1 = inverse of 0, only reachable with a zero pivot',
    '@rs_galois_div': '-1 = division by 0, only reachable with a zero pivot',
}

# exemptions: one named call edge each, with the reason (frozen)
EXEMPT_DROPPED = {
    ('@liberasurecode_rs_vand_decode$static', '@liberasurecode_rs_vand_decode'):
        'adapter (backends/rs_vand) -> built-in decoder: the only failure it reports is "> m erasures", pre-empted by get_fragment_partition (R02d)',
    ('@liberasurecode_rs_vand_reconstruct$static', '@liberasurecode_rs_vand_reconstruct'):
        'adapter -> built-in reconstruct: same single failure, pre-empted by R02d',
}

def slot_cone(P, slots, backends):
    """defined in-scope functions reachable from the given op slots of the given backends"""
    cg = callgraph.get(P)
    roots = set()
    for be in backends:
        c = cg.common.get(be)
        if c is None:
            raise AnalysisBroken(f'anchor vanished: {be}')
        t = cg.op_tables[c['ops']]
        for s in slots:
            roots.add(t[s])
    seen, st = set(), list(roots)
    while st:
        n = st.pop()
        if n in seen or n not in P.fns:
            continue
        if OUT_OF_SCOPE.search(P.fns[n].mod.src):
            continue
        seen.add(n)
        f = P.fns[n]
        for i in f.insts():
            if i.op == 'call':
                for c in cg.callees(f, i):
                    st.append(c)
    return seen, roots

def result_use(f, call):
    """how the result of a call is used: 'returned' | 'tested' | 'dropped' (+ detail)"""
    if not call.res:
        return 'dropped', 'call result has no name'
    vals = {call.res}
    changed = True
    while changed:
        changed = False
        for i in f.insts():
            if i.res and i.res not in vals and ((i.op in ('sext', 'zext', 'trunc') and i.ops[0] in vals) or
                                                (i.op == 'phi' and any(v in vals for v, _ in i.incoming)) or
                                                (i.op == 'select' and any(v in vals for v in i.ops[1:]))):
                vals.add(i.res); changed = True
    returned = any(i.op == 'ret' and i.ops and i.ops[0] in vals for i in f.insts())
    tested = [i for i in f.insts() if i.op == 'icmp' and any(o in vals for o in i.ops)]
    stored = [i for i in f.insts() if i.op == 'store' and i.ops[0] in vals]
    if returned:
        return 'returned', ''
    if tested:
        return 'tested', tested
    if stored:
        return 'stored', stored
    return 'dropped', ''

def propagation_rule(P, r, slots, backends, label):
    """R02b / R06a: in the cone of the given slots every call to a may-fail function has its result returned, or tested
    with the failing edge returning a negative value"""
    F = Fallible(P)
    cone, roots = slot_cone(P, slots, backends)
    n = 0
    for name in sorted(cone):
        f = P.fns[name]
        for call in f.insts():
            if call.op != 'call':
                continue
            mf = F.may_fail(f, call)
            mf = [g for g in mf if not (g in P.fns and OUT_OF_SCOPE.search(P.fns[g].mod.src)) and g not in SENTINEL_SEARCH]
            if not mf:
                continue
            n += 1
            inst = f'{label}: {name} -> {"/".join(mf)} (line {call.line})'
            ex = [EXEMPT_DROPPED.get((name, g)) for g in mf]
            how, detail = result_use(f, call)
            if how == 'returned':
                r.ok(inst + ': result returned', func=name, loc=call.loc)
            elif how == 'tested':
                # failing edge must return negative
                bad = None
                for v in [x for x in oblig.representative_values(f, call.res) if x < 0][:3]:
                    for kind, val, trail in oblig.simulate(f, call, v):
                        if kind == 'ret' and f.retty.strip() != 'void' and (val is None or val >= 0):
                            bad = (v, val)
                if bad and all(e is None for e in ex):
                    r.fail(inst, func=name, sig=f'failure of {mf[0]} not reported', loc=call.loc,
                           msg=f'when {mf[0]} returns {bad[0]} the function {name} returns {bad[1]} (a failure becomes success)')
                else:
                    r.ok(inst + ': result tested, failure returns an error', func=name, loc=call.loc)
            else:
                if all(e is not None for e in ex):
                    r.ok(inst + ': result not used (exempt: ' + ex[0] + ')', func=name, loc=call.loc, trivial=True)
                else:
                    r.fail(inst, func=name, sig=f'result of {mf[0]} {how}', loc=call.loc,
                           msg=f'{name} ignores the result of {mf[0]}, which reports failures with a negative value: the failure is lost' +
                               (' (and the function returns void)' if f.retty.strip() == 'void' else ''))
    return n

def op_result_rule(P, r, entry_names, label='R17a'):
    """R02c/R17a: results of ops->X calls in the front end are tested; the failing edge returns negative and stores nothing
    into the caller's output parameters"""
    cg = callgraph.get(P)
    n = 0
    for en in entry_names:
        f = P.fn(en)
        outs = set()
        for pi, (pty, pn) in enumerate(f.params):
            if pty.endswith('**') or pty in ('i64*', 'i32*') or (pty == 'i8*' and en.endswith('reconstruct_fragment') and pi == len(f.params) - 1):
                A, _ = derived_pointers(f, [pn])
                outs |= A
        for call in f.insts():
            if call.op != 'call' or not call.callee.startswith('%'):
                continue
            root, steps = access_path(P, f, f.defs[strip_ptr_casts(f, call.callee)].ops[0]) if f.defs.get(strip_ptr_casts(f, call.callee)) is not None and f.defs[strip_ptr_casts(f, call.callee)].op == 'load' else (None, [])
            fl = fields_in_path(steps)
            if not fl or fl[-1][0] != 'ec_backend_op_stubs':
                continue
            slot = fl[-1][1]
            if slot not in ('init', 'encode', 'decode', 'reconstruct', 'fragments_needed'):
                continue
            n += 1
            inst = f'{en}: ops->{slot} result'
            how, detail = result_use(f, call)
            if slot == 'init':
                # null result => negative return
                from .nullcheck import null_edges
                from .retval import returns_via_edge, all_negative
                A, _ = derived_pointers(f, [call.res])
                # the result is stored into the instance then reloaded: accept a test on the reloaded field too
                ne = null_edges(f, A)
                if not ne:
                    for b in f.order:
                        t = b.insts[-1]
                        if t.op == 'br' and len(t.targets) == 2 and t.ops:
                            c = f.defs.get(t.ops[0])
                            if c is not None and c.op == 'icmp' and 'null' in c.ops:
                                o = c.ops[0] if c.ops[1] == 'null' else c.ops[1]
                                od = f.defs.get(o)
                                if od is not None and od.op == 'load':
                                    _, st2 = access_path(P, f, od.ops[0])
                                    if fields_in_path(st2)[-1:] == [('ec_backend_desc', 'backend_desc')]:
                                        ne.add((b, f.blocks[t.targets[0] if c.pred == 'eq' else t.targets[1]]))
                if not ne:
                    r.fail(inst, func=f.name, sig='init result not tested', loc=call.loc, msg='a NULL backend descriptor is not detected')
                    continue
                ok = all(all_negative(returns_via_edge(f, s, d)) for s, d in ne)
                if ok:
                    r.ok(inst + ': NULL => negative return', func=f.name, loc=call.loc)
                else:
                    r.fail(inst, func=f.name, sig='init failure does not return an error', loc=call.loc, msg='create may return a non-negative value after init failed')
                continue
            if how == 'dropped' or how == 'stored':
                r.fail(inst, func=f.name, sig=f'ops->{slot} result {how}', loc=call.loc, msg=f'the result of the backend {slot} operation is ignored')
                continue
            bad = None
            reps = [x for x in oblig.representative_values(f, call.res) if x < 0][:3]
            for v in reps:
                for kind, val, trail in oblig.simulate(f, call, v, stop_calls=('store', '@llvm.memcpy.p0i8.p0i8.i64')):
                    if kind == 'ret' and (val is None or val >= 0):
                        bad = f'returns {val} after the operation failed with {v}'
                    elif kind == 'event':
                        ins = val
                        if ins.op == 'store' and ins.ops[1] in outs:
                            bad = f'stores to an output parameter (line {ins.line}) after the operation failed'
                        elif ins.op == 'call' and ins.ops[0] in outs:
                            bad = f'copies into the output buffer (line {ins.line}) after the operation failed'
            if bad:
                r.fail(inst, func=f.name, sig=f'ops->{slot} failure: {bad[:60]}', loc=call.loc, msg=f'{en} {bad}')
            else:
                r.ok(inst + ': negative => error return, outputs untouched', func=f.name, loc=call.loc, facts={'representatives': reps})
    return n
