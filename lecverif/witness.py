"""E12 compile-time witnesses: a TU of _Static_asserts against the repo's public headers, compiled with the
repo's flags.  Each assertion is one obligation; a failing one is mapped back by its tag."""
import re
from . import build
from .build import AnalysisBroken

def run_witness(root, includes, asserts, compiler='clang-14', flags_from='src', prelude=''):
    """asserts: list of (tag, C constant expression).  -> {tag: True|False}"""
    lines = ['#include <stddef.h>', '#include <stdint.h>'] + [f'#include "{h}"' for h in includes] + [prelude]
    tagline = {}
    for tag, expr in asserts:
        lines.append(f'_Static_assert({expr}, "WIT:{tag}");')
        tagline[len(lines)] = tag
    rc, err = build.syntax_check(root, '\n'.join(lines) + '\n', flags_from, compiler)
    failed = set(re.findall(r'WIT:([\w.\[\]]+)', err))
    other = [l for l in err.split('\n') if re.search(r'\berror\b', l) and 'WIT:' not in l and 'static' not in l.lower()
             and not re.match(r'\s*\d+ errors? generated', l)]
    # errors on an assertion line without the tag echoed (e.g. non-constant expression) count as failures of that tag
    for l in err.split('\n'):
        m = re.match(r'.*witness\.c:(\d+):\d+: error', l)
        if m and int(m.group(1)) in tagline:
            failed.add(tagline[int(m.group(1))])
            if l in other:
                other.remove(l)
    other = [l for l in other if not re.match(r'.*witness\.c:(\d+):', l) or int(re.match(r'.*witness\.c:(\d+):', l).group(1)) not in tagline]
    if other:
        raise AnalysisBroken('witness TU does not compile: ' + ' | '.join(other[:5]))
    if rc != 0 and not failed:
        raise AnalysisBroken('witness TU failed without a mapped assertion: ' + err[-1500:])
    return {tag: (tag not in failed) for tag, _ in asserts}
