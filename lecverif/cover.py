"""Region tiling (R01d / R04c / R05g): the stores of a block kernel F(src, dst, ..., size) into dst, taken in program order,
must tile [0, size) exactly.  Every storing loop is summarised as a piece  [a, a + b*T)  (first offset a, stride b = access
width w, trip count T - polynomial forms from loops.py, independent of whether the loop uses an index, a walking pointer or a
count-down counter); a single trailing byte store under `size % 2 == 1` is a piece of its own.  The obligations are
polynomial identities:  first piece starts at 0, each piece starts where the previous one ends, the last one ends at size,
byte tails have width 1 - with x % c rewritten as x - c*(x / c) the identity  c*(x/c) + x%c == x  is built in, so the check
proves e.g. 16*((bs - bs%16)/16) == bs - bs%16 for the tail start instead of matching how it is written.  Merge values
(`fast = bs > r ? bs - r : 0`) are enumerated and the identities must hold for each alternative.  Loads from src/dst in a
storing loop must use the offset of the store (lanes agree).  Not decided: that offsets stay non-negative and trip counts are
not negative (sizes are taken as non-negative integers)."""
import itertools
from .poly import Poly, PolyCtx
from .loops import loops_of, innermost, affine_in_t
from .guards import Facts
from .xorrules import type_bytes
from .vflow import Canon, strip_int_casts

def _choice_points(f, polys, loop_phis):
    pts = set()
    for p in polys:
        if p is None:
            continue
        for a in p.atoms():
            for name in _ssa_names(a):
                d = f.defs.get(name)
                if d is not None and name not in loop_phis and (d.op == 'phi' or (d.op == 'select' and d.ty != 'i1')):
                    pts.add(name)
    return sorted(pts)

def _ssa_names(atom):
    import re
    if atom.startswith('%'):
        return [atom]
    return re.findall(r'%[\w.]+', atom) if atom.startswith('div(') else []

def fn_stores(f, L, latch):
    """stores executed on an iteration that leaves the body through `latch`: blocks from which latch is reachable inside the body"""
    B, st = {latch}, [latch]
    while st:
        x = st.pop()
        if x is L.header:
            continue
        for y in x.preds:
            if y in L.body and y not in B:
                B.add(y); st.append(y)
    # a block that can reach the latch both with and without ... keep it simple: every store in those blocks that dominates the latch
    from .cfg import dominators, dominates
    idom = dominators(f)
    return [i for b in B for i in b.insts if i.op == 'store' and (b is latch or dominates(idom, b, latch))]

def _after_loops(LS, block, p, depth=0):
    """counters / walking pointers of loops that have finished before `block` (loops not containing it) stand for their exit
    values: `to_byte = (char *) to_word` after the word loop is offset 4 * (number of words)"""
    if p is None or depth > 4:
        return p
    for a in list(p.atoms()):
        if not a.startswith('%'):
            continue
        for L in LS:
            if block not in L.body and any(ph.res == a for ph in L.phis):
                ev = L.exit_value(a)
                if ev is not None:
                    return _after_loops(LS, block, p.subst(a, ev), depth + 1)
    return p

def _pieces(P, f, pc, dst_arg, src_args):
    """-> (pieces, problems). piece = dict(kind='loop'|'single', a, b, w, T, end, store, guard, order)"""
    LS = loops_of(P, f, pc)
    pieces, problems = [], []
    roots = {f'arg{dst_arg}'}
    for st in [i for i in f.insts() if i.op == 'store']:
        L = innermost(LS, st.bb)
        pt = pc.ptr(st.ops[1])
        pit = None
        if L is not None:
            pit = L.ptr_at_iteration(*pt)
            pt = pit or pt
        if pt[0] not in roots:
            continue
        w = type_bytes(st.ty)
        if L is None:
            pieces.append(dict(kind='single', a=_after_loops(LS, st.bb, pt[1]), b=None, w=w, T=None, store=st, order=f.order.index(st.bb), loop=None))
            continue
        ab = affine_in_t(pt[1]) if pit is not None else None
        if ab is None:
            # the offset's induction variable has no uniform step: look at each way round the loop separately.  An iteration
            # that advances the element index by s must write s elements; one that advances without writing leaves a hole
            raw = pc.ptr(st.ops[1])[1]
            edges = []
            for b_ in L.body:
                if b_ is L.header:
                    continue
                if any(mp.op == 'phi' for mp in b_.insts[:1]):
                    edges += [(p_, b_) for p_ in b_.preds if p_ in L.body]
            from .cfg import dominators, dominates
            idom = dominators(f)
            for phi in [p_ for p_ in L.phis if p_.res in raw.atoms()]:
                for (src, dst) in edges:
                    Lv = L.via_edge(src, dst)
                    init_, step_ = Lv.recurrence(phi)
                    sv = step_.const_value() if step_ is not None else None
                    if sv is None:
                        continue
                    on_path = [i2 for b2 in L.body for i2 in b2.insts if i2.op == 'store' and (b2 is src or dominates(idom, b2, src))
                               and pc.ptr(i2.ops[1])[0] == pc.ptr(st.ops[1])[0]]
                    written = len({str(pc.ptr(s2.ops[1])[1]) for s2 in on_path})
                    if written < sv:
                        problems.append((st, f'the loop at line {st.line} advances by {sv} elements on the path through line {src.insts[-1].line} which writes {written}: '
                                             f'lanes differ in coverage - {sv - written} element(s) of the destination are skipped there'))
        hg = [g for g in L.guards() if g.block is L.header]
        T = L.trip(hg[0]) if len(hg) == 1 else None
        if T is None or (L.header in L.latches and len(L.body) == 1) or not hg:
            # a loop tested at its end (do/while behind a guard): 1 + the number of passed tests, valid because the guard in front
            # of it establishes at least one iteration
            N_, rot_ = L.runs()
            if N_ is not None and rot_:
                hg = [g for g in L.guards() if g.block is L.exits[0][0]]
                T = N_ if L.entry_positive(N_) else None
        if ab is None:
            problems.append((st, f'store address at line {st.line} is not an affine function of the iteration'))
            continue
        if len(hg) != 1:
            problems.append((st, f'loop around line {st.line} has {len(hg)} recognised header guards'))
        pieces.append(dict(kind='loop', a=_after_loops(LS, st.bb, ab[0]), b=ab[1], w=w, T=_after_loops(LS, st.bb, T), store=st, order=f.order.index(L.header), loop=L))
        # lanes: loads from src / dst in this iteration use the store's offset
        for ld in [i for b in L.body for i in b.insts if i.op == 'load']:
            lp = L.ptr_at_iteration(*pc.ptr(ld.ops[0]))
            if lp is not None and lp[0] in roots | {f'arg{x}' for x in src_args}:
                if _after_loops(LS, st.bb, lp[1]) != _after_loops(LS, st.bb, pt[1]) and type_bytes(ld.ty) == w:
                    problems.append((ld, f'line {ld.line} reads offset {lp[1]} of {lp[0]} while offset {pt[1]} is written: source and destination lanes differ'))
    return pieces, problems

def _tail_run(P, f, pc, chain, n, cur, size):
    """chain[n:] are single one-byte stores at cur, cur + 1, ...; store j runs exactly when at least j + 1 bytes are left
    (size - cur >= j + 1), and there are enough of them for every remainder smaller than the previous loop's element width"""
    from .guards import PolyFacts
    singles = chain[n:]
    prev = chain[n - 1]
    if any(q['kind'] != 'single' or q['w'] != 1 for q in singles) or prev['w'] < 2 or len(singles) < prev['w'] - 1:
        return False
    L = prev['loop']
    if L is None or not L.exits:
        return False
    base = {str(Q) for Q in PolyFacts(P, f, L.exits[0][1], pc=pc).ge}
    for j, q in enumerate(singles):
        if q['a'] != cur + Poly.const(j):
            return False
        need = size - cur - Poly.const(j + 1)
        PFq = PolyFacts(P, f, q['store'].bb, pc=pc)
        if not PFq.implies(need):
            return False
        for Q in PFq.ge:
            if str(Q) in base:
                continue
            d = Q - need
            if not (d.is_const() and d.const_value() >= 0):
                return False                # guarded by something stronger than "j + 1 bytes are left"
    return True

def _chains(f, pieces):
    """maximal sequences of pieces that can execute one after the other (pieces in exclusive branches form separate chains)"""
    from .cfg import reachable_from
    def blk(p):
        return p['loop'].header if p['loop'] is not None else p['store'].bb
    def before(p, q):
        return p is not q and blk(q) in reachable_from(blk(p)) and not (blk(p) in reachable_from(blk(q)) and blk(p) is not blk(q)) and blk(p) is not blk(q)
    succs = {id(p): [q for q in pieces if before(p, q)] for p in pieces}
    firsts = [p for p in pieces if not any(before(q, p) for q in pieces)]
    out = []
    def go(path):
        nxt = [q for q in succs[id(path[-1])] if not any(before(path[-1], x) and before(x, q) for x in pieces)]
        if not nxt:
            out.append(path); return
        for q in nxt:
            go(path + [q])
    for p in firsts:
        go([p])
    return out[:16]

def cover_rule(P, r, fname, src_args, dst_arg, size_arg):
    f = P.fn(fname)
    C = Canon(P, f)
    base = PolyCtx(P, f, C)
    pieces0, _ = _pieces(P, f, base, dst_arg, src_args)
    if not pieces0:
        r.undecided(f'{fname}: stores into the destination', msg='no store into the destination buffer was recognised')
        return
    loop_phis = {p.res for L in loops_of(P, f, base) for p in L.phis}
    pts = _choice_points(f, [x for p in pieces0 for x in (p['a'], p['b'], p['T'])], loop_phis)
    alts = []
    for name in pts:
        d = f.defs[name]
        alts.append([(name, v) for v in ({v for v, _ in d.incoming} if d.op == 'phi' else set(d.ops[1:]))])
    combos = list(itertools.product(*alts))[:32] if alts else [()]
    size = Poly.atom(f'arg{size_arg}')
    inst = f'{fname}: stores into the destination tile [0, size) exactly'
    verdicts = []
    for combo in combos:
        pc = PolyCtx(P, f, C, choice=dict(combo))
        pieces, problems = _pieces(P, f, pc, dst_arg, src_args)
        # identical pieces (both arms of an `if (xor)` inside one loop) count once
        uniq = []
        for p in sorted(pieces, key=lambda p: p['order']):
            if not any(q['kind'] == p['kind'] and q['a'] == p['a'] and q['w'] == p['w'] and (q['T'] == p['T'] if p['T'] is not None and q['T'] is not None else q['T'] is p['T'])
                       and q['loop'] is p['loop'] and (p['loop'] is not None or q['store'].bb is p['store'].bb) for q in uniq):
                uniq.append(p)
        fails, undec = [f'{m}' for _, m in problems if 'lanes differ' in m], [m for _, m in problems if 'lanes differ' not in m]
        for chain in _chains(f, uniq):
          cur = Poly()
          done_single = False
          for n, p in enumerate(chain):
              last = n == len(chain) - 1
              if p['kind'] == 'loop':
                  if p['T'] is None:
                      undec.append(f'trip count of the loop at line {p["store"].line} is not recognised'); break
                  if p['b'] != Poly.const(p['w']):
                      fails.append(f'loop at line {p["store"].line} writes {p["w"]}-byte elements every {p["b"]} bytes')
                  if p['a'] != cur:
                      fails.append(f'loop at line {p["store"].line} starts at offset {p["a"]} but the bytes before it end at {cur}')
                  cur = p['a'] + p['b'] * p['T']
                  if last and p['w'] != 1 and cur != size:
                      fails.append(f'the last loop works on {p["w"]}-byte elements and ends at {cur}: a remainder smaller than {p["w"]} bytes is never processed')
              elif done_single == 'run':
                  continue                    # one of the tail bytes already accounted for below
              elif n > 0 and chain[n - 1]['kind'] == 'loop' and _tail_run(P, f, pc, chain, n, cur, size):
                  # the tail written out byte by byte under `rem > 0`, `rem > 1`, ... (an unrolled tail loop): complete when there
                  # is a store for every remainder the element width allows
                  cur = size
                  done_single = 'run'
              else:
                  # single trailing byte: offset size-1 under size % 2 == 1, after 2-byte elements
                  F = Facts(P, f, p['store'].bb)
                  guards = []
                  for raw, truth in F.raw:
                      if raw.op == 'icmp' and ((raw.pred == 'eq') == truth) and '1' in raw.ops:
                          guards.append(pc.val(raw.ops[0] if raw.ops[1] == '1' else raw.ops[1]))
                      if raw.op == 'icmp' and ((raw.pred == 'ne') == truth) and '0' in raw.ops:
                          guards.append(pc.val(raw.ops[0] if raw.ops[1] == '0' else raw.ops[1]))
                  rem2 = size - PolyCtx.div(size, 2) * 2
                  if p['w'] != 1 or not any(g == rem2 for g in guards):
                      undec.append(f'store at line {p["store"].line} outside a loop is not a single trailing byte under size % 2 == 1'); break
                  # the guard says size % 2 == 1, i.e. size - 1 == 2 * (size / 2): either spelling names the last byte
                  if p['a'] != size - Poly.const(1) and p['a'] != PolyCtx.div(size, 2) * 2:
                      fails.append(f'trailing byte is written at offset {p["a"]}, not size-1')
                  # with the tail: previous end + (size % 2 == 1) must be size - 1; without it: previous end must be size
                  if (size - cur) != rem2:
                      fails.append(f'the element loop ends at {cur}: with size % 2 bytes left over this is not size - size % 2')
                  cur = size
                  done_single = True
          if not undec and not done_single and cur != size and not any('remainder' in x for x in fails):
              fails.append(f'the stores end at offset {cur}, not at size ({size})')
        verdicts.append((combo, fails, undec))
    allf = [x for _, fl, _ in verdicts for x in fl]
    allu = [x for _, _, ul in verdicts for x in ul]
    loc = pieces0[0]['store'].loc
    if allf:
        msg = sorted(set(allf))
        r.fail(inst, func=f.name, sig='coverage: ' + msg[0][:100], loc=loc, msg='the kernel does not process every byte of the block: ' + '; '.join(msg))
    elif allu:
        r.undecided(inst, loc=loc, msg='; '.join(sorted(set(allu))))
    else:
        r.ok(inst, func=f.name, loc=loc, facts={'pieces': [dict(kind=p['kind'], start=str(p['a']), width=p['w'], trips=str(p['T'])) for p in pieces0],
                                                  'alternatives': len(combos)})
