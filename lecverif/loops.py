"""E3b loop recurrences and iteration spaces.  For a natural loop: the header phis with their initial value and their
per-iteration step (polynomial forms, poly.py), the guards that bound an induction variable, and from them the trip count T
(as a polynomial) of the controlling guard; `at_iteration` rewrites any polynomial over header phis as a function of the
iteration number t (atom 't'), so a rule can say "the call sees fragments[t] for t in [0, num_fragments)" whether the
loop is written with an index, a walking pointer, a count-down counter or a while loop with a separate increment."""
from .cfg import natural_loops
from .guards import implied_atoms, NEG
from .poly import Poly, PolyCtx
from .ir import INT
from .vflow import strip_int_casts

T = 't'

class Guard:
    """continuing the loop requires  iv <pred> bound  (pred in slt/sle/sgt/sge/ne/ult/...), tested in block `block`"""
    def __init__(self, iv, pred, bound, block, exit_edge, lhs):
        self.iv, self.pred, self.bound, self.block, self.exit_edge, self.lhs = iv, pred, bound, block, exit_edge, lhs
    def __repr__(self):
        return f'<guard {self.lhs} {self.pred} {self.bound} at {self.block.label}>'

class Loop:
    def __init__(self, pc, header, body):
        self.pc, self.fn, self.header, self.body = pc, pc.fn, header, body
        self.latches = [b for b in header.preds if b in body]
        self.entries = [b for b in header.preds if b not in body]
        self.exits = [(b, s) for b in body for s in b.succs if s not in body]
        self.phis = [i for i in header.insts if i.op == 'phi']
        self._rec = {}

    # ---- recurrences
    def recurrence(self, phi):
        """(init, step): init = form of the value on entry (Poly, or (root, Poly) for pointers); step = Poly added per
        iteration, None when the latch values disagree or are not phi + something"""
        if phi.res in self._rec:
            return self._rec[phi.res]
        pc = self.pc
        isptr = phi.ty.endswith('*')
        inits, steps = [], []
        R = pc.phi_root(phi) if isptr else None
        for v, lab in phi.incoming:
            b = self.fn.blocks[lab]
            if isptr:
                # pointer induction variable: value = byte offset from the root of the object it walks
                root, off = pc.ptr(v)
                if R is None or root != R:
                    (steps if b in self.body else inits).append(None); continue
                sz = pc.phi_scale(phi)
                if b in self.body:
                    c, rest = off.coeff_of(phi.res)
                    ok = c is not None and c == Poly.const(sz) and all(x % sz == 0 for x in rest.values())
                    steps.append(Poly({k_: x // sz for k_, x in rest.items()}) if ok else None)
                else:
                    ok = all(x % sz == 0 for x in off.values())
                    inits.append(Poly({k_: x // sz for k_, x in off.items()}) if ok else None)
                continue
            p = pc.val(v)
            if b in self.body:
                c, rest = p.coeff_of(phi.res)
                steps.append(rest if c is not None and c == Poly.const(1) else None)
            else:
                inits.append(p)
        init = inits[0] if inits and all(x is not None and x == inits[0] for x in inits) else None
        step = steps[0] if steps and all(s is not None and s == steps[0] for s in steps) else None
        self._rec[phi.res] = (init, step)
        return init, step

    def via_edge(self, src, dst):
        """like via(), for iterations that take the CFG edge src -> dst"""
        pc2 = PolyCtx(self.pc.P, self.fn, self.pc.C, choice=self.choice_via(dst, before=src))
        return Loop(pc2, self.header, self.body)

    def choice_via(self, via, before=None):
        """merge phis inside the loop resolved for iterations that pass block `via`: {phi: operand}; a phi keeps its name
        when values from several predecessors reachable from `via` differ"""
        R, st = {via}, [via]
        while st:
            x = st.pop()
            for y in x.succs:
                if y in self.body and y is not self.header and y not in R:
                    R.add(y); st.append(y)
        # blocks from which `via` is reachable inside the iteration (with `before`: the edge before -> via is taken)
        start = before if before is not None else via
        B, st = {start}, [start]
        while st:
            x = st.pop()
            if x is self.header:
                continue
            for y in x.preds:
                if y in self.body and y not in B:
                    B.add(y); st.append(y)
        ch = {}
        for b in self.body:
            if b is self.header:
                continue
            for phi in b.insts:
                if phi.op != 'phi':
                    break
                # the edge pred -> b lies on an iteration through `via` iff pred comes after via, or via comes after b
                if before is not None and b is via:
                    vals = {v for v, lab in phi.incoming if self.fn.blocks[lab] is before}
                else:
                    vals = {v for v, lab in phi.incoming if (self.fn.blocks[lab] in R and not (before is not None and self.fn.blocks[lab] is via and False)) or b in B}
                if len(vals) == 1:
                    ch[phi.res] = next(iter(vals))
        return ch

    def via(self, block):
        """a view of this loop whose recurrences follow only the iterations that pass `block`"""
        pc2 = PolyCtx(self.pc.P, self.fn, self.pc.C, choice=self.choice_via(block))
        return Loop(pc2, self.header, self.body)

    def invariant(self, p):
        """polynomial mentions no value defined inside the loop (phi atoms of this loop; canonical atoms are not tracked)"""
        mine = {i.res for b in self.body for i in b.insts if i.res}
        if p.atoms() & mine:
            return False
        phin = ['phi' + i.res for b in self.body for i in b.insts if i.op == 'phi']
        return not any(n in a and (a.endswith(n) or not (a[a.index(n) + len(n)].isalnum() or a[a.index(n) + len(n)] in '._')) for a in p.atoms() for n in phin)

    def ivs(self):
        """{phi name: (init, step)} for header phis with a loop-invariant step"""
        out = {}
        for phi in self.phis:
            init, step = self.recurrence(phi)
            if step is not None and self.invariant(step):
                out[phi.res] = (init, step)
        return out

    # ---- guards
    def guards(self):
        """guards on induction variables: comparisons implied by staying in the loop at each exiting branch"""
        out = []
        ivs = self.ivs()
        for (b, s) in self.exits:
            t = b.insts[-1]
            if t.op != 'br' or len(t.targets) != 2 or not t.ops:
                continue
            stay_truth = self.fn.blocks[t.targets[0]] in self.body
            if self.fn.blocks[t.targets[0]] in self.body and self.fn.blocks[t.targets[1]] in self.body:
                continue
            for c, tv in implied_atoms(self.fn, t.ops[0], stay_truth):
                pred = c.pred if tv else NEG[c.pred]
                if (c.ty or '').endswith('*'):
                    # pointer comparison inside one object: compare the byte offsets
                    (r1, a), (r2, bb) = self.pc.ptr(c.ops[0]), self.pc.ptr(c.ops[1])
                    if r1 != r2:
                        continue
                else:
                    a, bb = self.pc.val(c.ops[0]), self.pc.val(c.ops[1])
                for lhs, rhs, pr in ((a, bb, pred), (bb, a, SWAP[pred])):
                    ats = [x for x in lhs.atoms() if x in ivs]
                    if len(ats) == 1 and self.invariant(rhs):
                        cf, rest = lhs.coeff_of(ats[0])
                        cv = cf.const_value() if cf is not None else None
                        if cv is not None and cv >= 1 and self.invariant(rest):
                            # c*iv + rest <pred> rhs   =>  iv <pred> (rhs - rest) / c   (only when that division is exact)
                            bound = rhs - rest
                            if all(x % cv == 0 for x in bound.values()):
                                out.append(Guard(ats[0], pr, Poly({k_: x // cv for k_, x in bound.items()}), b, (b, s), lhs))
        return out

    def trip(self, guard):
        """number of iterations allowed by `guard` alone (Poly), assuming it is not already false on entry; None if unknown.
        Valid when the guard is tested before the body uses the variable (header test) - callers check guard.block"""
        ivs = self.ivs()
        init, step = ivs[guard.iv]
        if init is None:
            return None
        s = step.const_value()
        if s is None:
            return None
        p = guard.pred
        if s == 1 and p in ('slt', 'ult'):
            return guard.bound - init
        if s == 1 and p in ('sle', 'ule'):
            return guard.bound - init + Poly.const(1)
        if s == -1 and p in ('sgt', 'ugt'):
            return init - guard.bound
        if s == -1 and p in ('sge', 'uge'):
            return init - guard.bound + Poly.const(1)
        if p == 'ne' and s == 1:
            return guard.bound - init
        if p == 'ne' and s == -1:
            return init - guard.bound
        # strides other than one: number of values init, init+s, ... that satisfy the guard (distance taken non-negative)
        if s > 1 and p in ('slt', 'ult', 'ne') and all(v % s == 0 for v in (guard.bound - init).values()):
            return PolyCtx.div(guard.bound - init, s)          # distance is a whole number of steps
        if s > 1 and p in ('slt', 'ult'):
            return PolyCtx.div(guard.bound - init + Poly.const(s - 1), s)
        if s > 1 and p in ('sle', 'ule'):
            return PolyCtx.div(guard.bound - init + Poly.const(s), s)
        if s < -1 and p in ('sgt', 'ugt'):
            return PolyCtx.div(init - guard.bound + Poly.const(-s - 1), -s)
        if s < -1 and p in ('sge', 'uge'):
            return PolyCtx.div(init - guard.bound + Poly.const(-s), -s)
        return None

    def runs(self):
        """(N, rotated): the number of iterations of the loop body as a polynomial, for a loop with one exit.  A loop tested
        in its header runs N = trip(guard) times (0 when that is not positive, rotated = False); a loop tested at its latch
        (do/while) runs N = 1 + the number of times the latch test passes, which is only right when N >= 1 - rotated = True
        tells the caller to establish N >= 1 from the guard in front of the loop (`entry_lower_bound`)"""
        if len(self.exits) != 1:
            return None, None
        eb = self.exits[0][0]
        gs = [g for g in self.guards() if g.block is eb]
        if len(gs) != 1:
            return None, None
        return self.count_for(gs[0])

    def count_for(self, guard):
        """like runs(), for the iterations allowed by one guard of a loop that may have other (error) exits; with rotated = True
        the count is established only once `entry_positive(N)` holds"""
        eb = guard.block
        T_ = self.trip(guard)
        if T_ is None:
            return None, None
        if eb in self.latches and len(self.latches) == 1:       # includes the one-block loop (header == latch)
            return T_ + Poly.const(1), True
        if eb is self.header:
            return T_, False
        # the second half of a short-circuit loop condition (`ret == 0 && i < n`): tested before the body like the header test
        from .cfg import dominators, dominates
        idom = dominators(self.fn)
        stay = [s_ for s_ in eb.succs if s_ in self.body]
        rest = [b_ for b_ in self.body if b_ is not self.header and b_ is not eb and not dominates(idom, self.header, eb)]
        if len(stay) == 1 and dominates(idom, self.header, eb) and all(dominates(idom, eb, l_) for l_ in self.latches):
            return T_, False
        return None, None

    def entry_lower_bound(self, p):
        """a constant c with p >= c on every entry into the loop, from the comparisons that dominate the pre-header (p = one
        canonical atom plus a constant); None if unknown"""
        from .guards import Facts
        c0 = p.get((), 0)
        rest = Poly({k_: v for k_, v in p.items() if k_ != ()})
        if len(rest) != 1 or list(rest.values()) != [1] or len(list(rest)[0]) != 1:
            return p.const_value()
        atom = list(rest)[0][0]
        los = []
        for e in self.entries:
            F = Facts(self.pc.P, self.fn, e, extra_edge=(e, self.header))
            lo = F.lower_bound(atom)
            if lo is None:
                return None
            los.append(lo + c0)
        return min(los) if los else None

    def entry_positive(self, p):
        """p >= 1 on every entry into the loop (from the comparisons that hold on the entering edges)"""
        from .guards import PolyFacts
        if self.entries and all(PolyFacts(self.pc.P, self.fn, e, pc=self.pc, extra_edge=(e, self.header)).implies(p - Poly.const(1)) for e in self.entries):
            return True
        lo = self.entry_lower_bound(p)
        return lo is not None and lo >= 1

    def at_iteration(self, p):
        """rewrite polynomial p (over header phis of this loop) as a function of the iteration number t; None if a phi of
        this loop without a known invariant step occurs"""
        ivs = self.ivs()
        r = p
        for phi in self.phis:
            if phi.res in r.atoms():
                if phi.res not in ivs:
                    return None
                init, step = ivs[phi.res]
                if init is None:
                    return None
                r = r.subst(phi.res, init + step * Poly.atom(T))
        return r

    def exit_value(self, phi_name):
        """value a header phi holds once the loop is left through its header test: init + step * trip; None if unknown or the
        loop has another exit"""
        ivs = self.ivs()
        if phi_name not in ivs or ivs[phi_name][0] is None:
            return None
        if any(b is not self.header for b, _ in self.exits):
            return None
        hg = [g for g in self.guards() if g.block is self.header]
        if len(hg) != 1:
            return None
        T_ = self.trip(hg[0])
        if T_ is None:
            return None
        init, step = ivs[phi_name]
        return init + step * T_

    def ptr_at_iteration(self, root, off):
        """pointer (root, off) as (root', off'(t)) with root' loop-invariant"""
        o2 = self.at_iteration(off)
        if o2 is None:
            return None
        return root, o2

SWAP = {'slt': 'sgt', 'sgt': 'slt', 'sle': 'sge', 'sge': 'sle', 'ult': 'ugt', 'ugt': 'ult', 'ule': 'uge', 'uge': 'ule', 'eq': 'eq', 'ne': 'ne'}

def loops_of(prog, fn, pc=None):
    pc = pc or PolyCtx(prog, fn)
    return [Loop(pc, h, body) for h, body in natural_loops(fn).items()]

def innermost(loops, block):
    best = None
    for L in loops:
        if block in L.body and (best is None or len(L.body) < len(best.body)):
            best = L
    return best

def in_iteration_space(LS, block, p):
    """polynomial p with the induction variables of every loop around `block` replaced by init + step * t<n> (t0 = innermost):
    a running offset (`diag += n + 1`, `row_off = diag - i`) and the product it replaces (`n*i + i`, `n*i`) get the same form"""
    around = sorted([L for L in LS if block in L.body], key=lambda L: len(L.body))
    for n, L in enumerate(around):
        q = L.at_iteration(p)
        if q is None:
            continue
        p = q.rename(lambda a: f't{n}' if a == T else a)
    return p

def same_at_every_iteration(L, p, q):
    """p == q as functions of the iteration number of loop L: two induction variables that advance together (`i` and a
    running `slot = k + i`, an index and a walking pointer) describe the same position"""
    if p == q:
        return True
    if L is None:
        return False
    a, b = L.at_iteration(p), L.at_iteration(q)
    return a is not None and b is not None and a == b

def affine_in_t(p):
    """p = a + b*t  ->  (a, b) with a, b free of t; None otherwise"""
    b, a = p.coeff_of(T)
    if b is None or T in b.atoms():
        return None
    return a, b
