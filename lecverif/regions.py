"""region kernels: a wide-element loop plus a byte tail must cover [0, size) exactly (structural, per function)"""
import re
from .cfg import natural_loops
from .vflow import Canon, strip_int_casts, strip_ptr_casts, derived_pointers
from .ir import INT
from .xorrules import type_bytes

def storing_loops(P, f, dst):
    A, _ = derived_pointers(f, [dst])
    out = []
    for h, body in natural_loops(f).items():
        t = h.insts[-1]
        iv = bound = pred = None
        if t.op == 'br' and len(t.targets) == 2 and t.ops:
            c = f.defs.get(t.ops[0])
            if c is not None and c.op == 'icmp':
                a = strip_int_casts(f, c.ops[0])
                ad = f.defs.get(a)
                if ad is not None and ad.op == 'add':
                    for o in ad.ops:
                        od = f.defs.get(strip_int_casts(f, o))
                        if od is not None and od.op == 'phi' and od.bb is h:
                            ad = od
                if ad is not None and ad.op == 'phi' and ad.bb is h:
                    iv, bound, pred = ad, c.ops[1], c.pred
        stores = [i for b in body for i in b.insts if i.op == 'store' and i.ops[1] in A]
        if iv is None or not stores:
            continue
        init = [v for v, l in iv.incoming if f.blocks[l] not in body]
        step = None
        for v, l in iv.incoming:
            if f.blocks[l] in body:
                d = f.defs.get(v)
                if d is not None and d.op == 'add' and iv.res in [strip_int_casts(f, o) for o in d.ops]:
                    other = [o for o in d.ops if strip_int_casts(f, o) != iv.res]
                    step = int(other[0]) if other and INT.match(other[0]) else None
        g = f.defs.get(stores[0].ops[1])
        while g is not None and g.op == 'bitcast':
            g = f.defs.get(g.ops[0])
        idx_ok = g is not None and g.op == 'getelementptr' and strip_int_casts(f, g.ops[-1]) == iv.res
        out.append(dict(header=h, body=body, iv=iv, init=init[0] if len(init) == 1 else None, step=step, bound=bound, pred=pred,
                        w=type_bytes(stores[0].ty), store=stores[0], idx_ok=idx_ok))
    out.sort(key=lambda l: f.order.index(l['header']))
    return out

def region_cover_rule(P, r, fname, dst_idx, size_idx):
    f = P.fn(fname)
    C = Canon(P, f)
    dst, size = f.params[dst_idx][1], f.params[size_idx][1]
    sz = f'arg{size_idx}'
    loops = storing_loops(P, f, dst)
    wides = [l for l in loops if l['w'] and l['w'] > 1]
    tails = [l for l in loops if l['w'] == 1]
    if not wides:
        r.undecided(f'{fname}: wide loop', msg='no multi-byte element loop found')
        return
    A, _ = derived_pointers(f, [dst])
    for wl in wides:
        W = wl['w']
        inst = f'{fname}: {W}-byte element loop at line {wl["store"].line} and its tail cover [0, blocksize)'
        problems = []
        nb = C.val(strip_int_casts(f, wl['bound']))
        if not (wl['init'] == '0' and wl['step'] == 1 and wl['idx_ok'] and wl['pred'] in ('slt', 'ult')):
            problems.append(f'wide loop is not "for (i = 0; i < n; i++) dst[i]" (init {wl["init"]}, step {wl["step"]})')
        if nb != f'({sz} sdiv {W})' and nb != f'({sz} udiv {W})' and nb != f'({sz} ashr {W.bit_length() - 1})':
            problems.append(f'wide loop runs to {nb}, expected blocksize / {W}')
        # tail: a byte loop from size - size % W, or (W == 2) a single byte at size-1 guarded by size % 2 == 1
        tail_ok = False
        tail_desc = None
        for tl in tails:
            if f.order.index(tl['header']) < f.order.index(wl['header']):
                continue
            s0 = C.val(strip_int_casts(f, tl['init'])) if tl['init'] else None
            tail_desc = f'byte loop from {s0}'
            if s0 == f'({sz} sub ({sz} srem {W}))' and tl['step'] == 1 and tl['idx_ok'] and tl['pred'] in ('slt', 'ult') and strip_int_casts(f, tl['bound']) == size:
                tail_ok = True
                break
            m = re.match(r'^\(%s sub \(%s srem (\d+)\)\)$' % (re.escape(sz), re.escape(sz)), s0 or '')
            if m and int(m.group(1)) != W:
                problems.append(f'tail starts at blocksize - blocksize % {m.group(1)} but the wide loop works on {W}-byte elements: '
                                f'bytes between (blocksize/{W})*{W} and the tail start are never processed')
                tail_desc = 'mismatch'
                break
        if not tail_ok and tail_desc != 'mismatch' and W == 2:
            # single trailing byte: store to dst[size-1] under (size srem 2) == 1, after this loop
            from .guards import Facts
            for b in f.order:
                if f.order.index(b) <= f.order.index(wl['header']):
                    continue
                for i in b.insts:
                    if i.op == 'store' and i.ops[1] in A and type_bytes(i.ty) == 1:
                        g = f.defs.get(i.ops[1])
                        idx = C.val(strip_int_casts(f, g.ops[-1])) if g is not None and g.op == 'getelementptr' else None
                        F = Facts(P, f, b)
                        guard = any(p == 'eq' and a == f'({sz} srem 2)' and bb == '1' for p, a, bb in F.facts)
                        if idx in (f'({sz} sub 1)', f'(-1 add {sz})') and guard and wl['header'] not in [x for x in f.order if False]:
                            tail_ok = True
        if not tail_ok and tail_desc != 'mismatch':
            problems.append(f'no byte tail covering blocksize % {W} trailing bytes was recognised' + (f' ({tail_desc})' if tail_desc else ''))
        if problems:
            sig = 'coverage: ' + problems[0][:90]
            if any('never processed' in p or 'expected blocksize' in p for p in problems):
                r.fail(inst, func=f.name, sig=sig, loc=wl['store'].loc, msg='; '.join(problems))
            else:
                r.undecided(inst, loc=wl['store'].loc, msg='; '.join(problems))
        else:
            r.ok(inst, func=f.name, loc=wl['store'].loc, facts={'element_bytes': W})
