"""E11 helper: constant propagation of concrete parameter values through a function's guard CFG, with loads resolved
against the constant initialisers of globals.  No library code runs: the IR is interpreted on the constant-propagation
lattice (int | pointer-into-global | fresh object | unknown); any branch on an unknown is reported as undecidable."""
import re
from .ir import INT, parse_initializer, parse_const, const_gep, const_bitcast_target
from .oblig import _eval_icmp
from .build import AnalysisBroken

class Undecidable(Exception):
    pass

class OutOfBounds(Exception):
    def __init__(self, glob, path, ins):
        self.glob, self.path, self.ins = glob, path, ins

def width_of(ty):
    m = re.match(r'i(\d+)$', ty or '')
    return int(m.group(1)) if m else 64

def wrap(v, w, signed=True):
    v &= (1 << w) - 1
    if signed and v >> (w - 1):
        v -= 1 << w
    return v

class ConstEval:
    def __init__(self, prog, mod):
        self.prog, self.mod = prog, mod
        self._inits = {}

    def init_of(self, g):
        if g not in self._inits:
            t = None
            for m in [self.mod] + self.prog.mods:
                t = m.globals.get(g)
                if t and not re.match(r'external ', t):
                    break
            if not t:
                self._inits[g] = None
            else:
                pc = parse_const(parse_initializer(t))
                self._inits[g] = pc[1] if isinstance(pc, tuple) else None
        return self._inits[g]

    def const_operand(self, o):
        if INT.match(o):
            return int(o)
        if o == 'null':
            return ('null',)
        if o in ('true', 'false'):
            return 1 if o == 'true' else 0
        if o.startswith('@'):
            return ('g', o, ())
        if o.startswith('getelementptr'):
            cg = const_gep(o)
            if cg:
                idx = [i for i in cg[2]]
                if idx and idx[0] == 0:
                    return ('g', cg[1], tuple(idx[1:]))
        if o.startswith('bitcast'):
            t = const_bitcast_target(o)
            if t:
                return self.const_operand(t)
        return None

    def load(self, ptr, ins):
        if not isinstance(ptr, tuple) or ptr[0] != 'g':
            return None
        init = self.init_of(ptr[1])
        if init is None:
            return None
        cur = init
        for n, i in enumerate(ptr[2]):
            if cur == 'zeroinitializer':
                return 0
            if not isinstance(cur, list):
                return None
            if i < 0 or i >= len(cur):
                raise OutOfBounds(ptr[1], ptr[2], ins)
            cur = cur[i]
        if isinstance(cur, int):
            return cur if ins.ty and ins.ty.startswith('i') and not ins.ty.endswith('*') else (('null',) if cur == 0 else cur)
        if isinstance(cur, str):
            v = self.const_operand(cur)
            return v
        return None

    def run(self, fn, args, stop_at=None, max_steps=20000, gmem=None, call_hook=None, objs=None):
        """interpret fn with concrete int args (None = unknown). returns dict(ret=value, events=[(kind, ins, data)], objects={})"""
        env = {}
        for (t, n), a in zip(fn.params, args):
            env[n] = a
        objects = {k_: dict(v_) for k_, v_ in (objs or {}).items()}     # caller-provided arrays: {id: {(index,): value}}; pass ('obj', id, ()) as argument
        events = []
        gmem = dict(gmem or {})
        b, prev = fn.entry, None
        steps = 0
        def val(o):
            if o in env:
                return env[o]
            return self.const_operand(o)
        while True:
            steps += 1
            if steps > max_steps:
                raise Undecidable('step limit')
            # phis first (parallel)
            newvals = {}
            for ins in b.insts:
                if ins.op != 'phi':
                    break
                for pv, pl in ins.incoming:
                    if prev is not None and pl == prev.label:
                        newvals[ins.res] = val(pv)
            env.update(newvals)
            for ins in b.insts:
                op = ins.op
                if op == 'phi':
                    continue
                if op in ('add', 'sub', 'mul', 'and', 'or', 'xor', 'shl', 'lshr', 'ashr', 'sdiv', 'srem', 'udiv', 'urem'):
                    a, c = val(ins.ops[0]), val(ins.ops[1])
                    w = width_of(ins.ty)
                    # pointer difference inside one object: (p - q) / sizeof(element), as the C front end emits it
                    if op == 'sub' and isinstance(a, tuple) and isinstance(c, tuple) and a[0] == c[0] == 'obj' and a[1] == c[1]:
                        pa, pc_ = (a[2] or (0,)), (c[2] or (0,))
                        if len(pa) == len(pc_) == 1 and isinstance(pa[0], int) and isinstance(pc_[0], int):
                            env[ins.res] = ('pdiff', pa[0] - pc_[0]); continue
                    if op in ('sdiv', 'ashr') and isinstance(a, tuple) and a[0] == 'pdiff' and isinstance(c, int) and c in (1, 2, 3, 4, 8):
                        env[ins.res] = a[1]; continue
                    if isinstance(a, int) and isinstance(c, int):
                        if op in ('sdiv', 'srem', 'udiv', 'urem') and c == 0:
                            events.append(('div0', ins, None)); env[ins.res] = None; continue
                        ua, uc = a & ((1 << w) - 1), c & ((1 << w) - 1)
                        r = {'add': a + c, 'sub': a - c, 'mul': a * c, 'and': a & c, 'or': a | c, 'xor': a ^ c,
                             'shl': a << (c % w), 'lshr': ua >> (c % w), 'ashr': a >> (c % w),
                             'sdiv': int(a / c) if c else 0, 'srem': (abs(a) % abs(c)) * (1 if a >= 0 else -1) if c else 0,
                             'udiv': ua // uc if uc else 0, 'urem': ua % uc if uc else 0}[op]
                        env[ins.res] = wrap(r, w)
                    else:
                        env[ins.res] = None
                elif op in ('sext', 'zext', 'trunc'):
                    a = val(ins.ops[0])
                    if isinstance(a, int):
                        w0, w1 = width_of(ins.optys[0]), width_of(ins.ty)
                        if op == 'zext':
                            a = a & ((1 << w0) - 1)
                        env[ins.res] = wrap(a, w1)
                    else:
                        env[ins.res] = None
                elif op in ('bitcast', 'ptrtoint', 'inttoptr'):
                    env[ins.res] = val(ins.ops[0])
                elif op == 'icmp':
                    a, c = val(ins.ops[0]), val(ins.ops[1])
                    if isinstance(a, int) and isinstance(c, int):
                        env[ins.res] = 1 if _eval_icmp(ins.pred, a, c, width_of(ins.ty)) else 0
                    elif isinstance(a, tuple) and isinstance(c, tuple) and ins.pred in ('eq', 'ne'):
                        same = (a == c)
                        if a[0] == 'null' or c[0] == 'null':
                            same = (a[0] == 'null' and c[0] == 'null')
                        env[ins.res] = 1 if (same == (ins.pred == 'eq')) else 0
                    else:
                        env[ins.res] = None
                elif op == 'select':
                    c = val(ins.ops[0])
                    if c is None:
                        a, d = val(ins.ops[1]), val(ins.ops[2])
                        env[ins.res] = a if a == d else None
                    else:
                        env[ins.res] = val(ins.ops[1]) if c else val(ins.ops[2])
                elif op == 'getelementptr':
                    base = val(ins.ops[0])
                    idx = [val(x) for x in ins.ops[1:]]
                    if isinstance(base, tuple) and base[0] == 'obj' and base[2] == () and ins.gep_base_ty == 'i8' and len(idx) == 1 \
                       and isinstance(idx[0], int):
                        env[ins.res] = ('obj', base[1], ('byte', idx[0]))      # byte view of a local scalar
                    elif isinstance(base, tuple) and base[0] in ('g', 'obj') and all(isinstance(i, int) for i in idx):
                        path = list(base[2])
                        if base[0] == 'obj' and not path and len(idx) == 1 and any(len(k_) == 1 and isinstance(k_[0], int) for k_ in objects.get(base[1], {})):
                            path = [0]                 # pointer to the first element of a caller-provided array
                        if idx[0] != 0:
                            if path:
                                path[-1] += idx[0]
                            else:
                                path = None
                        if path is not None:
                            env[ins.res] = (base[0], base[1], tuple(path + idx[1:]))
                        else:
                            env[ins.res] = None
                    else:
                        env[ins.res] = None
                elif op == 'load':
                    p = val(ins.ops[0])
                    if isinstance(p, tuple) and p[0] == 'g' and p[2] == () and p[1] in gmem:
                        env[ins.res] = gmem[p[1]]
                        continue
                    if isinstance(p, tuple) and p[0] == 'g' and (p[1], p[2]) in gmem:
                        env[ins.res] = gmem[(p[1], p[2])]          # a member of a global aggregate given by the caller
                        continue
                    if isinstance(p, tuple) and p[0] == 'obj' and len(p[2]) == 2 and p[2][0] == 'byte':
                        whole = objects.get(p[1], {}).get(())
                        if isinstance(whole, int) and ins.ty == 'i8' and 0 <= p[2][1] < 8:
                            env[ins.res] = wrap((whole >> (8 * p[2][1])) & 0xff, 8)
                        else:
                            events.append(('oob', ins, (p[1], p[2]))); env[ins.res] = None
                    elif isinstance(p, tuple) and p[0] == 'obj':
                        o_ = objects.get(p[1], {})
                        env[ins.res] = o_.get(p[2], o_.get((0,)) if p[2] == () else None)
                    elif isinstance(p, tuple) and p[0] == 'null':
                        events.append(('null-deref', ins, None)); env[ins.res] = None
                    else:
                        try:
                            env[ins.res] = self.load(p, ins)
                        except OutOfBounds as e:
                            events.append(('oob', ins, (e.glob, e.path)))
                            env[ins.res] = None
                elif op == 'store':
                    p = val(ins.ops[1])
                    if isinstance(p, tuple) and p[0] == 'g' and p[2] == ():
                        gmem[p[1]] = val(ins.ops[0])
                    elif isinstance(p, tuple) and p[0] == 'g' and (p[1], p[2]) in gmem:
                        gmem[(p[1], p[2])] = val(ins.ops[0])
                    if isinstance(p, tuple) and p[0] == 'obj':
                        o_ = objects.setdefault(p[1], {})
                        o_[(0,) if p[2] == () and (0,) in o_ else p[2]] = val(ins.ops[0])
                    events.append(('store', ins, (p, val(ins.ops[0]))))
                elif op == 'call':
                    if stop_at and ins.callee in stop_at:
                        events.append(('stop', ins, [val(o) for o in ins.ops], {k_: dict(v_) for k_, v_ in objects.items()}))
                    if ins.callee in ('@malloc', '@calloc'):
                        oid = f'obj{len(objects)}'
                        objects[oid] = {}
                        env[ins.res] = ('obj', oid, ())
                        events.append(('alloc', ins, oid))
                    else:
                        events.append(('call', ins, [val(o) for o in ins.ops]))
                        if ins.res:
                            env[ins.res] = call_hook(ins, [val(o) for o in ins.ops]) if call_hook else None
                elif op == 'alloca':
                    oid = f'loc{len(objects)}'
                    objects[oid] = {}
                    env[ins.res] = ('obj', oid, ())
                elif op in ('br', 'switch', 'ret', 'unreachable'):
                    pass
                else:
                    raise AnalysisBroken('consteval: unsupported ' + ins.text[:80])
            t = b.insts[-1]
            if t.op == 'ret':
                return {'ret': val(t.ops[0]) if t.ops else None, 'events': events, 'objects': objects, 'gmem': gmem}
            if t.op == 'unreachable':
                return {'ret': 'unreachable', 'events': events, 'objects': objects}
            if t.op == 'br':
                if len(t.targets) == 2 and t.ops:
                    c = val(t.ops[0])
                    if c is None:
                        raise Undecidable(f'branch on unknown at {t.loc}')
                    nb = fn.blocks[t.targets[0] if c else t.targets[1]]
                else:
                    nb = fn.blocks[t.targets[0]]
            elif t.op == 'switch':
                c = val(t.ops[0])
                if not isinstance(c, int):
                    raise Undecidable(f'switch on unknown at {t.loc}')
                hit = [l for cv, l in t.cases if cv == c]
                nb = fn.blocks[hit[0] if hit else t.targets[0]]
            prev, b = b, nb
