"""E10 path-condition obligations for loop-free decision functions: enumerate acyclic paths, record (atom, truth)
sequences and the returned value.  Atoms are canonical comparison triples.

v2: decisions are *consistent* along a path (a condition value decided once is not explored both ways again), compound
conditions (or / and / logical selects / xor true) are decomposed into their atomic comparisons with short-circuit case
splits, `select` instructions are resolved per path, conditions whose operands are constants on the path are evaluated,
and boolean return values (zext/sext of a condition, selects) are split into their outcomes.  This makes the obligations
independent of whether a test is written as nested ifs, `a || b`, a status flag, a conditional expression or a switch."""
from .vflow import Canon, byte_extent, may_overlap
from .guards import NEG, involution_form
from .ir import INT
from .build import AnalysisBroken

SWAPPED = {'slt': 'sgt', 'sgt': 'slt', 'sle': 'sge', 'sge': 'sle', 'ult': 'ugt', 'ugt': 'ult', 'ule': 'uge', 'uge': 'ule', 'eq': 'eq', 'ne': 'ne'}

class Atom:
    __slots__ = ('pred', 'a', 'b', 'width', 'ins', 'raw')
    def __init__(self, pred, a, b, width, ins, raw):
        self.pred, self.a, self.b, self.width, self.ins, self.raw = pred, a, b, width, ins, raw
    def __repr__(self):
        return f'({self.a} {self.pred}.{self.width} {self.b})'

class Path:
    def __init__(self, conds, ret, blocks, env, events):
        self.conds, self.ret, self.blocks, self.env, self.events = conds, ret, blocks, env, events
    def truths(self):
        out = []
        for at, tv in self.conds:
            if isinstance(at, Atom):
                pred, a, b = at.pred if tv else NEG[at.pred], at.a, at.b
                # constants (and null) on the right-hand side, whichever way the source wrote the comparison
                if (INT.match(a) or a == 'null') and not (INT.match(b) or b == 'null'):
                    a, b, pred = b, a, SWAPPED[pred]
                pred, a, b = involution_form(pred, a, b)
                out.append((pred, a, b, at.width, at.ins))
        return out
    def __repr__(self):
        return f'<path ret={self.ret} ' + ' '.join(f'{"" if t else "!"}{a}' for a, t in self.conds) + '>'

def _eval(pred, a, b, w=32):
    if pred[0] == 'u':
        a &= (1 << w) - 1; b &= (1 << w) - 1
    return {'eq': a == b, 'ne': a != b, 'slt': a < b, 'sle': a <= b, 'sgt': a > b, 'sge': a >= b,
            'ult': a < b, 'ule': a <= b, 'ugt': a > b, 'uge': a >= b}[pred]

def enumerate_paths(prog, fn, limit=20000, split_returns=True, split_stores=True):
    C = Canon(prog, fn)
    out = []

    class State:
        __slots__ = ('env', 'conds', 'decided')
        def __init__(self, env, conds, decided):
            self.env, self.conds, self.decided = env, conds, decided
        def fork(self):
            return State(dict(self.env), list(self.conds), dict(self.decided))

    def decide(v, st, k):
        """decide the i1 value v on state st; calls k(state, truth) for every consistent outcome"""
        if v in ('true', 'false'):
            return k(st, v == 'true')
        if v in st.env and st.env[v] in ('true', 'false'):
            return k(st, st.env[v] == 'true')
        if v in st.decided:
            return k(st, st.decided[v])
        d = fn.defs.get(v)
        def record(s2, t):
            s2.decided[v] = t
            return k(s2, t)
        if d is None:
            # a parameter of type i1
            for t in (True, False):
                s2 = st.fork(); s2.conds.append((C.val(v, st.env), t)); record(s2, t)
            return
        if d.op == 'xor' and 'true' in d.ops:
            other = d.ops[0] if d.ops[1] == 'true' else d.ops[1]
            return decide(other, st, lambda s2, t: record(s2, not t))
        if d.op in ('trunc', 'zext', 'sext') and fn.defs.get(d.ops[0]) is not None and (d.optys[0] == 'i1' or d.ty == 'i1'):
            return decide(d.ops[0], st, record)
        if d.op == 'or' and d.ty == 'i1':
            a, b = d.ops
            return decide(a, st, lambda s2, ta: record(s2, True) if ta else decide(b, s2, record))
        if d.op == 'and' and d.ty == 'i1':
            a, b = d.ops
            return decide(a, st, lambda s2, ta: decide(b, s2, record) if ta else record(s2, False))
        if d.op == 'select' and d.ty == 'i1':
            c, a, b = d.ops
            return decide(c, st, lambda s2, tc: decide(a if tc else b, s2, record))
        if d.op == 'phi' and d.ty == 'i1' and not str(st.env.get(v, '')).startswith('loop%'):
            r = st.env.get(v)
            if r in ('true', 'false'):
                return record(st, r == 'true')
            src = st.env.get(('phisrc', v))
            if src is not None:
                return decide(src, st, record)
        if d.op == 'icmp':
            a, b = C.val(d.ops[0], st.env), C.val(d.ops[1], st.env)
            if d.pred in ('eq', 'ne') and (INT.match(a) != INT.match(b)):
                # (int)cond compared with a constant: a status flag / boolean helper result - decide the condition itself
                o, kc = (d.ops[0], int(b)) if INT.match(b) else (d.ops[1], int(a))
                bs = bool_source(o, st)
                if bs is not None:
                    return decide(bs[0], st, lambda s2, t, one=bs[1], kc=kc: record(s2, _eval(d.pred, one if t else 0, kc)))
            if INT.match(a) and INT.match(b):
                w = int(d.ty[1:]) if d.ty and d.ty[1:].isdigit() else 64
                return record(st, _eval(d.pred, int(a), int(b), w))
            if a == b and not a.startswith('@') :
                # same expression on both sides
                return record(st, d.pred in ('eq', 'sle', 'sge', 'ule', 'uge'))
            at = Atom(d.pred, a, b, d.ty, d, f'({a} {d.pred} {b})')
            # an identical comparison decided earlier on this path
            key = ('atom', d.pred, a, b)
            if key in st.decided:
                return record(st, st.decided[key])
            for t in (True, False):
                s2 = st.fork(); s2.conds.append((at, t)); s2.decided[key] = t
                s2.decided[('atom', NEG[d.pred], a, b)] = not t
                record(s2, t)
            return
        if d.op == 'call':
            e = C.val(v, st.env)
            at = Atom('ne', e, '0', 'i1', d, e)
            for t in (True, False):
                s2 = st.fork(); s2.conds.append((at, t)); record(s2, t)
            return
        e = C.val(v, st.env)
        for t in (True, False):
            s2 = st.fork(); s2.conds.append((e, t)); record(s2, t)

    def resolve_selects(b, st, i, k):
        """resolve non-boolean selects of block b from instruction index i on; k(state)"""
        insts = b.insts
        while i < len(insts):
            ins = insts[i]
            if ins.op == 'select' and ins.ty != 'i1':
                c, x, y = ins.ops
                idx = i
                def cont(s2, t, ins=ins, x=x, y=y, idx=idx):
                    s2.env[ins.res] = C.val(x if t else y, s2.env)
                    ch = x if t else y
                    if ch not in ('true', 'false') and not INT.match(ch):
                        s2.env[('phisrc', ins.res)] = ch
                    resolve_selects(b, s2, idx + 1, k)
                return decide(c, st, cont)
            i += 1
        return k(st)

    def bool_source(v, st, depth=0):
        """if integer value v is, on this path, the extension of an i1: (i1 operand, value when true), else None"""
        d = fn.defs.get(v)
        if d is None or depth > 6:
            return None
        if d.op in ('zext', 'sext') and d.optys and d.optys[0] == 'i1':
            return d.ops[0], (1 if d.op == 'zext' else -1)
        if d.op in ('zext', 'sext', 'trunc'):
            return bool_source(d.ops[0], st, depth + 1)
        if d.op == 'phi' or (d.op == 'select' and d.ty != 'i1'):
            src = st.env.get(('phisrc', v))
            if src is not None and not str(st.env.get(v, '')).startswith('loop%'):
                return bool_source(src, st, depth + 1)
        return None

    def resolve_bools(b, st, i, k):
        """values stored in block b that are extensions of a condition are split into their two outcomes; k(state)"""
        insts = b.insts
        while i < len(insts):
            ins = insts[i]
            if ins.op == 'store' and ins.ops[0] not in st.env:
                bs = bool_source(ins.ops[0], st)
                if bs is not None:
                    idx = i
                    def cont(s2, t, ins=ins, bs=bs, idx=idx):
                        s2.env[ins.ops[0]] = str(bs[1]) if t else '0'
                        resolve_bools(b, s2, idx + 1, k)
                    return decide(bs[0], st, cont)
            i += 1
        return k(st)

    def walk(b, prev, st, visited, blocks, events):
        if len(out) > limit:
            raise AnalysisBroken(f'{fn.name}: too many paths for obligation checking')
        st = st.fork()
        if b in blocks:
            # re-entering a loop: values computed in the cycle change, so their earlier decisions do not carry over
            cyc = set(blocks[blocks.index(b):])
            for key in list(st.decided):
                if isinstance(key, tuple):
                    del st.decided[key]
                else:
                    d = fn.defs.get(key)
                    if d is not None and d.bb in cyc:
                        del st.decided[key]
        newenv = {}
        reenter = b in blocks
        for ins in b.insts:
            if ins.op == 'phi' and prev is not None:
                for v, lab in ins.incoming:
                    if lab == prev.label:
                        if reenter:
                            # second arrival at a loop header: the loop-carried values are arbitrary from here on (havoc);
                            # the in-loop edges are already used up, so the path continues with the loop's exit
                            newenv[ins.res] = f'loop{ins.res}'
                            newenv.pop(('phisrc', ins.res), None); st.env.pop(('phisrc', ins.res), None)
                        else:
                            newenv[ins.res] = C.val(v, st.env)
                            if v not in ('true', 'false') and not INT.match(v):
                                newenv[('phisrc', ins.res)] = v
        st.env.update(newenv)
        # memory along the path: a load that follows a store to the same address, with no other store or call in between,
        # yields the stored value (`if (w <= 0) args->w = 8; desc->w = args->w;` stores 8 on that path, whatever the merge
        # block looks like).  Only the most recent store is remembered; any other store or call forgets it.
        for ins in b.insts:
            if ins.op == 'store':
                # a store forgets what was remembered about memory it may overlap (another member of the same object, or memory
                # of a different object allocated here, is left alone)
                ext = byte_extent(prog, fn, ins.ops[1], ins.ty)
                for key in [k_ for k_ in st.env if isinstance(k_, tuple) and k_[0] == 'mem']:
                    if may_overlap(fn, ext, st.env[key][2] if len(st.env[key]) > 2 else None):
                        del st.env[key]
                st.env[('mem', C.val(ins.ops[1], st.env))] = (ins.ops[0], ins.ty, ext)
            elif ins.op == 'call' and (ins.callee or '').startswith(('@llvm.memset', '@llvm.memcpy', '@llvm.memmove')):
                # writes its destination only: [dest, dest + length) when the length is a constant, the whole object otherwise
                ext = byte_extent(prog, fn, ins.ops[0], 'i8')
                if ext is not None:
                    ext = (ext[0], ext[1], int(ins.ops[2])) if INT.match(ins.ops[2]) else (ext[0], 0, 1 << 40)
                for key in [k_ for k_ in st.env if isinstance(k_, tuple) and k_[0] == 'mem']:
                    if may_overlap(fn, ext, st.env[key][2] if len(st.env[key]) > 2 else None):
                        del st.env[key]
            elif ins.op == 'call' and not (ins.callee or '').startswith('@llvm.dbg'):
                for key in [k_ for k_ in st.env if isinstance(k_, tuple) and k_[0] == 'mem']:
                    del st.env[key]
            elif ins.op == 'load':
                hit = st.env.get(('mem', C.val(ins.ops[0], st.env)))
                if hit is not None and hit[1] == ins.ty:
                    st.env[ins.res] = C.val(hit[0], st.env)
                    if hit[0] not in ('true', 'false') and not INT.match(hit[0]):
                        st.env[('phisrc', ins.res)] = hit[0]
        blocks = blocks + [b]
        def after_selects(s2):
            ev = list(events) + [i for i in b.insts if i.op in ('call', 'store')]
            t = b.insts[-1]
            if t.op == 'ret':
                if not t.ops:
                    out.append(Path(s2.conds, 'void', blocks, s2.env, ev)); return
                rv = t.ops[0]
                bs = bool_source(rv, s2) if split_returns and not INT.match(C.val(rv, s2.env)) else None
                if bs is not None:
                    one = str(bs[1])
                    return decide(bs[0], s2, lambda s3, tt: out.append(Path(s3.conds, one if tt else '0', blocks, s3.env, ev)))
                out.append(Path(s2.conds, C.val(rv, s2.env), blocks, s2.env, ev)); return
            if t.op == 'unreachable':
                return
            if t.op == 'br' and len(t.targets) == 2 and t.ops:
                def go(s3, tt):
                    nb = fn.blocks[t.targets[0] if tt else t.targets[1]]
                    if (b, nb) in visited:
                        return
                    walk(nb, b, s3, visited | {(b, nb)}, blocks, ev)
                return decide(t.ops[0], s2, go)
            if t.op == 'switch':
                scrut = C.val(t.ops[0], s2.env)
                if INT.match(scrut):
                    hit = [l for cv, l in t.cases if cv == int(scrut)]
                    nb = fn.blocks[hit[0] if hit else t.targets[0]]
                    return walk(nb, b, s2, visited | {(b, nb)}, blocks, ev)
                for val, lab in t.cases:
                    nb = fn.blocks[lab]
                    s3 = s2.fork(); s3.conds.append((Atom('eq', scrut, str(val), t.ty, t, scrut), True))
                    walk(nb, b, s3, visited | {(b, nb)}, blocks, ev)
                nb = fn.blocks[t.targets[0]]
                s3 = s2.fork()
                for val, _ in t.cases:
                    s3.conds.append((Atom('eq', scrut, str(val), t.ty, t, scrut), False))
                return walk(nb, b, s3, visited | {(b, nb)}, blocks, ev)
            for lab in t.targets:
                nb = fn.blocks[lab]
                if (b, nb) in visited:
                    continue
                walk(nb, b, s2, visited | {(b, nb)}, blocks, ev)
        resolve_selects(b, st, 0, (lambda s2: resolve_bools(b, s2, 0, after_selects)) if split_stores else after_selects)

    walk(fn.entry, None, State({}, [], {}), frozenset(), [], [])
    return out
