"""E10 path-condition obligations for loop-free decision functions: enumerate acyclic paths, record
(atom, truth) sequences and the returned value.  Atoms are canonical comparison triples."""
from .vflow import Canon
from .guards import NEG
from .build import AnalysisBroken

class Atom:
    __slots__ = ('pred', 'a', 'b', 'width', 'ins', 'raw')
    def __init__(self, pred, a, b, width, ins, raw):
        self.pred, self.a, self.b, self.width, self.ins, self.raw = pred, a, b, width, ins, raw
    def __repr__(self):
        return f'({self.a} {self.pred}.{self.width} {self.b})'

class Path:
    def __init__(self, conds, ret, blocks, env, events):
        self.conds, self.ret, self.blocks, self.env, self.events = conds, ret, blocks, env, events
    def truths(self):
        """normalised list of (pred, a, b, width, ins): every element holds on this path"""
        out = []
        for at, tv in self.conds:
            if isinstance(at, Atom):
                out.append((at.pred if tv else NEG[at.pred], at.a, at.b, at.width, at.ins))
        return out
    def __repr__(self):
        return f'<path ret={self.ret} ' + ' '.join(f'{"" if t else "!"}{a}' for a, t in self.conds) + '>'

def enumerate_paths(prog, fn, limit=20000):
    C = Canon(prog, fn)
    out = []
    def atom_of(v, env):
        d = fn.defs.get(v)
        if d is not None and d.op == 'icmp':
            w = d.ty
            return Atom(d.pred, C.val(d.ops[0], env), C.val(d.ops[1], env), w, d, C.val(v, env))
        if d is not None and d.op == 'xor' and 'true' in d.ops:
            other = d.ops[0] if d.ops[1] == 'true' else d.ops[1]
            a = atom_of(other, env)
            if isinstance(a, Atom):
                return Atom(NEG[a.pred], a.a, a.b, a.width, a.ins, a.raw)
        if d is not None and d.op in ('trunc', 'zext'):
            return atom_of(d.ops[0], env)
        if d is not None and d.op == 'call':
            return Atom('ne', C.val(v, env), '0', 'i1', d, C.val(v, env))
        return C.val(v, env)
    def walk(b, prev, env, conds, visited, blocks, events):
        if len(out) > limit:
            raise AnalysisBroken(f'{fn.name}: too many paths for obligation checking')
        env = dict(env)
        for ins in b.insts:
            if ins.op == 'phi' and prev is not None:
                for v, lab in ins.incoming:
                    if lab == prev.label:
                        env[ins.res] = C.val(v, env)
        ev = list(events)
        for ins in b.insts:
            if ins.op in ('call', 'store'):
                ev.append(ins)
        t = b.insts[-1]
        blocks = blocks + [b]
        if t.op == 'ret':
            out.append(Path(conds, C.val(t.ops[0], env) if t.ops else 'void', blocks, env, ev)); return
        if t.op == 'unreachable':
            return
        if t.op == 'br' and len(t.targets) == 2 and t.ops:
            at = atom_of(t.ops[0], env)
            for tv, lab in ((True, t.targets[0]), (False, t.targets[1])):
                nb = fn.blocks[lab]
                if (b, nb) in visited:
                    continue
                walk(nb, b, env, conds + [(at, tv)], visited | {(b, nb)}, blocks, ev)
        elif t.op == 'switch':
            scrut = C.val(t.ops[0], env)
            for val, lab in t.cases:
                nb = fn.blocks[lab]
                walk(nb, b, env, conds + [(Atom('eq', scrut, str(val), t.ty, t, scrut), True)], visited | {(b, nb)}, blocks, ev)
            nb = fn.blocks[t.targets[0]]
            dconds = conds + [(Atom('eq', scrut, str(val), t.ty, t, scrut), False) for val, _ in t.cases]
            walk(nb, b, env, dconds, visited | {(b, nb)}, blocks, ev)
        else:
            for lab in t.targets:
                nb = fn.blocks[lab]
                if (b, nb) in visited:
                    continue
                walk(nb, b, env, conds, visited | {(b, nb)}, blocks, ev)
    walk(fn.entry, None, {}, [], frozenset(), [], [])
    return out
