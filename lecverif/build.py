"""E1 build capture: per-unit compile commands from the generated Makefiles of the tree under analysis.

No `make -n` (it re-runs configure in the tree).  The automake compile rule for a libtool target with
per-target CPPFLAGS is
    $(CC) $(DEFS) $(DEFAULT_INCLUDES) $(INCLUDES) $(<lib>_la_CPPFLAGS) $(CPPFLAGS) $(AM_CFLAGS) $(CFLAGS)
and that is what is reproduced here from the variables of each directory's Makefile.
"""
import os, re, shlex, subprocess, tempfile, shutil, atexit
from concurrent.futures import ThreadPoolExecutor

class AnalysisBroken(Exception):
    """exit 2: the question cannot be asked (anchor vanished, unparsable input, tool failure)"""

MAKEDIRS = ['src', 'src/builtin/xor_codes', 'src/builtin/null_code', 'src/builtin/rs_vand']

def _read_make_vars(path):
    if not os.path.exists(path):
        raise AnalysisBroken(f'missing {path} (tree not configured)')
    vars_ = {}
    text = open(path).read().replace('\\\n', ' ')
    for ln in text.split('\n'):
        m = re.match(r'([A-Za-z_][\w]*)\s*[:+]?=\s*(.*)$', ln)
        if m and not ln.startswith('\t'):
            if '+=' in ln.split('=')[0] + '=':
                vars_[m.group(1)] = vars_.get(m.group(1), '') + ' ' + m.group(2)
            else:
                vars_[m.group(1)] = m.group(2)
    return vars_

def _expand(s, vars_, depth=0):
    if depth > 20:
        return s
    def rep(m):
        return _expand(vars_.get(m.group(1), ''), vars_, depth + 1)
    return re.sub(r'\$[({](\w+)[)}]', rep, s)

def unit_commands(root='/repo'):
    """-> list of dict(unit=relative source path, lib=target, dir=abs dir, flags=[...])"""
    root = os.path.abspath(root)
    if not os.path.exists(os.path.join(root, 'include', 'config_liberasurecode.h')) and \
       not os.path.exists(os.path.join(root, 'config.h')) and not os.path.exists(os.path.join(root, 'include', 'config.h')):
        # HAVE_CONFIG_H is defined but the library sources do not include config.h; tolerate its absence
        pass
    out = []
    for d in MAKEDIRS:
        mk = os.path.join(root, d, 'Makefile')
        v = _read_make_vars(mk)
        orig_root = v.get('abs_top_srcdir', root).strip()
        libs = _expand(v.get('lib_LTLIBRARIES', ''), v).split()
        if not libs:
            raise AnalysisBroken(f'{mk}: no lib_LTLIBRARIES')
        for lib in libs:
            stem = re.sub(r'\W', '_', lib)
            srcs = _expand(v.get(stem + '_SOURCES', ''), v).split()
            if not srcs:
                raise AnalysisBroken(f'{mk}: no sources for {lib}')
            flagstr = ' '.join(_expand(v.get(n, ''), v) for n in
                               ('DEFS', 'DEFAULT_INCLUDES', 'INCLUDES', stem + '_CPPFLAGS', 'CPPFLAGS', 'AM_CFLAGS', 'CFLAGS'))
            flags = shlex.split(flagstr)
            # a scratch copy configured in /repo bakes /repo's absolute include paths: retarget them
            if os.path.abspath(orig_root) != root:
                flags = [f.replace('-I' + orig_root, '-I' + root) if f.startswith('-I' + orig_root) else f for f in flags]
            for s in srcs:
                if not s.endswith('.c'):
                    continue
                out.append({'unit': os.path.normpath(os.path.join(d, s)), 'lib': lib, 'root': root,
                            'dir': os.path.join(root, d), 'flags': flags})
    return out

_DROP = re.compile(r'^(-O\d?|-Os|-g\d?|-Werror.*|-Wall|-Wstrict-prototypes|-pedantic|-Wno-error|-L.*|-fPIC)$')

def analysis_flags(flags, flavour='configured'):
    fl = [f for f in flags if not _DROP.match(f)]
    if flavour in ('portable', 'portable-ndebug'):
        fl = [f for f in fl if not re.match(r'^-m(mmx|sse.*|ssse3|avx.*)$', f) and not re.match(r'^-DINTEL_', f)]
    if flavour in ('ndebug', 'portable-ndebug'):
        fl = fl + ['-DNDEBUG']
    else:
        fl = fl + ['-UNDEBUG']
    return fl

_scratch_dirs = []
def scratch_dir(prefix='lecverif-'):
    base = os.environ.get('LECVERIF_SCRATCH') or ('/dev/shm' if os.path.isdir('/dev/shm') and os.access('/dev/shm', os.W_OK) else tempfile.gettempdir())
    d = tempfile.mkdtemp(prefix=prefix, dir=base)
    _scratch_dirs.append(d)
    return d

@atexit.register
def _cleanup():
    for d in _scratch_dirs:
        shutil.rmtree(d, ignore_errors=True)

def compile_ir(cmd, outdir, flavour='configured', extra=()):
    src = os.path.join(cmd['root'], cmd['unit'])
    out = os.path.join(outdir, re.sub(r'\W', '_', cmd['lib'] + '__' + cmd['unit']) + '.' + flavour + '.ll')
    args = ['clang-14', *analysis_flags(cmd['flags'], flavour), *extra, '-w', '-O0', '-Xclang', '-disable-O0-optnone',
            '-g', '-S', '-emit-llvm', src, '-o', '-']
    p1 = subprocess.run(args, capture_output=True, text=True, cwd=cmd['dir'])
    if p1.returncode != 0:
        raise AnalysisBroken(f'clang failed on {cmd["unit"]} [{flavour}]:\n{p1.stderr[-2000:]}')
    passes = os.environ.get('LECVERIF_PASSES', NORMALISE)
    p2 = subprocess.run(['opt-14', '-S', '-passes=' + passes, '-o', '-'], input=p1.stdout, text=True, capture_output=True)
    if p2.returncode != 0:
        raise AnalysisBroken(f'opt failed on {cmd["unit"]}: {p2.stderr[-2000:]}')
    text, renamed = recover_renamed_statics(p2.stdout, cmd['unit'])
    text = normalise_new_helpers(text, cmd['unit'])
    if renamed:
        text += ''.join(f'\n; lecverif: file-local function {g} stands for {f_} of the reference tree (same signature, same referrers)' for g, f_ in sorted(renamed.items())) + '\n'
    text2 = fold_bool_indexed_pairs(fold_select_compares(fold_const_table_loads(split_struct_allocas(text))))
    if text2 is not text:
        p3 = subprocess.run(['opt-14', '-S', '-passes=' + passes, '-o', '-'], input=text2, text=True, capture_output=True)
        if p3.returncode != 0:
            raise AnalysisBroken(f'opt failed on {cmd["unit"]} after folding status selects: {p3.stderr[-2000:]}')
        text = p3.stdout
    with open(out, 'w') as fh:
        fh.write(text)
    return out

# normalisation applied to every unit before any rule looks at it: SSA construction, trivial simplification, common
# subexpression / redundant load elimination, threading of branches over phi-of-constants (status variables, merged error
# exits) and CFG clean-up (if-chains on one value become a switch, two-armed diamonds become selects).  Behaviour-preserving
# rewrites of the source converge on the same shape; nothing is inlined except helpers that are new w.r.t. the reference tree.
# a local array walked by an unrolled loop (`const void *lists[3] = {a, b, c}; for (i = 0; i < 3; i++) if (!lists[i]) ...`) is
# indexed by constants afterwards: a second sroa promotes it
_AFTER_UNROLL = 'sroa,' if os.environ.get('LECVERIF_SROA2', '1') != '0' else ''
NORMALISE = ('function(sroa,mem2reg,instsimplify,early-cse,'
             # loops with a constant trip count of at most 6 (a walk over a two-entry table of function pointers, ...) are unrolled
             'loop-simplify,loop-unroll<O2;full-unroll-max=6;no-partial;no-runtime;no-peeling;no-upperbound>,' + _AFTER_UNROLL + 'instsimplify,early-cse,'
             'jump-threading,simplifycfg,instsimplify,simplifycfg)')

def _split_top(sx):
    out, depth, tok = [], 0, ''
    for ch in sx:
        if ch == ',' and depth == 0:
            out.append(tok.strip()); tok = ''
        else:
            depth += ch in '({[<'; depth -= ch in ')}]>'
            tok += ch
    if tok.strip():
        out.append(tok.strip())
    return out

def _layout(ty, structs, depth=0):
    """(size, alignment) of an IR type under the x86-64 data layout; None when unknown"""
    ty = ty.strip()
    if ty.endswith('*'):
        return 8, 8
    m = re.match(r'i(\d+)$', ty)
    if m:
        b = max(1, (int(m.group(1)) + 7) // 8)
        a = 1
        while a < b and a < 8:
            a *= 2
        return b, a
    if ty in ('float',):
        return 4, 4
    if ty in ('double',):
        return 8, 8
    m = re.match(r'\[(\d+) x (.*)\]$', ty)
    if m:
        e = _layout(m.group(2), structs, depth + 1)
        return (int(m.group(1)) * e[0], e[1]) if e else None
    if ty in structs and depth < 6:
        packed = ty in structs.get('__packed__', ())
        off, al = 0, 1
        for f in structs[ty]:
            e = _layout(f, structs, depth + 1)
            if e is None:
                return None
            fa = 1 if packed else e[1]
            off = (off + fa - 1) // fa * fa + e[0]
            al = max(al, fa)
        return (off + al - 1) // al * al, al
    return None

def split_struct_allocas(text):
    """a local struct whose members are only ever reached through their own member access (plus an all-zero initialisation)
    is a bundle of independent locals, even when the address of one member is handed to a callee - LLVM's sroa gives up on the
    whole aggregate as soon as any derived pointer escapes.  Such an alloca is split into one alloca per member here, so that
    `struct scratch s = {0}; f(&s.bm); ... s.data ...` reaches the rules as the scalar locals it stands for.  The aggregate
    is left alone when it is used as a whole anywhere (passed, copied, returned).  Returns `text` itself when nothing matched."""
    structs = {}
    for m in re.finditer(r'^(%struct\.[\w.]+) = type \{(.*)\}\s*$', text, re.M):
        structs[m.group(1)] = _split_top(m.group(2))
    lines = text.split('\n')
    changed = False
    start = None
    n = 0
    while n < len(lines):
        ln = lines[n]
        if ln.startswith('define '):
            start = n
        elif ln == '}' and start is not None:
            body = range(start + 1, n)
            renumber = False
            for k in list(body):
                am = re.match(r'(\s*)(%[\w.]+) = alloca (%struct\.[\w.]+), align (\d+)\s*$', lines[k])
                if not am or am.group(3) not in structs:
                    continue
                ind, a, sty = am.group(1), am.group(2), am.group(3)
                fields = structs[sty]
                lay = _layout(sty, structs)
                flay = [_layout(f, structs) for f in fields]
                if lay is None or any(x is None for x in flay) or not fields:
                    continue
                tok = re.compile(r'(?<![\w.])' + re.escape(a) + r'(?![\w.])')
                uses = [j for j in body if j != k and tok.search(lines[j])]
                plan, ok, casts = {}, True, {}
                for j in uses:
                    u = lines[j]
                    g = re.match(r'\s*(%[\w.]+) = getelementptr inbounds ' + re.escape(sty) + r', ' + re.escape(sty) + r'\* ' + re.escape(a) + r', i32 0, i32 (\d+)((?:, i\d+ [^,]+)*)(, !dbg !\d+)?\s*$', u)
                    if g and int(g.group(2)) < len(fields):
                        plan[j] = ('gep', g.group(1), int(g.group(2)), g.group(3) or '', g.group(4) or '')
                        continue
                    c = re.match(r'\s*(%[\w.]+) = bitcast ' + re.escape(sty) + r'\* ' + re.escape(a) + r' to i8\*(, !dbg !\d+)?\s*$', u)
                    if c:
                        casts[c.group(1)] = j
                        plan[j] = ('drop',)
                        continue
                    if re.match(r'\s*call void @llvm\.dbg\.(declare|value)\(', u):
                        plan[j] = ('drop',)
                        continue
                    ok = False
                    break
                if not ok:
                    continue
                for cv, cj in casts.items():
                    ctok = re.compile(r'(?<![\w.])' + re.escape(cv) + r'(?![\w.])')
                    for j in body:
                        if j != cj and ctok.search(lines[j]):
                            ms = re.match(r'(\s*)call void @llvm\.memset\.p0i8\.i64\(i8\* (?:noundef )?(?:nonnull )?(?:align \d+ )?' + re.escape(cv) + r', i8 0, i64 (\d+), i1 false\)(, !dbg !\d+)?\s*$', lines[j])
                            if ms and int(ms.group(2)) == lay[0]:
                                plan[j] = ('zero', ms.group(1), ms.group(3) or '')
                            elif re.match(r'\s*call void @llvm\.lifetime\.', lines[j]):
                                plan[j] = ('drop',)
                            else:
                                ok = False
                if not ok:
                    continue
                # apply
                fname = lambda i: f'%agg.{a[1:]}.m{i}'
                renames = {}
                for j, act in plan.items():
                    if act[0] == 'drop':
                        lines[j] = ''
                    elif act[0] == 'zero':
                        lines[j] = '\n'.join(f'{act[1]}store {f} zeroinitializer, {f}* {fname(i)}, align {flay[i][1]}{act[2]}' for i, f in enumerate(fields))
                    elif act[0] == 'gep':
                        _, res, idx, rest, dbg = act
                        if rest:
                            lines[j] = f'{ind}{res} = getelementptr inbounds {fields[idx]}, {fields[idx]}* {fname(idx)}, i32 0{rest}{dbg}'
                        else:
                            lines[j] = ''
                            renames[res] = fname(idx)
                lines[k] = '\n'.join(f'{ind}{fname(i)} = alloca {f}, align {flay[i][1]}' for i, f in enumerate(fields))
                renumber = True
                for res, new in renames.items():
                    rt = re.compile(r'(?<![\w.])' + re.escape(res) + r'(?![\w.])')
                    for j in body:
                        if lines[j] and rt.search(lines[j]):
                            lines[j] = rt.sub(new, lines[j])
                changed = True
            if renumber:
                # removed instructions leave holes in the numbering of unnamed values: give every numbered value and block a name
                nparams = len(re.findall(r'(?<![\w.$"!#])%\d+(?![\w.])', lines[start]))
                lines[start] = lines[start] + f'\n{nparams}:'          # the entry block's implicit number, made explicit
                for j in range(start, n):
                    if lines[j]:
                        lines[j] = re.sub(r'(?<![\w.$"!#])%(\d+)(?![\w.])', r'%v\1', lines[j])
                        lines[j] = re.sub(r'(?m)^(\d+):', r'v\1:', lines[j])
            start = None
        n += 1
    return '\n'.join(lines) if changed else text

def fold_const_table_loads(text):
    """`static const int code[] = {...}; return code[verdict];` with `verdict` chosen among a few enumerators on the paths of the
    function is the table-driven way of writing `return cond ? A : B`.  Where the index of a load from a constant integer array is
    (a merge / conditional expression of) integer constants, the load is replaced by the same merge of the looked-up elements, so
    that rules which follow returned constants see them.  Returns `text` itself when nothing matched."""
    tables = {}
    for m in re.finditer(r'^(@[\w.$]+) = (?:internal |private |dso_local )*(?:unnamed_addr )?constant \[(\d+) x (i\d+)\] (\[.*\]|zeroinitializer)(?:, align \d+)?(?:, !dbg !\d+)?\s*$', text, re.M):
        name, n, ety, init = m.group(1), int(m.group(2)), m.group(3), m.group(4)
        if init == 'zeroinitializer':
            vals = [0] * n
        else:
            vals = [int(x) for x in re.findall(r'i\d+ (-?\d+)', init)]
        if len(vals) == n:
            tables[name] = (ety, vals)
    if not tables:
        return text
    lines = text.split('\n')
    changed = False
    start = None
    uid = [0]
    for n, ln in enumerate(lines):
        if ln.startswith('define '):
            start = n
        elif ln == '}' and start is not None:
            defs = {}
            for k in range(start + 1, n):
                m = re.match(r'\s*(%[\w.]+) = (\w+) (.*)$', lines[k])
                if m:
                    defs[m.group(1)] = (k, m.group(2), m.group(3))
            inserts = {}
            def mapped(v, ety, vals, depth=0):
                """textual operand holding vals[v], or None"""
                if re.match(r'-?\d+$', v):
                    iv = int(v)
                    return str(vals[iv]) if 0 <= iv < len(vals) else None
                d = defs.get(v)
                if d is None or depth > 6:
                    return None
                k, op, rest = d
                if op in ('zext', 'sext', 'trunc'):
                    mm = re.match(r'i\d+ (%[\w.]+|-?\d+) to i\d+', rest)
                    return mapped(mm.group(1), ety, vals, depth + 1) if mm else None
                if op == 'select':
                    mm = re.match(r'i1 (%[\w.]+), i\d+ (%[\w.]+|-?\d+), i\d+ (%[\w.]+|-?\d+)', rest)
                    if not mm:
                        return None
                    a, b = mapped(mm.group(2), ety, vals, depth + 1), mapped(mm.group(3), ety, vals, depth + 1)
                    if a is None or b is None:
                        return None
                    uid[0] += 1
                    nm = f'%tbl.{uid[0]}'
                    inserts.setdefault(k, []).append(f'  {nm} = select i1 {mm.group(1)}, {ety} {a}, {ety} {b}')
                    return nm
                if op == 'phi':
                    inc = re.findall(r'\[ (%[\w.]+|-?\d+), (%[\w.]+) \]', rest)
                    if not inc:
                        return None
                    outs = []
                    for val_, lab in inc:
                        x = mapped(val_, ety, vals, depth + 1)
                        if x is None:
                            return None
                        outs.append(f'[ {x}, {lab} ]')
                    uid[0] += 1
                    nm = f'%tbl.{uid[0]}'
                    inserts.setdefault(k, []).append(f'  {nm} = phi {ety} ' + ', '.join(outs))
                    return nm
                return None
            for k in range(start + 1, n):
                g = re.match(r'\s*(%[\w.]+) = getelementptr inbounds \[(\d+) x (i\d+)\], \[\d+ x i\d+\]\* (@[\w.$]+), i\d+ 0, i\d+ (%[\w.]+)', lines[k])
                if not g or g.group(4) not in tables:
                    continue
                ety, vals = tables[g.group(4)]
                users = [j for j in range(start + 1, n) if j != k and re.search(r'(?<![\w.])' + re.escape(g.group(1)) + r'(?![\w.])', lines[j])]
                if len(users) != 1:
                    continue
                ld = re.match(r'(\s*)(%[\w.]+) = load ' + re.escape(ety) + r', ' + re.escape(ety) + r'\* ' + re.escape(g.group(1)) + r'\b(.*)$', lines[users[0]])
                if not ld:
                    continue
                keep = dict(inserts)
                val = mapped(g.group(5), ety, vals)
                if val is None:
                    inserts.clear(); inserts.update(keep)
                    continue
                lines[users[0]] = f'{ld.group(1)}{ld.group(2)} = add {ety} {val}, 0'        # the address computation stays (dead): unnamed values keep their numbers
                changed = True
            for k, extra in inserts.items():
                lines[k] = lines[k] + '\n' + '\n'.join(extra)
            start = None
    return '\n'.join(lines) if changed else text

_NEGP = {'eq': 'ne', 'ne': 'eq', 'slt': 'sge', 'sge': 'slt', 'sgt': 'sle', 'sle': 'sgt', 'ult': 'uge', 'uge': 'ult', 'ugt': 'ule', 'ule': 'ugt'}

def fold_select_compares(text):
    """status codes chosen by a conditional expression and tested right away (`rc = c ? -E : 0; if (rc == 0)`) reach the IR as
    `icmp (select c, K1, K2), K`.  instsimplify folds the comparison only when it equals c; the negated form needs a new
    instruction, which only instcombine would create.  This step rewrites the comparison into c / not-c (as the defining
    comparison with the inverse predicate when c is a comparison) so that branching on a freshly computed status is the
    same shape as branching on the condition it was computed from.  Returns `text` itself when nothing matched."""
    lines = text.split('\n')
    changed = False
    start = None
    for n, ln in enumerate(lines):
        if ln.startswith('define '):
            start = n
        elif ln == '}' and start is not None:
            sel, cmpdef = {}, {}
            for k in range(start, n):
                m = re.match(r'\s*(%[\w.]+) = select i1 (%[\w.]+), (i\d+) (-?\d+), i\d+ (-?\d+)(,.*)?$', lines[k])
                if m:
                    sel[m.group(1)] = (m.group(2), int(m.group(4)), int(m.group(5)))
                m = re.match(r'\s*(%[\w.]+) = icmp (\w+) (.*?)(, !dbg !\d+)?$', lines[k])
                if m:
                    cmpdef[m.group(1)] = (m.group(2), m.group(3))
            # `-E * (n > m)`: a constant times a 0/1 truth value is the conditional expression `(n > m) ? -E : 0`
            zx = {}
            for k in range(start, n):
                m = re.match(r'\s*(%[\w.]+) = zext i1 (%[\w.]+) to (i\d+)(, !dbg !\d+)?$', lines[k])
                if m:
                    zx[m.group(1)] = (m.group(2), m.group(3))
            for k in range(start, n):
                if not zx:
                    break
                m = re.match(r'(\s*)(%[\w.]+) = mul (?:nsw |nuw )*(i\d+) (%[\w.]+|-?\d+), (%[\w.]+|-?\d+)(, !dbg !\d+)?$', lines[k])
                if not m:
                    continue
                a, b = m.group(4), m.group(5)
                z, kc = (a, b) if a in zx else (b, a)
                if z in zx and re.match(r'-?\d+$', kc) and zx[z][1] == m.group(3):
                    lines[k] = f'{m.group(1)}{m.group(2)} = select i1 {zx[z][0]}, {m.group(3)} {kc}, {m.group(3)} 0{m.group(6) or ""}'
                    changed = True
            # branch-free tests: `(x == 0) | (y == 0)` computes on 0/1 integers and compares the result with 0; as truth values this
            # is `a || b` (and `&` is `a && b`)
            bop = {}
            for k in range(start, n):
                m = re.match(r'\s*(%[\w.]+) = (or|and) (i\d+) (%[\w.]+), (%[\w.]+)(, !dbg !\d+)?$', lines[k])
                if m and m.group(3) != 'i1' and all((x in zx and zx[x][1] == m.group(3)) or x in bop for x in (m.group(4), m.group(5))):
                    bop[m.group(1)] = (m.group(2), m.group(4), m.group(5))
            for k in range(start, n):
                if not bop:
                    break
                m = re.match(r'(\s*)(%[\w.]+) = icmp (eq|ne) (i\d+) (%[\w.]+|0), (%[\w.]+|0)(, !dbg !\d+)?$', lines[k])
                if not m or '0' not in (m.group(5), m.group(6)):
                    continue
                v = m.group(5) if m.group(6) == '0' else m.group(6)
                if v not in bop:
                    continue
                ind, res, dbg = m.group(1), m.group(2), m.group(7) or ''
                tag = res[1:].replace('.', '_')
                new, cnt = [], [0]
                def truth(x):
                    if x in zx:
                        return zx[x][0]
                    op_, a_, b_ = bop[x]
                    ta, tb = truth(a_), truth(b_)
                    cnt[0] += 1
                    nm = f'%btf.{tag}.{cnt[0]}'
                    new.append(f'{ind}{nm} = {op_} i1 {ta}, {tb}')
                    return nm
                tv = truth(v)
                new.append(f'{ind}{res} = and i1 {tv}, true{dbg}' if m.group(3) == 'ne' else f'{ind}{res} = xor i1 {tv}, true{dbg}')
                lines[k] = '\n'.join(new)
                changed = True
            # `h = ok ? hdr : NULL; if (h == NULL) ...` : (c ? p : NULL) == NULL  <=>  !c || p == NULL
            psel = {}
            for k in range(start, n):
                m = re.match(r'\s*(%[\w.]+) = select i1 (%[\w.]+), (\S.*?\*) (%[\w.]+|null), \3 (%[\w.]+|null)(, !dbg !\d+)?$', lines[k])
                if m and (m.group(4) == 'null') != (m.group(5) == 'null'):
                    psel[m.group(1)] = (m.group(2), m.group(3), m.group(4), m.group(5))
            for k in range(start, n):
                if not psel:
                    break
                m = re.match(r'(\s*)(%[\w.]+) = icmp (eq|ne) (\S.*?\*) (%[\w.]+|null), (%[\w.]+|null)(, !dbg !\d+)?$', lines[k])
                if not m:
                    continue
                a, b = m.group(5), m.group(6)
                sv = a if (a in psel and b == 'null') else (b if (b in psel and a == 'null') else None)
                if sv is None or psel[sv][1] != m.group(4):
                    continue
                c, ty, tv, fv = psel[sv]
                ptr = tv if fv == 'null' else fv
                ind, res, dbg = m.group(1), m.group(2), m.group(7) or ''
                tag = res[1:].replace('.', '_')
                # "is NULL" = (the NULL arm was chosen) or (the pointer arm is NULL itself)
                chose_null = f'{ind}%nsel.c.{tag} = xor i1 {c}, true' if fv == 'null' else f'{ind}%nsel.c.{tag} = and i1 {c}, true'
                new = [chose_null,
                       f'{ind}%nsel.nn.{tag} = icmp ne {ty} {ptr}, null',
                       f'{ind}%nsel.pn.{tag} = xor i1 %nsel.nn.{tag}, true',
                       f'{ind}%nsel.isnull.{tag} = or i1 %nsel.c.{tag}, %nsel.pn.{tag}']
                if m.group(3) == 'eq':
                    new.append(f'{ind}{res} = and i1 %nsel.isnull.{tag}, true{dbg}')
                else:
                    new.append(f'{ind}{res} = xor i1 %nsel.isnull.{tag}, true{dbg}')
                lines[k] = '\n'.join(new)
                changed = True
            if sel:
                for k in range(start, n):
                    m = re.match(r'(\s*)(%[\w.]+) = icmp (eq|ne) (i\d+) (%[\w.]+|-?\d+), (%[\w.]+|-?\d+)(, !dbg !\d+)?$', lines[k])
                    if not m:
                        continue
                    a, b = m.group(5), m.group(6)
                    if a in sel and re.match(r'-?\d+$', b):
                        s_, kc = a, int(b)
                    elif b in sel and re.match(r'-?\d+$', a):
                        s_, kc = b, int(a)
                    else:
                        continue
                    c, k1, k2 = sel[s_]
                    t = (k1 == kc) if m.group(3) == 'eq' else (k1 != kc)
                    f = (k2 == kc) if m.group(3) == 'eq' else (k2 != kc)
                    dbg = m.group(7) or ''
                    ind, res = m.group(1), m.group(2)
                    if t == f:
                        new = f'{ind}{res} = and i1 {"true" if t else "false"}, true{dbg}'
                    elif t:
                        new = f'{ind}{res} = and i1 {c}, true{dbg}'
                    elif c in cmpdef and cmpdef[c][0] in _NEGP:
                        new = f'{ind}{res} = icmp {_NEGP[cmpdef[c][0]]} {cmpdef[c][1]}{dbg}'
                    else:
                        new = f'{ind}{res} = xor i1 {c}, true{dbg}'
                    lines[k] = new
                    changed = True
            start = None
    return '\n'.join(lines) if changed else text

def fold_bool_indexed_pairs(text):
    """`T pick[2] = {a, b}; ... pick[cond]` - a two-entry local table indexed by a 0/1 truth value is the conditional expression
    `cond ? b : a`.  The table is a local array with one constant-index store per slot and loads whose index is a widened i1; the
    loads become selects (the array and its stores are left behind, dead).  Returns `text` itself when nothing matched."""
    lines = text.split('\n')
    changed = False
    start = None
    for n, ln in enumerate(lines):
        if ln.startswith('define '):
            start = n
        elif ln == '}' and start is not None:
            body = range(start, n)
            arrays = {}
            for k in body:
                m = re.match(r'\s*(%[\w.]+) = alloca \[2 x ([^\]]+)\]', lines[k])
                if m:
                    arrays[m.group(1)] = {'ty': m.group(2).strip(), 'slot': {}, 'var': {}, 'bad': False}
            if arrays:
                widen = {}
                for k in body:
                    m = re.match(r'\s*(%[\w.]+) = (?:zext|sext) (i\d+) (%[\w.]+) to i\d+', lines[k])
                    if m:
                        widen[m.group(1)] = (m.group(2), m.group(3))
                def truth_of(v, depth=0):
                    while v in widen and depth < 4:
                        ty, src = widen[v]
                        if ty == 'i1':
                            return src
                        v = src; depth += 1
                    return None
                geps = {}
                for k in body:
                    m = re.match(r'\s*(%[\w.]+) = getelementptr inbounds \[2 x [^\]]+\], \[2 x [^\]]+\]\* (%[\w.]+), i64 0, i64 (%[\w.]+|\d+)', lines[k])
                    if m and m.group(2) in arrays:
                        geps[m.group(1)] = (m.group(2), m.group(3))
                for k in body:
                    # the initialiser reaches slot 1 from the address of slot 0
                    m = re.match(r'\s*(%[\w.]+) = getelementptr inbounds [^,]+, [^,]+\* (%[\w.]+), i64 1(, !dbg !\d+)?$', lines[k])
                    if m and geps.get(m.group(2), (None, None))[1] == '0':
                        geps[m.group(1)] = (geps[m.group(2)][0], '1')
                for k in body:
                    for a in arrays:
                        if re.search(re.escape(a) + r'\b', lines[k]) and not re.match(r'\s*' + re.escape(a) + r' = alloca', lines[k]) and \
                           not re.match(r'\s*%[\w.]+ = getelementptr inbounds \[2 x', lines[k]) and 'llvm.dbg' not in lines[k]:
                            arrays[a]['bad'] = True
                for k in body:
                    m = re.match(r'\s*store (.+?) (%[\w.]+|null|-?\d+), .+?\* (%[\w.]+),', lines[k])
                    if m and m.group(3) in geps:
                        a, idx = geps[m.group(3)]
                        if idx in ('0', '1') and int(idx) not in arrays[a]['slot']:
                            arrays[a]['slot'][int(idx)] = m.group(2)
                        else:
                            arrays[a]['bad'] = True
                for k in body:
                    m = re.match(r'(\s*)(%[\w.]+) = load (.+?), .+?\* (%[\w.]+),(.*)$', lines[k])
                    if m and m.group(4) in geps:
                        a, idx = geps[m.group(4)]
                        info = arrays[a]
                        c = truth_of(idx) if not idx.isdigit() else None
                        if info['bad'] or len(info['slot']) != 2 or c is None:
                            continue
                        dbg = re.search(r'(, !dbg !\d+)', m.group(5))
                        ty = m.group(3).strip()
                        lines[k] = f'{m.group(1)}{m.group(2)} = select i1 {c}, {ty} {info["slot"][1]}, {ty} {info["slot"][0]}{dbg.group(1) if dbg else ""}'
                        changed = True
            start = None
    return '\n'.join(lines) if changed else text

def static_profile(text):
    """per defined function of an IR unit: linkage, normalised type signature and the places that refer to it (functions whose
    body mentions it, global initialisers with the position of the mention).  Used to recognise a file-local function of the
    reference tree that was merely renamed: same signature, same referrers."""
    fns, cur = {}, None
    bodies, glob = {}, []
    for ln in text.split('\n'):
        if ln.startswith('define '):
            m = re.match(r'define ([^@]*?)(@[\w.$]+)\((.*)\)[^)]*\{\s*$', ln)
            if not m:
                cur = None
                continue
            pre, name, params = m.groups()
            sig_r = re.sub(r'\b(dso_local|internal|hidden|noundef|zeroext|signext|nonnull|noalias|nocapture|readonly|align \d+)\b', '', pre)
            ps = []
            depth, tok = 0, ''
            for ch in params + ',':
                if ch == ',' and depth == 0:
                    ps.append(tok); tok = ''
                else:
                    depth += ch in '({[<'; depth -= ch in ')}]>'
                    tok += ch
            ps = [re.sub(r'\s+', ' ', re.sub(r'%[\w.]+\s*$', '', re.sub(r'\b(noundef|zeroext|signext|nonnull|noalias|nocapture|readonly|align \d+)\b', '', x))).strip() for x in ps if x.strip()]
            fns[name] = {'internal': bool(re.search(r'\binternal\b', pre)), 'sig': re.sub(r'\s+', ' ', sig_r).strip() + ' (' + ', '.join(ps) + ')'}
            cur = name
            bodies[cur] = []
        elif ln == '}':
            cur = None
        elif cur is not None:
            bodies[cur].append(ln)
        elif re.match(r'@[\w.$]+ = ', ln):
            glob.append(ln)
    refs = {n: set() for n in fns}
    for caller, body in bodies.items():
        for n in set(re.findall(r'@[\w.$]+', '\n'.join(body))):
            if n in fns and n != caller:
                refs[n].add('fn ' + caller)
    for ln in glob:
        g = ln.split(' = ')[0]
        for k, n in enumerate(re.findall(r'@[\w.$]+', ln.split(' = ', 1)[1])):
            if n in fns:
                refs[n].add(f'gv {g} #{k}')
    for n in fns:
        fns[n]['refs'] = sorted(refs[n])
    return fns

_kstat = None
def known_statics():
    global _kstat
    if _kstat is None:
        import json
        p = os.path.join(os.path.dirname(os.path.abspath(__file__)), 'known_statics.json')
        _kstat = json.load(open(p)) if os.path.exists(p) else {}
    return _kstat

def recover_renamed_statics(text, unit):
    """a file-local function of the reference tree that is absent from this unit, while exactly one new file-local function
    has its type signature and is referred to from the same places (callers, op-table slots), was renamed: give it its
    reference name back, so that the rules anchored at it examine the body that now plays its part.  (New functions that
    match nothing are helpers and are inlined.)  -> (text, {new name: reference name})"""
    KS = known_statics().get(unit, {})
    if not KS:
        return text, {}
    prof = static_profile(text)
    missing = [n for n in KS if n not in prof]
    if not missing:
        return text, {}
    known = known_functions()
    fresh = [n for n, d in prof.items() if d['internal'] and n not in known]
    mapping = {}
    def eff_refs(n, seen=()):
        out = set()
        for r in prof[n]['refs']:
            if r.startswith('fn '):
                c = r[3:]
                if c in mapping:
                    out.add('fn ' + mapping[c])
                elif c in fresh and c not in seen:
                    out |= eff_refs(c, seen + (n,))          # a new helper in between: it will be inlined into its own callers
                else:
                    out.add(r)
            else:
                out.add(r)
        return out
    for closure in (False, True):
        changed = True
        while changed:
            changed = False
            for F in missing:
                if F in mapping.values():
                    continue
                cands = []
                for G in fresh:
                    if G in mapping or prof[G]['sig'] != KS[F]['sig']:
                        continue
                    rr = eff_refs(G) if closure else {('fn ' + mapping.get(r[3:], r[3:])) if r.startswith('fn ') else r for r in prof[G]['refs']}
                    if sorted(rr) == KS[F]['refs']:
                        cands.append(G)
                if len(cands) == 1:
                    mapping[cands[0]] = F
                    changed = True
    for G, F in mapping.items():
        text = re.sub(re.escape(G) + r'(?![\w.$])', F, text)
    return text, mapping

_known = None
def known_functions():
    global _known
    if _known is None:
        p = os.path.join(os.path.dirname(os.path.abspath(__file__)), 'known_functions.txt')
        _known = {l.strip() for l in open(p) if l.strip() and not l.startswith('#')}
    return _known

def normalise_new_helpers(text, unit):
    """functions that do not exist in the reference tree are new helpers: inline them into their callers (LLVM always-inline,
    then mem2reg again for locals they received by address, then drop the dead internal definitions)"""
    known = known_functions()
    defs = re.findall(r'^define ([^@\n]*?)(@[\w.$]+)\(', text, re.M)
    new = [n for pre, n in defs if n not in known]
    if not new:
        return text
    groups = dict(re.findall(r'^attributes (#\d+) = \{(.*)\}\s*$', text, re.M))
    nextg = max([int(g[1:]) for g in groups] + [0]) + 1000
    added = {}
    lines = text.split('\n')
    for i, ln in enumerate(lines):
        if ln.startswith('define '):
            m = re.search(r'(@[\w.$]+)\(', ln)
            if m and m.group(1) in new:
                gm = re.search(r' (#\d+)( |$)', ln[ln.rfind(')'):])
                if gm:
                    g = gm.group(1)
                    if g not in added:
                        body = groups.get(g, '')
                        body = re.sub(r'\b(noinline|optnone)\b', '', body)
                        added[g] = (f'#{nextg + len(added)}', ' alwaysinline ' + body)
                    tail = ln[ln.rfind(')'):].replace(' ' + g, ' ' + added[g][0], 1)
                    lines[i] = ln[:ln.rfind(')')] + tail
                else:
                    lines[i] = ln.replace(' {', ' alwaysinline {') if ln.rstrip().endswith('{') else ln
    text = '\n'.join(lines)
    for g, (ng, body) in added.items():
        text += f'\nattributes {ng} = {{{body}}}\n'
    post = os.environ.get('LECVERIF_POST_INLINE', NORMALISE)
    p = subprocess.run(['opt-14', '-S', '-passes=always-inline,' + post + ',globaldce', '-o', '-'], input=text, text=True, capture_output=True)
    if p.returncode != 0:
        raise AnalysisBroken(f'inlining of new helpers failed on {unit}: {p.stderr[-1500:]}')
    return p.stdout

def compile_all(root='/repo', flavour='configured', jobs=16):
    cmds = unit_commands(root)
    outdir = scratch_dir()
    with ThreadPoolExecutor(max_workers=jobs) as ex:
        paths = list(ex.map(lambda c: compile_ir(c, outdir, flavour), cmds))
    return list(zip(cmds, paths))

def syntax_check(root, source_text, flags_from='src', compiler='clang-14', extra=()):
    """E12: compile a witness TU (given as text) with the repo's flags; returns (rc, stderr)"""
    cmds = [c for c in unit_commands(root) if os.path.dirname(c['unit']) == flags_from]
    if not cmds:
        raise AnalysisBroken('no unit in ' + flags_from)
    c = cmds[0]
    d = scratch_dir()
    p = os.path.join(d, 'witness.c')
    open(p, 'w').write(source_text)
    fl = analysis_flags(c['flags'])
    errlimit = ['-ferror-limit=0'] if 'clang' in compiler else ['-fmax-errors=0']
    r = subprocess.run([compiler, *fl, *extra, *errlimit, '-fsyntax-only', p], capture_output=True, text=True, cwd=c['dir'])
    return r.returncode, r.stderr
