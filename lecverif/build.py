"""E1 build capture: per-unit compile commands from the generated Makefiles of the tree under analysis.

No `make -n` (it re-runs configure in the tree).  The automake compile rule for a libtool target with
per-target CPPFLAGS is
    $(CC) $(DEFS) $(DEFAULT_INCLUDES) $(INCLUDES) $(<lib>_la_CPPFLAGS) $(CPPFLAGS) $(AM_CFLAGS) $(CFLAGS)
and that is what is reproduced here from the variables of each directory's Makefile.
"""
import os, re, shlex, subprocess, tempfile, shutil, atexit
from concurrent.futures import ThreadPoolExecutor

class AnalysisBroken(Exception):
    """exit 2: the question cannot be asked (anchor vanished, unparsable input, tool failure)"""

MAKEDIRS = ['src', 'src/builtin/xor_codes', 'src/builtin/null_code', 'src/builtin/rs_vand']

def _read_make_vars(path):
    if not os.path.exists(path):
        raise AnalysisBroken(f'missing {path} (tree not configured)')
    vars_ = {}
    text = open(path).read().replace('\\\n', ' ')
    for ln in text.split('\n'):
        m = re.match(r'([A-Za-z_][\w]*)\s*[:+]?=\s*(.*)$', ln)
        if m and not ln.startswith('\t'):
            if '+=' in ln.split('=')[0] + '=':
                vars_[m.group(1)] = vars_.get(m.group(1), '') + ' ' + m.group(2)
            else:
                vars_[m.group(1)] = m.group(2)
    return vars_

def _expand(s, vars_, depth=0):
    if depth > 20:
        return s
    def rep(m):
        return _expand(vars_.get(m.group(1), ''), vars_, depth + 1)
    return re.sub(r'\$[({](\w+)[)}]', rep, s)

def unit_commands(root='/repo'):
    """-> list of dict(unit=relative source path, lib=target, dir=abs dir, flags=[...])"""
    root = os.path.abspath(root)
    if not os.path.exists(os.path.join(root, 'include', 'config_liberasurecode.h')) and \
       not os.path.exists(os.path.join(root, 'config.h')) and not os.path.exists(os.path.join(root, 'include', 'config.h')):
        # HAVE_CONFIG_H is defined but the library sources do not include config.h; tolerate its absence
        pass
    out = []
    for d in MAKEDIRS:
        mk = os.path.join(root, d, 'Makefile')
        v = _read_make_vars(mk)
        orig_root = v.get('abs_top_srcdir', root).strip()
        libs = _expand(v.get('lib_LTLIBRARIES', ''), v).split()
        if not libs:
            raise AnalysisBroken(f'{mk}: no lib_LTLIBRARIES')
        for lib in libs:
            stem = re.sub(r'\W', '_', lib)
            srcs = _expand(v.get(stem + '_SOURCES', ''), v).split()
            if not srcs:
                raise AnalysisBroken(f'{mk}: no sources for {lib}')
            flagstr = ' '.join(_expand(v.get(n, ''), v) for n in
                               ('DEFS', 'DEFAULT_INCLUDES', 'INCLUDES', stem + '_CPPFLAGS', 'CPPFLAGS', 'AM_CFLAGS', 'CFLAGS'))
            flags = shlex.split(flagstr)
            # a scratch copy configured in /repo bakes /repo's absolute include paths: retarget them
            if os.path.abspath(orig_root) != root:
                flags = [f.replace('-I' + orig_root, '-I' + root) if f.startswith('-I' + orig_root) else f for f in flags]
            for s in srcs:
                if not s.endswith('.c'):
                    continue
                out.append({'unit': os.path.normpath(os.path.join(d, s)), 'lib': lib, 'root': root,
                            'dir': os.path.join(root, d), 'flags': flags})
    return out

_DROP = re.compile(r'^(-O\d?|-Os|-g\d?|-Werror.*|-Wall|-Wstrict-prototypes|-pedantic|-Wno-error|-L.*|-fPIC)$')

def analysis_flags(flags, flavour='configured'):
    fl = [f for f in flags if not _DROP.match(f)]
    if flavour in ('portable', 'portable-ndebug'):
        fl = [f for f in fl if not re.match(r'^-m(mmx|sse.*|ssse3|avx.*)$', f) and not re.match(r'^-DINTEL_', f)]
    if flavour in ('ndebug', 'portable-ndebug'):
        fl = fl + ['-DNDEBUG']
    else:
        fl = fl + ['-UNDEBUG']
    return fl

_scratch_dirs = []
def scratch_dir(prefix='lecverif-'):
    base = os.environ.get('LECVERIF_SCRATCH') or ('/dev/shm' if os.path.isdir('/dev/shm') and os.access('/dev/shm', os.W_OK) else tempfile.gettempdir())
    d = tempfile.mkdtemp(prefix=prefix, dir=base)
    _scratch_dirs.append(d)
    return d

@atexit.register
def _cleanup():
    for d in _scratch_dirs:
        shutil.rmtree(d, ignore_errors=True)

def compile_ir(cmd, outdir, flavour='configured', extra=()):
    src = os.path.join(cmd['root'], cmd['unit'])
    out = os.path.join(outdir, re.sub(r'\W', '_', cmd['lib'] + '__' + cmd['unit']) + '.' + flavour + '.ll')
    args = ['clang-14', *analysis_flags(cmd['flags'], flavour), *extra, '-w', '-O0', '-Xclang', '-disable-O0-optnone',
            '-g', '-S', '-emit-llvm', src, '-o', '-']
    p1 = subprocess.run(args, capture_output=True, text=True, cwd=cmd['dir'])
    if p1.returncode != 0:
        raise AnalysisBroken(f'clang failed on {cmd["unit"]} [{flavour}]:\n{p1.stderr[-2000:]}')
    passes = os.environ.get('LECVERIF_PASSES', NORMALISE)
    p2 = subprocess.run(['opt-14', '-S', '-passes=' + passes, '-o', '-'], input=p1.stdout, text=True, capture_output=True)
    if p2.returncode != 0:
        raise AnalysisBroken(f'opt failed on {cmd["unit"]}: {p2.stderr[-2000:]}')
    text = normalise_new_helpers(p2.stdout, cmd['unit'])
    with open(out, 'w') as fh:
        fh.write(text)
    return out

# normalisation applied to every unit before any rule looks at it: SSA construction, trivial simplification, common
# subexpression / redundant load elimination, threading of branches over phi-of-constants (status variables, merged error
# exits) and CFG clean-up (if-chains on one value become a switch, two-armed diamonds become selects).  Behaviour-preserving
# rewrites of the source converge on the same shape; nothing is inlined except helpers that are new w.r.t. the reference tree.
NORMALISE = 'function(mem2reg,instsimplify,early-cse,jump-threading,simplifycfg,instsimplify)'

_known = None
def known_functions():
    global _known
    if _known is None:
        p = os.path.join(os.path.dirname(os.path.abspath(__file__)), 'known_functions.txt')
        _known = {l.strip() for l in open(p) if l.strip() and not l.startswith('#')}
    return _known

def normalise_new_helpers(text, unit):
    """functions that do not exist in the reference tree are new helpers: inline them into their callers (LLVM always-inline,
    then mem2reg again for locals they received by address, then drop the dead internal definitions)"""
    known = known_functions()
    defs = re.findall(r'^define ([^@\n]*?)(@[\w.$]+)\(', text, re.M)
    new = [n for pre, n in defs if n not in known]
    if not new:
        return text
    groups = dict(re.findall(r'^attributes (#\d+) = \{(.*)\}\s*$', text, re.M))
    nextg = max([int(g[1:]) for g in groups] + [0]) + 1000
    added = {}
    lines = text.split('\n')
    for i, ln in enumerate(lines):
        if ln.startswith('define '):
            m = re.search(r'(@[\w.$]+)\(', ln)
            if m and m.group(1) in new:
                gm = re.search(r' (#\d+)( |$)', ln[ln.rfind(')'):])
                if gm:
                    g = gm.group(1)
                    if g not in added:
                        body = groups.get(g, '')
                        body = re.sub(r'\b(noinline|optnone)\b', '', body)
                        added[g] = (f'#{nextg + len(added)}', ' alwaysinline ' + body)
                    tail = ln[ln.rfind(')'):].replace(' ' + g, ' ' + added[g][0], 1)
                    lines[i] = ln[:ln.rfind(')')] + tail
                else:
                    lines[i] = ln.replace(' {', ' alwaysinline {') if ln.rstrip().endswith('{') else ln
    text = '\n'.join(lines)
    for g, (ng, body) in added.items():
        text += f'\nattributes {ng} = {{{body}}}\n'
    post = os.environ.get('LECVERIF_POST_INLINE', NORMALISE)
    p = subprocess.run(['opt-14', '-S', '-passes=always-inline,' + post + ',globaldce', '-o', '-'], input=text, text=True, capture_output=True)
    if p.returncode != 0:
        raise AnalysisBroken(f'inlining of new helpers failed on {unit}: {p.stderr[-1500:]}')
    return p.stdout

def compile_all(root='/repo', flavour='configured', jobs=16):
    cmds = unit_commands(root)
    outdir = scratch_dir()
    with ThreadPoolExecutor(max_workers=jobs) as ex:
        paths = list(ex.map(lambda c: compile_ir(c, outdir, flavour), cmds))
    return list(zip(cmds, paths))

def syntax_check(root, source_text, flags_from='src', compiler='clang-14', extra=()):
    """E12: compile a witness TU (given as text) with the repo's flags; returns (rc, stderr)"""
    cmds = [c for c in unit_commands(root) if os.path.dirname(c['unit']) == flags_from]
    if not cmds:
        raise AnalysisBroken('no unit in ' + flags_from)
    c = cmds[0]
    d = scratch_dir()
    p = os.path.join(d, 'witness.c')
    open(p, 'w').write(source_text)
    fl = analysis_flags(c['flags'])
    errlimit = ['-ferror-limit=0'] if 'clang' in compiler else ['-fmax-errors=0']
    r = subprocess.run([compiler, *fl, *extra, *errlimit, '-fsyntax-only', p], capture_output=True, text=True, cwd=c['dir'])
    return r.returncode, r.stderr
