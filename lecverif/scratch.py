"""scratch copies of the tree under analysis (outside /repo and /verif, removed on exit)"""
import os, shutil, subprocess, tempfile, contextlib

@contextlib.contextmanager
def scratch_tree(src_root='/repo', patch=None, edits=None):
    """copy sources (no .git, no build output), apply a unified diff and/or (file, old, new) edits; yields the root.
    raises ValueError if the patch/edit does not apply"""
    base = os.environ.get('LECVERIF_SCRATCH') or ('/dev/shm' if os.path.isdir('/dev/shm') and os.access('/dev/shm', os.W_OK) else tempfile.gettempdir())
    d = tempfile.mkdtemp(prefix='lecverif-tree-', dir=base)
    try:
        subprocess.run(['rsync', '-a', '--exclude=.git', '--exclude=.libs', '--exclude=*.o', '--exclude=*.lo', '--exclude=*.la',
                        '--exclude=doc', '--exclude=autom4te.cache', '--exclude=test/*_test', '--exclude=test/libec_slap',
                        src_root.rstrip('/') + '/', d + '/'], check=True)
        if patch:
            p = subprocess.run(['patch', '-p1', '--no-backup-if-mismatch', '-s', '-f', '-i', os.path.abspath(patch)], cwd=d,
                               capture_output=True, text=True)
            if p.returncode != 0:
                raise ValueError('patch does not apply: ' + (p.stdout + p.stderr)[-500:])
        for (rel, old, new) in (edits or []):
            path = os.path.join(d, rel)
            s = open(path).read()
            if s.count(old) != 1:
                raise ValueError(f'edit anchor occurs {s.count(old)} times in {rel}: {old[:60]!r}')
            open(path, 'w').write(s.replace(old, new))
        yield d
    finally:
        shutil.rmtree(d, ignore_errors=True)
