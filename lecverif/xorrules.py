"""flat-XOR rules: table extraction through the whitelist (R05c), table mathematics (R05a/b/d), index-space typing (R05e),
failure-pattern machine (R05f), refusal (R02a/R02e).  Shared by C05, C02, C06, C13."""
import re
from . import callgraph, tables
from .consteval import ConstEval, Undecidable
from .vflow import Canon, strip_int_casts, strip_ptr_casts, access_path, fields_in_path, possible_consts
from .guards import Facts
from .cfg import reachable_from
from .retval import returns_from_block
from .ir import INT, parse_initializer
from .build import AnalysisBroken

XOR_UNITS = ('src/builtin/xor_codes/xor_code.c', 'src/builtin/xor_codes/xor_hd_code.c')

# ------------------------------------------------------------------ whitelist and tables
def accepted_shapes(P):
    """constant-propagate every (k,m,hd) of the box spanned by the guard constants through init_xor_hd_code.
    -> dict (k,m,hd) -> dict(parity=global, data=global, events=[...]) for accepted points; plus the box"""
    f = P.fn('init_xor_hd_code')
    if len(f.params) != 3:
        raise AnalysisBroken('anchor vanished: init_xor_hd_code(k, m, hd)')
    CE = ConstEval(P, f.mod)
    consts = set()
    for i in f.insts():
        if i.op == 'icmp':
            for o in i.ops:
                if INT.match(o):
                    consts.add(int(o))
    hi = max(consts | {0}) + 3
    ks = list(range(-2, hi + 16)) + [2**31 - 1, -2**31]
    ms = list(range(-2, hi + 3)) + [2**31 - 1, -2**31]
    hds = list(range(-1, max(10, min(hi, 12)))) + [2**31 - 1, -2**31]
    fi_par = P.field_index('xor_code_s', 'parity_bms')
    fi_dat = P.field_index('xor_code_s', 'data_bms')
    fi = {n: P.field_index('xor_code_s', n) for n in ('k', 'm', 'hd')}
    acc = {}
    problems = []
    npts = 0
    for hd in hds:
        for m in ms:
            for k in ks:
                npts += 1
                try:
                    res = CE.run(f, [k, m, hd])
                except Undecidable as e:
                    raise AnalysisBroken(f'init_xor_hd_code is not a pure guard over (k,m,hd): {e}')
                rv = res['ret']
                if isinstance(rv, tuple) and rv[0] == 'obj':
                    o = res['objects'][rv[1]]
                    acc[(k, m, hd)] = {'parity': o.get((fi_par,)), 'data': o.get((fi_dat,)),
                                       'k': o.get((fi['k'],)), 'm': o.get((fi['m'],)), 'hd': o.get((fi['hd'],)),
                                       'oob': [(e[1], e[2]) for e in res['events'] if e[0] == 'oob']}
    return acc, {'k': (ks[0], ks[-3]), 'm': (ms[0], ms[-3]), 'hd': (hds[0], hds[-3]), 'points': npts}

def table_ints(P, mod, ptr):
    """('g', '@name', (0,)) -> list of ints"""
    if not (isinstance(ptr, tuple) and ptr[0] == 'g'):
        return None
    for m in [mod] + P.mods:
        t = m.globals.get(ptr[1])
        if t and not re.match(r'external ', t):
            init = parse_initializer(t)
            mm = re.match(r'\[(\d+) x i32\] (.*)$', init)
            if not mm:
                return None
            if mm.group(2).strip() == 'zeroinitializer':
                return [0] * int(mm.group(1))
            vals = [int(x) & 0xffffffff for x in re.findall(r'i32 (-?\d+)', mm.group(2))]
            if len(vals) != int(mm.group(1)):
                return None
            off = ptr[2][0] if ptr[2] else 0
            return vals[off:]
    return None

def all_table_entries(P, mod):
    """every non-null (top table, m, k) -> table global, by walking the pointer-table initialisers referenced by init"""
    f = P.fn('init_xor_hd_code')
    tops = set()
    for i in f.insts():
        for o in i.ops:
            if isinstance(o, str):
                for g in re.findall(r'@[\w.]+', o):
                    t = mod.globals.get(g, '')
                    if re.match(r'(dso_local |internal |constant |global |unnamed_addr )*\[\d+ x i32\*\*\]', t):
                        tops.add(g)
    CE = ConstEval(P, mod)
    out = {}
    for g in sorted(tops):
        top = CE.init_of(g)
        if not isinstance(top, list):
            continue
        for m_, e in enumerate(top):
            if isinstance(e, str):
                p = CE.const_operand(e)
                inner = CE.init_of(p[1]) if p else None
                if isinstance(inner, list):
                    for k_, e2 in enumerate(inner):
                        if isinstance(e2, str):
                            out[(g, m_, k_)] = CE.const_operand(e2)
    return out

# ------------------------------------------------------------------ index spaces (R05e)
D, PR, PA = 'DATA', 'PAR_REL', 'PAR_ABS'

class FnSpaces:
    def __init__(self, P, fn, list_kinds, arr_roles):
        self.P, self.fn = P, fn
        self.space, self.why = {}, {}
        self.list_kinds, self.arr_roles = list_kinds, arr_roles
        self.kvals, self.mvals = set(), set()
        for ins in fn.insts():
            if ins.op == 'load':
                root, steps = access_path(P, fn, ins.ops[0])
                fl = fields_in_path(steps)
                if fl and fl[-1] == ('xor_code_s', 'k'):
                    self.kvals.add(ins.res)
                if fl and fl[-1] == ('xor_code_s', 'm'):
                    self.mvals.add(ins.res)
    def root(self, v):
        return strip_int_casts(self.fn, v)
    def set(self, v, sp, why):
        v = self.root(v)
        if v not in self.space:
            self.space[v] = sp; self.why[v] = why
            return True
        return False
    def is_iv(self, phi):
        if phi.op != 'phi':
            return False
        has0 = any(v == '0' for v, _ in phi.incoming)
        inc = False
        for v, _ in phi.incoming:
            d = self.fn.defs.get(v)
            if d is not None and d.op == 'add' and phi.res in d.ops and '1' in d.ops:
                inc = True
        return has0 and inc
    def infer(self):
        fn = self.fn
        changed, rounds = True, 0
        while changed and rounds < 12:
            rounds += 1
            changed = False
            for ins in fn.insts():
                if ins.op == 'icmp' and ins.pred in ('slt', 'ult'):
                    a, b = self.root(ins.ops[0]), self.root(ins.ops[1])
                    da = fn.defs.get(a)
                    if da is not None and self.is_iv(da):
                        if b in self.kvals:
                            changed |= self.set(a, D, f'loop variable bounded by k (line {ins.line})')
                        if b in self.mvals:
                            changed |= self.set(a, PR, f'loop variable bounded by m (line {ins.line})')
                if ins.op == 'call' and ins.callee == '@index_of_connected_parity' and ins.res:
                    changed |= self.set(ins.res, PA, f'result of index_of_connected_parity (line {ins.line})')
                if ins.op in ('sub', 'add') and ins.res:
                    a, b = self.root(ins.ops[0]), self.root(ins.ops[1])
                    if ins.op == 'sub' and b in self.kvals and self.space.get(a) == PA:
                        changed |= self.set(ins.res, PR, f'PAR_ABS - k (line {ins.line})')
                    if ins.op == 'add':
                        x = a if b in self.kvals else (b if a in self.kvals else None)
                        if x is not None and self.space.get(x) == PR:
                            changed |= self.set(ins.res, PA, f'PAR_REL + k (line {ins.line})')
                if ins.op in ('phi', 'select') and ins.res and ins.res not in self.space and not (ins.op == 'select' and ins.ty == 'i1'):
                    inc = ins.incoming if ins.op == 'phi' else [(v, None) for v in ins.ops[1:]]
                    sps = {self.space.get(self.root(v)) for v, _ in inc if not INT.match(v)}
                    sps.discard(None)
                    if len(sps) == 1:
                        sp = next(iter(sps))
                        src = [self.root(v) for v, _ in inc if self.space.get(self.root(v)) == sp][0]
                        changed |= self.set(ins.res, sp, f'may hold {src}: ' + self.why[src])
                if ins.op == 'load' and ins.res:
                    d = fn.defs.get(ins.ops[0])
                    if d is not None and d.op == 'getelementptr':
                        base = strip_ptr_casts(fn, d.ops[0])
                        if base in self.list_kinds:
                            changed |= self.set(ins.res, self.list_kinds[base], f'element of a {self.list_kinds[base]} list (line {ins.line})')
        return self
    def param_needs(self):
        """{parameter index: space} for scalar parameters used directly as a subscript of parity_bms[] / data_bms[]"""
        fn, P = self.fn, self.P
        need = {}
        for ins in fn.insts():
            if ins.op == 'getelementptr' and len(ins.ops) == 2:
                idx = self.root(ins.ops[1])
                pi = fn.param_index(idx)
                if pi is None:
                    continue
                bd = fn.defs.get(strip_ptr_casts(fn, ins.ops[0]))
                if bd is not None and bd.op == 'load':
                    root, steps = access_path(P, fn, bd.ops[0])
                    fl = fields_in_path(steps)
                    if fl and fl[-1] == ('xor_code_s', 'parity_bms'):
                        need[pi] = PR
                    if fl and fl[-1] == ('xor_code_s', 'data_bms'):
                        need[pi] = D
            if ins.op == 'getelementptr' and ins.ops[0].startswith('@') and 'bit_lookup' in ins.ops[0] and len(ins.ops) == 3:
                pi = fn.param_index(self.root(ins.ops[2]))
                if pi is not None:
                    need.setdefault(pi, 'REL')        # g_bit_lookup[x] == 1 << x
            if ins.op == 'shl' and ins.ops[0] == '1':
                pi = fn.param_index(self.root(ins.ops[1]))
                if pi is not None:
                    need.setdefault(pi, 'REL')        # a bit position inside a per-kind bitmap: relative to its kind, never absolute
        return need

    def check_calls(self, needs):
        """arguments handed to a parameter that is used as a parity-relative / data subscript"""
        fn = self.fn
        out = []
        for ins in fn.insts():
            if ins.op != 'call' or ins.callee not in needs:
                continue
            for pi, sp in needs[ins.callee].items():
                if pi >= len(ins.ops):
                    continue
                a = self.root(ins.ops[pi])
                have = self.space.get(a)
                d = fn.defs.get(a)
                if sp == 'REL' and have in (D, PR):
                    continue
                if have is not None and have != sp:
                    out.append((ins, f'argument {pi} of {ins.callee} is used there as a {sp} subscript but a {have} value is passed ({self.why[a]})', f'{sp} parameter given {have}'))
                elif have is None and d is not None and d.op in ('sub', 'add') and any(self.root(o) in self.mvals for o in d.ops):
                    out.append((ins, f'argument {pi} of {ins.callee} is used there as a {sp} subscript; the caller converts with m (x {"-" if d.op == "sub" else "+"} m) - '
                                     'absolute and relative parity indexes differ by k', f'{sp} parameter computed with m'))
        return out

    def check(self):
        fn, P = self.fn, self.P
        out = []
        for ins in fn.insts():
            if ins.op == 'sub' and self.root(ins.ops[1]) in self.kvals:
                a = self.root(ins.ops[0]); sp = self.space.get(a)
                if sp in (PR, D):
                    out.append((ins, f'"x - k" applied to a {sp} value ({self.why[a]})', f'sub {sp},k'))
            if ins.op == 'add':
                a, b = self.root(ins.ops[0]), self.root(ins.ops[1])
                x = a if b in self.kvals else (b if a in self.kvals else None)
                if x is not None and self.space.get(x) == PA:
                    out.append((ins, f'"x + k" applied to a PAR_ABS value ({self.why[x]})', 'add PAR_ABS,k'))
            if ins.op == 'shl':
                amt = self.root(ins.ops[1])
                if self.space.get(amt) == PA:
                    out.append((ins, f'shift by an absolute parity index ({self.why[amt]}): bitmaps are per kind', 'shl 1,PAR_ABS'))
            if ins.op == 'getelementptr' and len(ins.ops) == 2:
                base, idx = strip_ptr_casts(fn, ins.ops[0]), self.root(ins.ops[1])
                need = None
                bd = fn.defs.get(base)
                if bd is not None and bd.op == 'load':
                    root, steps = access_path(P, fn, bd.ops[0])
                    fl = fields_in_path(steps)
                    if fl and fl[-1] == ('xor_code_s', 'parity_bms'):
                        need = (PR, 'parity_bms[]')
                    if fl and fl[-1] == ('xor_code_s', 'data_bms'):
                        need = (D, 'data_bms[]')
                if base in self.arr_roles:
                    need = (D, 'data[]') if self.arr_roles[base] == 'data' else (PR, 'parity[]')
                if need and idx in self.space and self.space[idx] != need[0]:
                    out.append((ins, f'subscript of {need[1]} needs {need[0]} but the index is {self.space[idx]} ({self.why[idx]})',
                                f'{need[1]} indexed by {self.space[idx]}'))
        return out

def index_space_rule(P, r):
    cg = callgraph.get(P)
    # list roles of int* parameters from call sites (one interprocedural level, iterated)
    param_lists = {}
    for _ in range(4):
        for u in XOR_UNITS:
            m = P.mod(u)
            for fn in m.functions.values():
                lk = dict(param_lists.get(fn.name, {}))
                for ins in fn.insts():
                    if ins.op == 'call' and ins.res:
                        if ins.callee == '@get_missing_data':
                            lk[ins.res] = D
                        if ins.callee == '@get_missing_parity':
                            lk[ins.res] = PA
                for ins in fn.insts():
                    if ins.op == 'call' and ins.callee in P.fns:
                        cal = P.fns[ins.callee]
                        for ai, a in enumerate(ins.ops):
                            a = strip_ptr_casts(fn, a) if isinstance(a, str) else a
                            if a in lk and ai < len(cal.params):
                                param_lists.setdefault(cal.name, {}).setdefault(cal.params[ai][1], lk[a])
    total = 0
    needs = {}
    for u in XOR_UNITS:
        for fn in P.mod(u).functions.values():
            nd = FnSpaces(P, fn, {}, {}).param_needs()
            if nd:
                needs[fn.name] = nd
    # a parameter handed on unchanged to a parameter with a need inherits it
    for _ in range(4):
        for u in XOR_UNITS:
            for fn in P.mod(u).functions.values():
                for ins in fn.insts():
                    if ins.op == 'call' and ins.callee in needs:
                        for pi, sp in needs[ins.callee].items():
                            if pi < len(ins.ops):
                                mine = fn.param_index(strip_int_casts(fn, ins.ops[pi]))
                                if mine is not None:
                                    needs.setdefault(fn.name, {}).setdefault(mine, sp)
    for u in XOR_UNITS:
        m = P.mod(u)
        for fn in m.functions.values():
            arr_roles, list_kinds = {}, dict(param_lists.get(fn.name, {}))
            cpp = [p for p in fn.params if p[0] == 'i8**']
            if len(cpp) >= 2:
                arr_roles[cpp[0][1]] = 'data'; arr_roles[cpp[1][1]] = 'parity'
            for ins in fn.insts():
                if ins.op == 'call' and ins.res:
                    if ins.callee == '@get_missing_data':
                        list_kinds[ins.res] = D
                    if ins.callee == '@get_missing_parity':
                        list_kinds[ins.res] = PA
            fs = FnSpaces(P, fn, list_kinds, arr_roles).infer()
            bad = fs.check() + fs.check_calls(needs)
            badset = {id(i) for i, _, _ in bad}
            for ins, msg, sig in bad:
                r.fail(f'{fn.name} line {ins.line}', func=fn.name, sig=sig, loc=ins.loc, msg=msg)
            n = 0
            for v, sp in fs.space.items():
                n += 1
            total += n
            if n and not bad:
                r.ok(f'{fn.name}: {n} index values typed, all sinks agree', func=fn.name, loc=fn.mod.src,
                     facts={'spaces': {v: s for v, s in list(fs.space.items())[:6]}})
    return total

# ------------------------------------------------------------------ failure-pattern machine (R05f, R02a)
def pattern_enum(P):
    e = P.mod(XOR_UNITS[0]).enumerators('FAIL_PATTERN_')
    if len(e) < 5 or 'FAIL_PATTERN_GE_HD' not in e:
        raise AnalysisBroken('anchor vanished: failure_pattern_t enumerators')
    return e

def from_gfp(fn, v, depth=0):
    d = fn.defs.get(v)
    if d is None or depth > 6:
        return False
    if d.op == 'call':
        return d.callee == '@get_failure_pattern'
    if d.op == 'phi':
        return any(from_gfp(fn, x, depth + 1) for x, _ in d.incoming if x.startswith('%'))
    if d.op in ('sext', 'zext', 'trunc'):
        return from_gfp(fn, d.ops[0], depth + 1)
    return False

def pattern_switches(P):
    out = []
    for u in XOR_UNITS:
        for fn in P.mod(u).functions.values():
            for ins in fn.insts():
                if ins.op == 'switch' and (fn.name == '@get_failure_pattern' or from_gfp(fn, ins.ops[0])):
                    out.append((fn, ins))
    return out

def arm_region(fn, sw, label):
    """blocks of one switch arm: reachable from the arm entry without passing the common merge (first block that
    post-dominates all arms ~ approximated as blocks reachable from every arm)"""
    from .cfg import postdominators
    ip = postdominators(fn).get(sw.bb)
    if ip is None or not hasattr(ip, 'insts'):
        raise AnalysisBroken(f'{fn.name}: switch at line {sw.line} has no merge block')
    region = reachable_from(fn.blocks[label], avoid_blocks={ip, sw.bb})
    if fn.blocks[label] is ip:
        region = set()
    return [b for b in region if b is not ip], {ip}

def pattern_calls(fn):
    return [i for i in fn.insts() if i.op == 'call' and i.callee == '@get_failure_pattern' and i.res]

def dispatch_call(fn):
    """the get_failure_pattern call whose result is dispatched on last (decoders / planners call it once or twice)"""
    pcs = pattern_calls(fn)
    if not pcs:
        return None
    return pcs[-1]

INTERESTING = ('@decode_one_data', '@decode_two_data', '@decode_three_data', '@selective_encode', '@fragments_needed_one_data',
               '@fragments_needed_two_data', '@fragments_needed_three_data')

def refusal_rule(P, r):
    """R02a: for a failure pattern beyond tolerance (GE_HD, or any value outside the enumeration) the decoder and the planner
    return a negative value on every path - decided by following the pattern value through the dispatch (switch, if-chain or
    fall-through groups alike)"""
    from . import oblig
    enum = pattern_enum(P)
    ge = enum['FAIL_PATTERN_GE_HD']
    outside = max(enum.values()) + 7
    n = 0
    for u in XOR_UNITS:
        for fn in P.mod(u).functions.values():
            if fn.name == '@get_failure_pattern' or fn.retty.strip() == 'void':
                continue
            pc = dispatch_call(fn)
            if pc is None:
                continue
            n += 1
            seed = dominating_equalities(fn, pc.bb)
            for name, v in (('FAIL_PATTERN_GE_HD', ge), ('a value outside the enumeration', outside)):
                outs = oblig.simulate(fn, pc, v, seed=seed)
                rets = [val for kind, val, tr in outs if kind == 'ret']
                inst = f'{fn.name}: pattern {name} returns an error'
                if rets and all(x is not None and x < 0 for x in rets) and not any(k == 'limit' for k, _, _ in outs):
                    r.ok(inst, func=fn.name, loc=pc.loc, facts={'returns': sorted(set(rets))})
                else:
                    shown = sorted({str(x) for x in rets})
                    r.fail(inst, func=fn.name, sig=f'pattern {name} may return {shown}', loc=pc.loc,
                           msg=f'for a failure pattern beyond the code\'s tolerance {fn.name} may return {shown}: success with unrepaired buffers')
    return n

def dominating_equalities(fn, block):
    """SSA values known to equal a constant at `block`: from dominating `v == c` edges, and phis in dominating blocks all of
    whose incoming values are that constant (a constant, or a value the incoming edge tests equal to it - the shape branch
    threading leaves behind)"""
    from .guards import dominating_edges, edge_condition
    from .cfg import dominators, dominates
    def edge_eq(src, dst):
        out = {}
        for cond, truth in edge_condition(fn, src, dst):
            d = fn.defs.get(cond) if isinstance(cond, str) else None
            if d is not None and d.op == 'icmp' and ((d.pred == 'eq' and truth) or (d.pred == 'ne' and not truth)):
                a, b = d.ops
                if INT.match(b):
                    out[strip_int_casts(fn, a)] = int(b)
                elif INT.match(a):
                    out[strip_int_casts(fn, b)] = int(a)
            elif isinstance(cond, tuple) and cond[0] == 'switch' and len(cond[2]) == 1:
                out[strip_int_casts(fn, cond[1])] = cond[2][0]
        return out
    known = {}
    for src, dst in dominating_edges(fn, block):
        known.update(edge_eq(src, dst))
    idom = dominators(fn)
    for b in fn.order:
        if not (b is block or dominates(idom, b, block)):
            continue
        for p in b.insts:
            if p.op != 'phi':
                break
            vals = set()
            for v, l in p.incoming:
                if INT.match(v):
                    vals.add(int(v))
                else:
                    pb = fn.blocks[l]
                    e = edge_eq(pb, b)
                    e.update({k: x for s_, d_ in dominating_edges(fn, pb) for k, x in edge_eq(s_, d_).items()})
                    vals.add(e.get(strip_int_casts(fn, v), ('?', v)))
            if len(vals) == 1 and isinstance(next(iter(vals)), int):
                known[p.res] = next(iter(vals))
    return known

def sentinel_rule(P, r):
    """R02e: results of the -1-sentinel search used as subscript / shift are dominated by a >= 0 test"""
    n = 0
    for u in XOR_UNITS:
        for fn in P.mod(u).functions.values():
            C = Canon(P, fn)
            for call in fn.insts():
                if not (call.op == 'call' and call.callee == '@index_of_connected_parity' and call.res):
                    continue
                # values that may hold the result (through phis / casts)
                vals = {call.res}
                changed = True
                while changed:
                    changed = False
                    for i in fn.insts():
                        if i.res and i.res not in vals:
                            if i.op in ('sext', 'zext', 'trunc') and i.ops[0] in vals:
                                vals.add(i.res); changed = True
                            elif i.op == 'phi' and any(v in vals for v, _ in i.incoming):
                                vals.add(i.res); changed = True
                uses = []
                for i in fn.insts():
                    if i.op == 'sub' and i.ops[0] in vals:
                        uses.append((i, i.ops[0], 'index - k'))
                    elif i.op == 'getelementptr' and any(o in vals for o in i.ops[1:]):
                        uses.append((i, [o for o in i.ops[1:] if o in vals][0], 'subscript'))
                    elif i.op == 'shl' and i.ops[1] in vals:
                        uses.append((i, i.ops[1], 'shift amount'))
                for i, v, how in uses:
                    n += 1
                    from .guards import lower_bound_at
                    lo = lower_bound_at(P, fn, v, i.bb)
                    inst = f'{fn.name}: search result used as {how} (line {i.line})'
                    if lo is not None and lo >= 0:
                        r.ok(inst, func=fn.name, loc=i.loc, facts={'lower_bound': lo})
                    else:
                        r.fail(inst, func=fn.name, sig=f'sentinel -1 reaches {how}', loc=i.loc,
                               msg=f'index_of_connected_parity returns -1 when no parity qualifies; here its result is used as {how} without a dominating ">= 0" test')
    return n

def parse_pattern(name):
    m = re.match(r'FAIL_PATTERN_(\d)D_(\d)P$', name)
    return (int(m.group(1)), int(m.group(2))) if m else None

def classifier_by_value(P, r, enum, byval, bypat, ge, why):
    """get_failure_pattern evaluated (consteval) on every list of up to four erasures over two data and two parity indexes, for
    hd 3 and 4: the answer must be the enumerator that names the counts, GE_HD from the fourth erasure on"""
    from .consteval import ConstEval
    import itertools
    gfp = P.fn('get_failure_pattern')
    ik, ihd = P.field_index('xor_code_s', 'k'), P.field_index('xor_code_s', 'hd')
    K = 5
    CE = ConstEval(P, gfp.mod)
    elems = [0, 1, 2, K, K + 1, K + 2]
    nev, bad = 0, None
    seen = {}
    try:
        for hd in (3, 4):
            for n in range(0, 5):
                for lst in itertools.permutations(elems, n):
                    if n >= 3 and lst != tuple(sorted(lst)) and n == 4:
                        continue
                    objs = {'desc': {(ik,): K, (ihd,): hd}, 'L': {(i_,): v for i_, v in enumerate(lst + (-1,))}}
                    def hook(ins, args, objs=objs):
                        g_ = P.fns.get(ins.callee)
                        if g_ is not None and g_.order:
                            return ConstEval(P, g_.mod).run(g_, args, objs=objs, call_hook=hook)['ret']
                        return None
                    res = CE.run(gfp, [('obj', 'desc', ()), ('obj', 'L', ())], objs=objs, call_hook=hook)
                    nev += 1
                    nd, np_ = sum(1 for x in lst if x < K), sum(1 for x in lst if x >= K)
                    want = bypat.get((nd, np_), ge) if n <= 3 else ge
                    seen[(nd, np_)] = res['ret']
                    if res['ret'] != want and bad is None:
                        bad = (lst, hd, res['ret'], want)
    except Exception as e2:
        r.undecided('failure-pattern classifier', loc=gfp.mod.src, msg=f'{why}; not decidable by value either: {str(e2)[:100]}')
        return
    for name, v in sorted(enum.items(), key=lambda kv: kv[1]):
        pp = parse_pattern(name)
        if pp is None:
            continue
        inst = f'transition from {name}: +data -> {byval.get(bypat.get((pp[0] + 1, pp[1]), ge))}, +parity -> {byval.get(bypat.get((pp[0], pp[1] + 1), ge))}'
        if bad is None:
            r.ok(inst + f' (classifier decided as a value function on {nev} erasure lists)', func=gfp.name, loc=gfp.mod.src)
        else:
            lst, hd, got, want = bad
            r.fail(inst, func=gfp.name, sig=f'classifier({list(lst)}) = {byval.get(got, got)}', loc=gfp.mod.src,
                   msg=f'for the erasure list {list(lst)} (k = {K}, hd = {hd}) the classifier answers {byval.get(got, got)}, the counts name {byval.get(want, want)}')
            break

def machine_rule(P, r):
    """R05f: classifier transition function and decoder dispatch, decided by following concrete pattern values"""
    from . import oblig
    from .cfg import natural_loops
    enum = pattern_enum(P)
    byval = {v: k for k, v in enum.items()}
    bypat = {parse_pattern(k): v for k, v in enum.items() if parse_pattern(k)}
    ge = enum['FAIL_PATTERN_GE_HD']
    # ---- transition function of get_failure_pattern: one loop iteration from pattern v with a data / parity erasure
    def _by_structure():
        gfp = P.fn('get_failure_pattern')
        loops = natural_loops(gfp)
        if len(loops) != 1:
            raise AnalysisBroken('anchor vanished: get_failure_pattern is not a single loop over the missing list')
        h, body = next(iter(loops.items()))
        kvals = set()
        for ins in gfp.insts():
            if ins.op == 'load':
                root, steps = access_path(P, gfp, ins.ops[0])
                if fields_in_path(steps)[-1:] == [('xor_code_s', 'k')]:
                    kvals.add(ins.res)
        # the loop-carried pattern: a phi in the header whose initial value is the enumerator 0D_0P
        start_pat = bypat.get((0, 0))
        phis = [p for p in h.insts if p.op == 'phi' and any(v == str(start_pat) for v, l in p.incoming if gfp.blocks[l] not in body)]
        if len(phis) != 1:
            raise AnalysisBroken('anchor vanished: loop-carried failure pattern of get_failure_pattern')
        pat = phis[0]
        # comparisons "missing_idxs[i] < k"
        dtests = []
        for ins in gfp.insts():
            if ins.op == 'icmp':
                a, b = strip_int_casts(gfp, ins.ops[0]), strip_int_casts(gfp, ins.ops[1])
                ad, bd = gfp.defs.get(a), gfp.defs.get(b)
                if b in kvals and ad is not None and ad.op == 'load' and ins.pred in ('slt', 'sge'):
                    dtests.append((ins, ins.pred == 'slt'))
                elif a in kvals and bd is not None and bd.op == 'load' and ins.pred in ('sgt', 'sle'):
                    dtests.append((ins, ins.pred == 'sgt'))
        if not dtests:
            raise AnalysisBroken('anchor vanished: get_failure_pattern does not compare list elements with k')
        # loop continuation test: element > -1 ; force "list not exhausted"
        # (the sentinel test of the list, wherever the loop condition puts it: `elem > -1`, `pattern != GE_HD && elem >= 0`, ...)
        from .oblig import _eval_icmp as _ev_s
        conts = []
        for c in gfp.insts():
            if c.op != 'icmp' or c.bb not in body:
                continue
            a_, b_ = strip_int_casts(gfp, c.ops[0]), strip_int_casts(gfp, c.ops[1])
            ad_, bd_ = gfp.defs.get(a_), gfp.defs.get(b_)
            if ad_ is not None and ad_.op == 'load' and b_ in ('-1', '0') and a_ not in kvals | {pat.res}:
                conts.append((c, int(_ev_s(c.pred, 5, int(b_), 32))))
            elif bd_ is not None and bd_.op == 'load' and a_ in ('-1', '0') and b_ not in kvals | {pat.res}:
                conts.append((c, int(_ev_s(c.pred, int(a_), 5, 32))))
        if not conts:
            conts = [(c, 1 if c.pred in ('sgt', 'sge', 'ne') else 0) for c in gfp.insts() if c.op == 'icmp' and c.bb is h]
        first = None
        for b in gfp.order:
            if b is h:
                first = h.insts[0]
        rets = [i for i in gfp.insts() if i.op == 'ret']
        hdvals = set()
        for ins in gfp.insts():
            if ins.op == 'load':
                root, steps = access_path(P, gfp, ins.ops[0])
                if fields_in_path(steps)[-1:] == [('xor_code_s', 'hd')]:
                    hdvals.add(ins.res)
        for name, v in sorted(enum.items(), key=lambda kv: kv[1]):
            pp = parse_pattern(name)
            if pp is None:
                continue
            a, b_ = pp
            exp = {True: bypat.get((a + 1, b_), ge), False: bypat.get((a, b_ + 1), ge)}
            got = {}
            for isdata in (True, False):
                seed = {pat.res: v}
                for hv in hdvals:
                    seed[hv] = 3          # every accepted shape has hd in {3, 4} (R05c); the classifier only compares it with a counter

                for ins, sense in dtests:
                    seed[ins.res] = int(isdata == sense)
                for c, tv_ in conts:
                    seed[c.res] = tv_
                outs = oblig.simulate(gfp, None, None, seed=seed, start=h.insts[len([x for x in h.insts if x.op == 'phi'])], watch=(h, pat.res))
                vals = set()
                for kind, val, tr in outs:
                    if kind == 'watch':
                        vals.add(val)
                    elif kind == 'ret':
                        vals.add(val)         # the loop left early (pattern GE_HD returns at once)
                got[isdata] = vals
            inst = f'transition from {name}: +data -> {byval.get(exp[True])}, +parity -> {byval.get(exp[False])}'
            if any(None in g or not g for g in got.values()):
                r.undecided(inst, loc=h.insts[-1].loc, msg=f'next pattern not determined: {got}')
            elif got[True] == {exp[True]} and got[False] == {exp[False]}:
                r.ok(inst, func=gfp.name, loc=h.insts[-1].loc)
            else:
                show = lambda s_: '/'.join(byval.get(x, str(x)) for x in sorted(s_))
                r.fail(inst, func=gfp.name, sig=f'{name}: +data->{show(got[True])} +parity->{show(got[False])}', loc=h.insts[-1].loc,
                       msg=f'from {name} the classifier goes to {show(got[True])} on a data erasure and {show(got[False])} on a parity erasure')
        # ---- decoder dispatch
    try:
        _by_structure()
    except AnalysisBroken as e_:
        # the classifier is not written as one loop over a loop-carried pattern (counters and a look-up table, ...): decide it as a
        # value function of the list instead
        classifier_by_value(P, r, enum, byval, bypat, ge, str(e_))
    dec = P.fn('xor_hd_decode')
    pc = dispatch_call(dec)
    if pc is None:
        raise AnalysisBroken('anchor vanished: xor_hd_decode does not classify the failure pattern')
    decoders = {1: '@decode_one_data', 2: '@decode_two_data', 3: '@decode_three_data'}
    for dn in decoders.values():
        P.fn(dn)                      # the arms are identified by the decoder they call: without the decoders the rule has no anchor
    dp = dec.params[-1][1]
    for name, v in sorted(enum.items(), key=lambda kv: kv[1]):
        pp = parse_pattern(name)
        if pp is None:
            continue
        a, b_ = pp
        res = {}
        null_lists = []
        for dpv in (0, 1):
            evs = []
            outs = oblig.simulate(dec, pc, v, stop_calls=INTERESTING, seed={dp: dpv}, event_env=evs)
            res[dpv] = {val.callee for kind, val, tr in outs if kind == 'event'}
            # with parities among the erasures the data decoders must be told which ones: the list argument is never NULL
            for ins_, vals_ in evs:
                if ins_.callee in decoders.values() and b_ > 0 and len(ins_.ops) > 4 and vals_.get(ins_.ops[4]) == 0:
                    null_lists.append((dpv, ins_))
        called = res[0] | res[1]
        want = decoders.get(a)
        have = {c for c in called if c in decoders.values()}
        inst = f'xor_hd_decode pattern {name}'
        if (want is None and have) or (want is not None and have != {want}):
            r.fail(inst + ' data decoder', func=dec.name, sig=f'{name}: calls {sorted(have)}', loc=pc.loc,
                   msg=f'pattern {name} must use {want or "no data decoder"}, the dispatch reaches {sorted(have) or "none"}')
        else:
            r.ok(inst + f': data decoder {want or "none"}', func=dec.name, loc=pc.loc)
        if null_lists:
            dpv_, ins_ = null_lists[0]
            r.fail(inst + ' missing-parity list', func=dec.name, sig=f'{name}: {ins_.callee[1:]} gets a NULL missing-parity list', loc=ins_.loc,
                   msg=f'pattern {name} has erased parities but {ins_.callee[1:]} is called with a NULL missing-parity list when decode_parity == {dpv_}: '
                       'the decoder may then pick an erased (zero-filled) parity as its source equation and returns wrong data with rc 0')
        se1, se0 = '@selective_encode' in res[1], '@selective_encode' in res[0]
        if b_ > 0 and not se1:
            r.fail(inst + ' parity', func=dec.name, sig=f'{name}: no selective_encode', loc=pc.loc,
                   msg=f'pattern {name} has erased parities but they are never re-encoded (reconstruct of a parity would return stale bytes)')
        elif b_ > 0 and se0:
            r.fail(inst + ' parity guard', func=dec.name, sig=f'{name}: selective_encode not guarded by decode_parity', loc=pc.loc,
                   msg='parity re-encode is not conditional on decode_parity')
        elif b_ == 0 and (se0 or se1):
            r.fail(inst + ' parity', func=dec.name, sig=f'{name}: unexpected selective_encode', loc=pc.loc, msg='re-encodes parity although none is erased')
        else:
            r.ok(inst + (': selective_encode under decode_parity' if b_ > 0 else ': no parity work'), func=dec.name, loc=pc.loc, trivial=(b_ == 0))

# ------------------------------------------------------------------ R05g XOR kernel covers every byte
def type_bytes(ty):
    ty = ty.strip()
    m = re.match(r'^<(\d+) x i(\d+)>$', ty)
    if m:
        return int(m.group(1)) * int(m.group(2)) // 8
    m = re.match(r'^i(\d+)$', ty)
    if m:
        return int(m.group(1)) // 8
    return None

def kernel_rule(P, r):
    from .cfg import natural_loops
    f = P.fn('xor_bufs_and_store')
    C = Canon(P, f)
    if len(f.params) != 3:
        raise AnalysisBroken('anchor vanished: xor_bufs_and_store(buf1, buf2, blocksize)')
    bs = f.params[2][1]
    dst = f.params[1][1]
    from .vflow import derived_pointers
    A, _ = derived_pointers(f, [dst])
    loops = []
    for h, body in natural_loops(f).items():
        t = h.insts[-1]
        iv = bound = pred = None
        if t.op == 'br' and len(t.targets) == 2 and t.ops:
            c = f.defs.get(t.ops[0])
            if c is not None and c.op == 'icmp':
                a = strip_int_casts(f, c.ops[0])
                ad = f.defs.get(a)
                if ad is not None and ad.op == 'add':          # while (i + c <= n): still a loop on i
                    for o in ad.ops:
                        od = f.defs.get(strip_int_casts(f, o))
                        if od is not None and od.op == 'phi' and od.bb is h:
                            ad = od
                if ad is not None and ad.op == 'phi' and ad.bb is h:
                    iv, bound, pred = ad, c.ops[1], c.pred
        stores = [i for b in body for i in b.insts if i.op == 'store' and i.ops[1] in A]
        if iv is None or not stores:
            continue
        init = [v for v, l in iv.incoming if f.blocks[l] not in body]
        step = None
        for v, l in iv.incoming:
            if f.blocks[l] in body:
                d = f.defs.get(v)
                if d is not None and d.op == 'add' and iv.res in [strip_int_casts(f, o) for o in d.ops]:
                    other = [o for o in d.ops if strip_int_casts(f, o) != iv.res]
                    step = int(other[0]) if other and INT.match(other[0]) else None
        w = type_bytes(stores[0].ty)
        # the store address must be dst[iv]
        g = f.defs.get(stores[0].ops[1])
        while g is not None and g.op == 'bitcast':
            g = f.defs.get(g.ops[0])
        idx_ok = g is not None and g.op == 'getelementptr' and strip_int_casts(f, g.ops[-1]) == iv.res
        loops.append(dict(header=h, iv=iv, init=init[0] if len(init) == 1 else None, step=step, bound=bound, pred=pred, w=w,
                          store=stores[0], idx_ok=idx_ok))
    loops.sort(key=lambda l: f.order.index(l['header']))
    if len(loops) < 2:
        r.undecided('xor_bufs_and_store loops', msg=f'expected a wide loop and a byte tail loop, found {len(loops)} storing loops')
        return
    wide, tail = loops[0], loops[-1]
    inst = 'xor_bufs_and_store: byte tail covers [wide extent, blocksize)'
    S = tail['init']
    problems = []
    if tail['w'] != 1:
        problems.append(f'tail loop works on {tail["w"]}-byte elements: a remainder smaller than that is skipped')
    if (tail['step'] != 1 or not tail['idx_ok']) and tail['w'] == 1:
        problems.append(f'tail loop step {tail["step"]} / address not buf2[i]')
    if tail['w'] == 1 and not (tail['pred'] in ('slt', 'ult') and strip_int_casts(f, tail['bound']) == bs):
        problems.append(f'tail loop bound is {C.val(tail["bound"])} ({tail["pred"]}), not i < blocksize')
    if problems:
        r.fail(inst, func=f.name, sig='tail loop: ' + '; '.join(problems)[:100], loc=tail['store'].loc,
               msg='the XOR kernel does not process every byte of the block: ' + '; '.join(problems))
    else:
        r.ok(inst, func=f.name, loc=tail['store'].loc, facts={'start': C.val(S) if S else None})
    # wide loop: [0, N) elements of W bytes with N = S / W and S = blocksize - blocksize % 16 (or 0)
    inst = 'xor_bufs_and_store: wide loop covers [0, tail start) exactly'
    W = wide['w']
    okw = wide['init'] == '0' and wide['step'] == 1 and wide['idx_ok'] and W and 16 % W == 0 and wide['pred'] in ('slt', 'ult')
    N = strip_int_casts(f, wide['bound'])
    nd = f.defs.get(N)
    okn = nd is not None and nd.op in ('sdiv', 'udiv') and strip_int_casts(f, nd.ops[0]) == S and nd.ops[1] == str(W)
    sd = f.defs.get(S) if S else None
    svals = set()
    if sd is not None and sd.op == 'phi':
        svals = {C.val(v) for v, _ in sd.incoming}
    elif sd is not None and sd.op == 'select':
        svals = {C.val(sd.ops[1]), C.val(sd.ops[2])}
    oks = svals == {'0', f'(arg2 sub (arg2 srem 16))'} or svals == {'0', '(arg2 sub (15 and arg2))'}
    if okw and okn and oks:
        r.ok(inst, func=f.name, loc=wide['store'].loc, facts={'element_bytes': W, 'tail_start': sorted(svals)})
    elif not (okw and okn):
        r.fail(inst, func=f.name, sig=f'wide loop W={W} bound {C.val(wide["bound"])}', loc=wide['store'].loc,
               msg=f'the wide loop does not run over exactly (tail start)/{W} elements from 0 (bound {C.val(wide["bound"])}, init {wide["init"]}, step {wide["step"]})')
    else:
        r.undecided(inst, loc=wide['store'].loc, msg=f'tail start has an unrecognised form: {sorted(svals)}')

# ------------------------------------------------------------------ R05h reconstruct fallback arguments
def reconstruct_fallback_rule(P, r):
    cg = callgraph.get(P)
    f = P.fn('xor_reconstruct_one')
    C = Canon(P, f)
    calls = [i for i in f.insts() if i.op == 'call' and i.callee.startswith('%') and '@xor_hd_decode' in cg.callees(f, i)]
    if not calls:
        raise AnalysisBroken('anchor vanished: xor_reconstruct_one has no fallback to the full decoder')
    if len(f.params) < 6:
        raise AnalysisBroken('anchor vanished: xor_reconstruct_one signature')
    reach = {'data': False, 'parity': False}
    for c in calls:
        F = Facts(P, f, c.bb)
        dom_par = any((p == 'sge' and a == 'arg4' and re.search(r'\.k$', b)) or (p == 'sle' and b == 'arg4' and re.search(r'\.k$', a)) for p, a, b in F.facts)
        dom_data = any((p == 'slt' and a == 'arg4' and re.search(r'\.k$', b)) or (p == 'sgt' and b == 'arg4' and re.search(r'\.k$', a)) for p, a, b in F.facts)
        if not dom_par:
            reach['data'] = True
        if not dom_data:
            reach['parity'] = True
        want = {0: 'arg0', 1: 'arg1', 2: 'arg2', 3: 'arg3', 4: 'arg5'}
        got = {i: C.val(strip_int_casts(f, c.ops[i])) for i in range(5)}
        flag = C.val(c.ops[5])
        kind = 'parity' if dom_par else ('data' if dom_data else 'data or parity')
        inst = f'xor_reconstruct_one fallback at line {c.line} ({kind} destination)'
        bad = [f'argument {i} is {got[i]} (expected the caller\'s {want[i]})' for i in want if got[i] != want[i]]
        if not dom_data and flag in ('0',):
            bad.append('decode_parity is 0 on a call that serves a parity destination')
        if bad:
            r.fail(inst, func=f.name, sig='fallback args: ' + '; '.join(bad)[:100], loc=c.loc,
                   msg='the fallback to the full decoder must receive the complete erasure list and buffers: ' + '; '.join(bad))
        else:
            r.ok(inst, func=f.name, loc=c.loc, facts={'args': got, 'decode_parity': flag})
    inst = 'xor_reconstruct_one: a fallback exists for data and for parity destinations'
    miss = [k for k, v in reach.items() if not v]
    if miss:
        r.fail(inst, func=f.name, sig=f'no fallback for {miss[0]} destinations', loc=calls[0].loc,
               msg=f'no call of the full decoder can be reached when the destination is a {miss[0]} fragment without a cheap equation')
    else:
        r.ok(inst, func=f.name, loc=calls[0].loc)


# ------------------------------------------------------------------ R15g decoders write only what is missing
def write_targets_rule(P, r):
    """every buffer written by the XOR decode-side functions (destination of xor_bufs_and_store / fast_memcpy / memset / memcpy) is
    data[x] / parity[x] with x taken from a missing-index list (or the destination index parameter), or a local scratch
    allocation - never a buffer selected by searching the surviving equations, which is a caller-supplied input"""
    from .vflow import derived_pointers
    WR = {'@xor_bufs_and_store': 1, '@fast_memcpy': 0, '@llvm.memset.p0i8.i64': 0, '@llvm.memcpy.p0i8.p0i8.i64': 0, '@memset': 0, '@memcpy': 0}
    n = 0
    for u in XOR_UNITS:
        for fn in P.mod(u).functions.values():
            if fn.name in ('@xor_code_encode', '@xor_bufs_and_store', '@fast_memcpy'):
                continue
            arrs = [pn for pty, pn in fn.params if pty == 'i8**']
            if len(arrs) < 2:
                continue
            lists = {pn for pty, pn in fn.params if pty == 'i32*'} | {i.res for i in fn.insts() if i.op == 'call' and i.callee in ('@get_missing_data', '@get_missing_parity')}
            M = {pn for pty, pn in fn.params if pty == 'i32'}
            # seeds: elements loaded from a missing-index list
            for ins in fn.insts():
                if ins.op == 'load' and ins.res:
                    g = fn.defs.get(ins.ops[0])
                    base = strip_ptr_casts(fn, g.ops[0]) if g is not None and g.op == 'getelementptr' else strip_ptr_casts(fn, ins.ops[0])
                    bd = fn.defs.get(base)
                    if bd is not None and bd.op == 'phi':
                        nxt = [v for v, _ in bd.incoming if strip_ptr_casts(fn, v) in lists]
                        base = strip_ptr_casts(fn, nxt[0]) if nxt else base
                    if base in lists:
                        M.add(ins.res)
            # greatest fixpoint over casts / +-k / merges (loop-carried "found element" variables are phi cycles): assume every such
            # node derives from the lists, then drop the ones with an operand that does not
            nodes = {ins.res: ins for ins in fn.insts() if ins.res and ins.op in ('sext', 'zext', 'trunc', 'add', 'sub', 'select', 'phi') and not ins.ty.endswith('*')}
            cand = set(nodes)
            def fine(o):
                if o in M or o in cand or INT.match(o):
                    return True
                d = fn.defs.get(o)
                return d is not None and d.op == 'load' and o not in nodes and any(fl_ and fl_[-1][1] in ('k', 'm') for fl_ in [fields_in_path(access_path(P, fn, d.ops[0])[1])])
            changed = True
            while changed:
                changed = False
                for nme in list(cand):
                    ins = nodes[nme]
                    ops = [v for v, _ in ins.incoming] if ins.op == 'phi' else (ins.ops[1:] if ins.op == 'select' else ins.ops)
                    if not all(fine(o) for o in ops):
                        cand.discard(nme); changed = True
            # a merge must have at least one list-derived source (not only constants)
            def grounded(nme, seen_=None):
                seen_ = seen_ or set()
                if nme in M:
                    return True
                if nme in seen_ or nme not in cand:
                    return False
                seen_.add(nme)
                ins = nodes[nme]
                ops = [v for v, _ in ins.incoming] if ins.op == 'phi' else (ins.ops[1:] if ins.op == 'select' else ins.ops)
                return any(grounded(o, seen_) for o in ops)
            M |= {nme for nme in cand if grounded(nme)}
            def target_ok(v, depth=0):
                v = strip_ptr_casts(fn, v)
                d = fn.defs.get(v)
                if d is None:
                    return v not in arrs and fn.param_index(v) is not None and False, f'parameter {v}'
                if d.op == 'call' and d.callee in ('@malloc', '@calloc', '@get_aligned_buffer16'):
                    return True, 'local allocation'
                if d.op == 'load':
                    g = fn.defs.get(d.ops[0])
                    if g is not None and g.op == 'getelementptr' and strip_ptr_casts(fn, g.ops[0]) in arrs:
                        idx = strip_int_casts(fn, g.ops[-1])
                        return (idx in M), f'{"data" if strip_ptr_casts(fn, g.ops[0]) == arrs[0] else "parity"}[{Canon(P, fn).val(idx)[:40]}]'
                    sl = fn.defs.get(strip_ptr_casts(fn, d.ops[0]))
                    if sl is not None and sl.op == 'alloca':
                        return True, 'local slot (posix_memalign)'
                if d.op in ('phi', 'select') and depth < 4:
                    ops = [x for x, _ in d.incoming] if d.op == 'phi' else d.ops[1:]
                    res = [target_ok(o, depth + 1) for o in ops if o != 'null']
                    bad = [w for ok_, w in res if not ok_]
                    return (not bad), (bad[0] if bad else 'merge of allowed targets')
                if d.op == 'getelementptr':
                    return target_ok(d.ops[0], depth + 1)
                return False, Canon(P, fn).val(v)[:50]
            for c in [i for i in fn.insts() if i.op == 'call' and i.callee in WR]:
                n += 1
                ok_, what = target_ok(c.ops[WR[c.callee]])
                inst = f'{fn.name}: {c.callee[1:].split(".")[0]} at line {c.line} writes {what}'
                if ok_:
                    r.ok(inst, func=fn.name, loc=c.loc)
                else:
                    r.fail(inst, func=fn.name, sig=f'writes {what}, not selected by a missing-index list', loc=c.loc,
                           msg=f'{fn.name} writes into {what}: that buffer is chosen by searching the surviving equations, i.e. it is a fragment the caller supplied - '
                               'inputs must not be used as scratch space, even if restored afterwards')
    return n
