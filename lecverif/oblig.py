"""helpers for E10 obligations over canonical atoms"""
import re
from .paths import enumerate_paths, Path, Atom
from .guards import NEG, SWAP

EXT = re.compile(r'^(zext|sext)\.i\d+\((.*)\)$')
def strip_ext(e):
    while True:
        m = EXT.match(e)
        if not m:
            return e
        e = m.group(2)

TRUNC32 = re.compile(r'^trunc\.i32\((.*)\)$')
def strip_trunc32(e):
    m = TRUNC32.match(e)
    return m.group(1) if m else e

def const_of(e):
    return int(e) if re.match(r'-?\d+$', e) else None

def split_symbolic_returns(paths):
    """a path returning zext(icmp) is split into its two outcomes"""
    out = []
    for p in paths:
        m = re.match(r'^(?:zext|sext)\.i\d+\(\((.*) (eq|ne|ult|ule|ugt|uge|slt|sle|sgt|sge) (.*)\)\)$', p.ret)
        if m and not re.match(r'-?\d+$', p.ret):
            a, pred, b = m.group(1), m.group(2), m.group(3)
            at = Atom(pred, a, b, 'i32?', p.blocks[-1].insts[-1], p.ret)
            out.append(Path(p.conds + [(at, True)], '1', p.blocks, p.env, p.events))
            out.append(Path(p.conds + [(at, False)], '0', p.blocks, p.env, p.events))
        else:
            out.append(p)
    return out

def holds(truths, pred, a, b, ext_ok=True):
    """is (a pred b) among the truths (either operand order), optionally ignoring zero/sign extension wrappers"""
    for p, x, y, w, ins in truths:
        xs, ys = (strip_ext(x), strip_ext(y)) if ext_ok else (x, y)
        if p == pred and xs == a and ys == b:
            return (p, x, y, w, ins)
        if SWAP[p] == pred and ys == a and xs == b:
            return (p, x, y, w, ins)
    return None

def find_between(truths, fa, fb):
    """all truths whose operands satisfy predicates fa / fb (in either order); returned normalised as (pred, a, b, width, ins) with a~fa"""
    out = []
    for p, x, y, w, ins in truths:
        if fa(x) and fb(y):
            out.append((p, x, y, w, ins))
        elif fa(y) and fb(x):
            out.append((SWAP[p], y, x, w, ins))
    return out

# ---- small abstract interpreter over ONE integer value (a call result) on a finite set of representative values
from .vflow import strip_int_casts
from .ir import INT

def _eval_icmp(pred, a, b, width=32):
    if pred in ('ult', 'ule', 'ugt', 'uge'):
        a &= (1 << width) - 1; b &= (1 << width) - 1
    return {'eq': a == b, 'ne': a != b, 'slt': a < b, 'sle': a <= b, 'sgt': a > b, 'sge': a >= b,
            'ult': a < b, 'ule': a <= b, 'ugt': a > b, 'uge': a >= b}[pred]

def representative_values(fn, src):
    """constants the value `src` is compared with in fn, plus fresh negative / zero / positive representatives"""
    consts = set()
    for i in fn.insts():
        if i.op == 'icmp':
            for o in i.ops:
                if INT.match(o):
                    consts.add(int(o))
        if i.op == 'switch':
            consts |= {v for v, _ in i.cases}
    vals = set(consts) | {0, 1}
    neg = -1
    while neg in consts:
        neg -= 1
    vals.add(neg)
    vals.add(min(consts | {0}) - 7919)
    return sorted(vals)

class _ResolvedCall:
    """an indirect call whose callee was read from a constant table at a known index: looks like the call instruction, with the
    resolved function as `callee`"""
    def __init__(self, ins, callee):
        self._ins, self.callee = ins, callee
    def __getattr__(self, name):
        return getattr(self._ins, name)

def _is_constant_global(fn, name):
    t = fn.mod.globals.get(name) or ''
    return bool(re.match(r'^((internal|private|dso_local|unnamed_addr|local_unnamed_addr)\s+)*constant\b', t))

def _table_ce(fn):
    ce = fn.mod.__dict__.get('_table_ce')
    if ce is None:
        import types
        from .consteval import ConstEval
        ce = ConstEval(types.SimpleNamespace(mods=[]), fn.mod)
        fn.mod._table_ce = ce
    return ce

def simulate(fn, call_ins, v, stop_calls=(), max_steps=4000, seed=None, start=None, watch=None, event_env=None):
    """follow control flow from just after call_ins (or from instruction `start`) assuming its result equals v; branches whose
    condition is determined by the known values (also through or / and / select / xor and phis) are evaluated, all others
    explored both ways.  `seed` adds SSA values known from dominating equalities.
    -> list of outcomes: ('ret', value or None, path_blocks) | ('reexec', None, blocks) | ('event', ins, blocks)"""
    outcomes = []
    seen = set()
    env0 = dict(seed or {})
    if call_ins is not None and call_ins.res:
        env0[call_ins.res] = v
    s_ins = start or call_ins
    stack = [(s_ins.bb, s_ins.idx + (0 if start is not None else 1), env0, (s_ins.bb.label,))]
    steps = 0
    def val(o, env):
        if o in env:
            return env[o]
        if isinstance(o, str) and INT.match(o):
            return int(o)
        if o == 'true':
            return 1
        if o == 'false':
            return 0
        if o == 'null':
            return 0              # a pointer known to be NULL on this path (merges that bring NULL in)
        return None
    def ptrval(o, env):
        """pointer into a constant global: ('g', name, path) or None"""
        if ('ptr', o) in env:
            return env[('ptr', o)]
        if isinstance(o, str) and (o.startswith('@') or o.startswith('getelementptr') or o.startswith('bitcast')):
            try:
                pv = _table_ce(fn).const_operand(o)
            except Exception:
                pv = None
            if isinstance(pv, tuple) and pv[0] == 'g' and _is_constant_global(fn, pv[1]):
                return pv
        return None
    def cond(o, env, depth=0):
        """three-valued truth of an i1 value"""
        x = val(o, env)
        if x is not None:
            return bool(x)
        d = fn.defs.get(o)
        if d is None or depth > 8:
            return None
        if d.op == 'icmp':
            a, b = val(d.ops[0], env), val(d.ops[1], env)
            if a is None:
                a = arith(d.ops[0], env)
            if b is None:
                b = arith(d.ops[1], env)
            if a is not None and b is not None:
                w = int(d.ty[1:]) if d.ty and d.ty[1:].isdigit() else 64
                return _eval_icmp(d.pred, a, b, w)
            return None
        if d.op == 'xor' and 'true' in d.ops:
            r = cond(d.ops[0] if d.ops[1] == 'true' else d.ops[1], env, depth + 1)
            return None if r is None else (not r)
        if d.op in ('or', 'and') and d.ty == 'i1':
            a, b = cond(d.ops[0], env, depth + 1), cond(d.ops[1], env, depth + 1)
            if d.op == 'or':
                return True if (a is True or b is True) else (False if (a is False and b is False) else None)
            return False if (a is False or b is False) else (True if (a is True and b is True) else None)
        if d.op == 'select' and d.ty == 'i1':
            c = cond(d.ops[0], env, depth + 1)
            if c is None:
                a, b = cond(d.ops[1], env, depth + 1), cond(d.ops[2], env, depth + 1)
                return a if (a is not None and a == b) else None
            return cond(d.ops[1] if c else d.ops[2], env, depth + 1)
        if d.op in ('zext', 'trunc', 'sext'):
            return cond(d.ops[0], env, depth + 1)
        return None
    def arith(o, env, depth=0):
        x = val(o, env)
        if x is not None or depth > 6:
            return x
        d = fn.defs.get(o)
        if d is None:
            return None
        if d.op in ('sext', 'zext', 'trunc'):
            return arith(d.ops[0], env, depth + 1)
        if d.op == 'sub' and d.ops[0] == '0':
            r = arith(d.ops[1], env, depth + 1)
            return None if r is None else -r
        if d.op == 'select':
            c = cond(d.ops[0], env, depth + 1)
            if c is None:
                return None
            return arith(d.ops[1] if c else d.ops[2], env, depth + 1)
        if d.op in ('add', 'sub', 'mul', 'shl', 'lshr', 'ashr', 'and', 'or', 'xor') and re.match(r'i\d+$', d.ty or '') and d.ty != 'i1':
            a_, b_ = arith(d.ops[0], env, depth + 1), arith(d.ops[1], env, depth + 1)
            if a_ is None or b_ is None:
                return None
            from .consteval import wrap as _wr, width_of as _wo
            w_ = _wo(d.ty)
            if d.op in ('shl', 'lshr', 'ashr') and not 0 <= b_ < w_:
                return None
            ua = a_ & ((1 << w_) - 1)
            x_ = {'add': a_ + b_, 'sub': a_ - b_, 'mul': a_ * b_, 'shl': a_ << b_ if d.op == 'shl' else 0, 'lshr': ua >> b_ if d.op == 'lshr' else 0,
                  'ashr': a_ >> b_ if d.op == 'ashr' else 0, 'and': a_ & b_, 'or': a_ | b_, 'xor': a_ ^ b_}[d.op]
            return _wr(x_, w_)
        return None
    while stack:
        b, i0, env, trail = stack.pop()
        steps += 1
        if steps > max_steps:
            outcomes.append(('limit', None, trail)); break
        env = dict(env)
        hit = None
        for ins in b.insts[i0:]:
            if call_ins is not None and ins is call_ins and not (start is not None and steps == 1):
                hit = ('reexec', None, trail); break
            if ins.res and ins.op in ('sext', 'zext', 'trunc', 'select', 'add', 'sub', 'mul', 'shl', 'lshr', 'ashr', 'and', 'or', 'xor'):
                x = arith(ins.res, env)
                if x is not None:
                    env[ins.res] = x
            # constant tables: `shape = &table[pattern]; shape->n; decoders[shape->n](...)` with a known index is a known value /
            # a known callee (table-driven dispatch is followed like a switch)
            if ins.op in ('getelementptr', 'bitcast') and ins.res:
                base = ptrval(ins.ops[0], env)
                if base is not None and ins.op == 'bitcast':
                    env[('ptr', ins.res)] = base
                elif base is not None:
                    idx = [arith(o, env) for o in ins.ops[1:]]
                    if idx and all(isinstance(x_, int) for x_ in idx) and (idx[0] == 0 or base[2]):
                        path = list(base[2])
                        if idx[0] != 0:
                            path[-1] += idx[0]
                        env[('ptr', ins.res)] = ('g', base[1], tuple(path + idx[1:]))
            elif ins.op == 'load' and ins.res:
                pv = ptrval(ins.ops[0], env)
                if pv is not None:
                    try:
                        x = _table_ce(fn).load(pv, ins)
                    except Exception:
                        x = None
                    if isinstance(x, int):
                        env[ins.res] = x
                    elif isinstance(x, tuple) and x[0] == 'g' and x[2] == ():
                        env[('ptr', ins.res)] = x
            if ins.op == 'call' and ins.callee in stop_calls:
                outcomes.append(('event', ins, trail))
                if event_env is not None:
                    event_env.append((ins, {o_: val(o_, env) for o_ in ins.ops}))
            elif ins.op == 'call' and (ins.callee or '').startswith('%') and ('ptr', ins.callee) in env and env[('ptr', ins.callee)][1] in stop_calls:
                outcomes.append(('event', _ResolvedCall(ins, env[('ptr', ins.callee)][1]), trail))
            elif ins.op == 'store' and 'store' in stop_calls:
                outcomes.append(('event', ins, trail))
        if hit:
            outcomes.append(hit); continue
        t = b.insts[-1]
        if t.op == 'ret':
            outcomes.append(('ret', arith(t.ops[0], env) if t.ops else None, trail)); continue
        if t.op == 'unreachable':
            continue
        nexts = []
        if t.op == 'br' and len(t.targets) == 2 and t.ops:
            decided = cond(t.ops[0], env)
            if decided is None:
                nexts = [t.targets[0], t.targets[1]]
            else:
                nexts = [t.targets[0] if decided else t.targets[1]]
        elif t.op == 'switch':
            sv = arith(t.ops[0], env)
            if sv is None:
                nexts = list(dict.fromkeys(t.targets))
            else:
                hitl = [l for cv, l in t.cases if cv == sv]
                nexts = [hitl[0] if hitl else t.targets[0]]
        else:
            nexts = list(t.targets)
        for lab in nexts:
            nb = fn.blocks[lab]
            if watch is not None and nb is watch[0]:
                # value carried into the watched phi along this edge; do not continue past it
                wphi = fn.defs.get(watch[1])
                wv = None
                for pv, pl in wphi.incoming:
                    if pl == b.label:
                        wv = arith(pv, env)
                outcomes.append(('watch', wv, trail))
                continue
            nenv = dict(env)
            upd = {}
            for ins in nb.insts:
                if ins.op != 'phi':
                    break
                for pv, pl in ins.incoming:
                    if pl == b.label:
                        x = arith(pv, env)
                        if x is None and ins.ty == 'i1':
                            c = cond(pv, env)
                            x = None if c is None else int(c)
                        upd[ins.res] = x
            for k_, x in upd.items():
                if x is not None:
                    nenv[k_] = x
                else:
                    nenv.pop(k_, None)
            key = (nb.label, tuple(sorted(((str(k), str(vv)) for k, vv in nenv.items()))))
            if key in seen:
                continue
            seen.add(key)
            stack.append((nb, 0, nenv, trail + (nb.label,)))
    return outcomes
