"""helpers for E10 obligations over canonical atoms"""
import re
from .paths import enumerate_paths, Path, Atom
from .guards import NEG, SWAP

EXT = re.compile(r'^(zext|sext)\.i\d+\((.*)\)$')
def strip_ext(e):
    while True:
        m = EXT.match(e)
        if not m:
            return e
        e = m.group(2)

TRUNC32 = re.compile(r'^trunc\.i32\((.*)\)$')
def strip_trunc32(e):
    m = TRUNC32.match(e)
    return m.group(1) if m else e

def const_of(e):
    return int(e) if re.match(r'-?\d+$', e) else None

def split_symbolic_returns(paths):
    """a path returning zext(icmp) is split into its two outcomes"""
    out = []
    for p in paths:
        m = re.match(r'^(?:zext|sext)\.i\d+\(\((.*) (eq|ne|ult|ule|ugt|uge|slt|sle|sgt|sge) (.*)\)\)$', p.ret)
        if m and not re.match(r'-?\d+$', p.ret):
            a, pred, b = m.group(1), m.group(2), m.group(3)
            at = Atom(pred, a, b, 'i32?', p.blocks[-1].insts[-1], p.ret)
            out.append(Path(p.conds + [(at, True)], '1', p.blocks, p.env, p.events))
            out.append(Path(p.conds + [(at, False)], '0', p.blocks, p.env, p.events))
        else:
            out.append(p)
    return out

def holds(truths, pred, a, b, ext_ok=True):
    """is (a pred b) among the truths (either operand order), optionally ignoring zero/sign extension wrappers"""
    for p, x, y, w, ins in truths:
        xs, ys = (strip_ext(x), strip_ext(y)) if ext_ok else (x, y)
        if p == pred and xs == a and ys == b:
            return (p, x, y, w, ins)
        if SWAP[p] == pred and ys == a and xs == b:
            return (p, x, y, w, ins)
    return None

def find_between(truths, fa, fb):
    """all truths whose operands satisfy predicates fa / fb (in either order); returned normalised as (pred, a, b, width, ins) with a~fa"""
    out = []
    for p, x, y, w, ins in truths:
        if fa(x) and fb(y):
            out.append((p, x, y, w, ins))
        elif fa(y) and fb(x):
            out.append((SWAP[p], y, x, w, ins))
    return out

# ---- small abstract interpreter over ONE integer value (a call result) on a finite set of representative values
from .vflow import strip_int_casts
from .ir import INT

def _eval_icmp(pred, a, b, width=32):
    if pred in ('ult', 'ule', 'ugt', 'uge'):
        a &= (1 << width) - 1; b &= (1 << width) - 1
    return {'eq': a == b, 'ne': a != b, 'slt': a < b, 'sle': a <= b, 'sgt': a > b, 'sge': a >= b,
            'ult': a < b, 'ule': a <= b, 'ugt': a > b, 'uge': a >= b}[pred]

def representative_values(fn, src):
    """constants the value `src` is compared with in fn, plus fresh negative / zero / positive representatives"""
    consts = set()
    for i in fn.insts():
        if i.op == 'icmp':
            for o in i.ops:
                if INT.match(o):
                    consts.add(int(o))
        if i.op == 'switch':
            consts |= {v for v, _ in i.cases}
    vals = set(consts) | {0, 1}
    neg = -1
    while neg in consts:
        neg -= 1
    vals.add(neg)
    vals.add(min(consts | {0}) - 7919)
    return sorted(vals)

def simulate(fn, call_ins, v, stop_calls=(), max_steps=4000):
    """follow control flow from just after call_ins assuming its result equals v; branches that test the result
    (or values derived from it through casts/phis) against constants are evaluated, others are explored both ways.
    -> list of outcomes: ('ret', value or None, path_blocks) | ('reexec', None, blocks) | ('event', ins, blocks)"""
    outcomes = []
    seen = set()
    stack = [(call_ins.bb, call_ins.idx + 1, {call_ins.res: v}, (call_ins.bb.label,))]
    steps = 0
    while stack:
        b, i0, env, trail = stack.pop()
        steps += 1
        if steps > max_steps:
            outcomes.append(('limit', None, trail)); break
        env = dict(env)
        hit = None
        for ins in b.insts[i0:]:
            if ins is call_ins:
                hit = ('reexec', None, trail); break
            if ins.op in ('sext', 'zext', 'trunc') and ins.ops[0] in env:
                env[ins.res] = env[ins.ops[0]]
            elif ins.op == 'sub' and ins.ops[0] == '0' and ins.ops[1] in env:
                env[ins.res] = -env[ins.ops[1]]
            elif ins.op == 'call' and ins.callee in stop_calls:
                outcomes.append(('event', ins, trail))
            elif ins.op == 'store' and 'store' in stop_calls:
                outcomes.append(('event', ins, trail))
        if hit:
            outcomes.append(hit); continue
        t = b.insts[-1]
        def val(o):
            if o in env:
                return env[o]
            if INT.match(o):
                return int(o)
            return None
        if t.op == 'ret':
            outcomes.append(('ret', val(t.ops[0]) if t.ops else None, trail)); continue
        if t.op == 'unreachable':
            continue
        nexts = []
        if t.op == 'br' and len(t.targets) == 2 and t.ops:
            c = fn.defs.get(t.ops[0])
            decided = None
            if c is not None and c.op == 'icmp':
                a, bb_ = val(c.ops[0]), val(c.ops[1])
                if a is not None and bb_ is not None:
                    w = int(c.ty[1:]) if c.ty and c.ty[1:].isdigit() else 32
                    decided = _eval_icmp(c.pred, a, bb_, w)
            if decided is None:
                nexts = [t.targets[0], t.targets[1]]
            else:
                nexts = [t.targets[0] if decided else t.targets[1]]
        elif t.op == 'switch':
            sv = val(t.ops[0])
            if sv is None:
                nexts = list(dict.fromkeys(t.targets))
            else:
                hitl = [l for cv, l in t.cases if cv == sv]
                nexts = [hitl[0] if hitl else t.targets[0]]
        else:
            nexts = list(t.targets)
        for lab in nexts:
            nb = fn.blocks[lab]
            nenv = dict(env)
            for ins in nb.insts:
                if ins.op != 'phi':
                    break
                for pv, pl in ins.incoming:
                    if pl == b.label:
                        x = val(pv)
                        if x is not None:
                            nenv[ins.res] = x
                        else:
                            nenv.pop(ins.res, None)
            key = (nb.label, tuple(sorted((k, vv) for k, vv in nenv.items())))
            if key in seen:
                continue
            seen.add(key)
            stack.append((nb, 0, nenv, trail + (nb.label,)))
    return outcomes
