"""E11 constant-data mathematics for the flat-XOR tables (GF(2) linear algebra on bitmaps read from the IR)."""
import itertools

def rank(rows):
    rows = [r for r in rows if r]
    r = 0
    while rows:
        p = rows.pop()
        if p == 0:
            continue
        r += 1
        lb = p & -p
        rows = [x ^ p if x & lb else x for x in rows]
        rows = [x for x in rows if x]
    return r

def transpose_consistent(P, D, k, m):
    bad = []
    for i in range(k):
        for j in range(m):
            if ((P[j] >> i) & 1) != ((D[i] >> j) & 1):
                bad.append((i, j))
    return bad

def generator_columns(P, k):
    return [1 << i for i in range(k)] + list(P)

def first_undecodable(P, k, m, upto):
    """smallest erasure-set size <= upto for which the data is not recoverable (rank of survivors < k), with a witness set"""
    vec = generator_columns(P, k)
    n = k + m
    for e in range(1, upto + 1):
        for E in itertools.combinations(range(n), e):
            Es = set(E)
            if rank([vec[s] for s in range(n) if s not in Es]) < k:
                return e, E
    return None, None

def count_sets(n, upto):
    from math import comb
    return sum(comb(n, e) for e in range(1, upto + 1))

def peelable(P, D, k, m, hd):
    """table-level facts the decoders' 'cannot happen' branches rely on: for every set of <= 3 missing data (with the total
    erasure budget < hd) a surviving parity that contains exactly one missing datum exists after each peel, or (3 data)
    parities with exactly two and exactly three missing data exist whose symmetric difference isolates one.  Returns list of
    counterexamples."""
    bad = []
    n = k + m
    for e in range(1, hd):
        for E in itertools.combinations(range(n), e):
            md = [x for x in E if x < k]
            mp = {x - k for x in E if x >= k}
            if not md or len(md) > 3:
                continue
            missing = set(md)
            ok = True
            while missing:
                progressed = False
                for j in range(m):
                    if j in mp:
                        continue
                    inter = [d for d in missing if (P[j] >> d) & 1]
                    if len(inter) == 1:
                        missing.discard(inter[0]); progressed = True
                        break
                if not progressed:
                    # P xor Q trick for three missing data
                    if len(missing) == 3:
                        two = [j for j in range(m) if j not in mp and sum((P[j] >> d) & 1 for d in missing) == 2]
                        three = [j for j in range(m) if j not in mp and sum((P[j] >> d) & 1 for d in missing) == 3]
                        if two and three:
                            x = [d for d in missing if not (P[two[0]] >> d) & 1]
                            missing.discard(x[0]); progressed = True
                    if not progressed:
                        ok = False
                        break
            if not ok:
                bad.append(E)
    return bad
