"""null-check dominance (R13a/R13b): every dereference of a pointer value is dominated by an edge on which it is non-null"""
from .cfg import dominators
from .guards import dominating_edges, edge_condition, implied_atoms
from .vflow import derived_pointers, strip_ptr_casts
from . import callgraph, effects

def _null_branches(fn, vals):
    """for every two-way branch: (block, [edges on which a value of `vals` is known non-null], [edges on which it is known null])"""
    out = []
    for b in fn.order:
        t = b.insts[-1]
        if t.op != 'br' or len(t.targets) != 2 or not t.ops:
            continue
        tg = [fn.blocks[t.targets[0]], fn.blocks[t.targets[1]]]
        if tg[0] is tg[1]:
            continue
        nn, nl = [], []
        for truth, dst in ((True, tg[0]), (False, tg[1])):
            for c, tv in implied_atoms(fn, t.ops[0], truth):
                if c.pred not in ('eq', 'ne'):
                    continue
                a0, a1 = c.ops
                other = a0 if a1 == 'null' else (a1 if a0 == 'null' else None)
                if other is None or (strip_ptr_casts(fn, other) not in vals and other not in vals):
                    continue
                is_null = (c.pred == 'eq') == tv
                (nl if is_null else nn).append((b, dst))
        if nn or nl:
            out.append((b, tg, nn, nl))
    return out

def nonnull_edges(fn, vals):
    """CFG edges (src,dst) on which some value in `vals` (aliases of one pointer) is known non-null"""
    edges = set()
    for b, tg, nn, nl in _null_branches(fn, vals):
        edges.update(nn)
    return edges

def null_edges(fn, vals):
    """CFG edges on which the pointer is, or may be, NULL at a branch that tests it: the edge where it is known null, and the
    sibling of an edge where it is known non-null (`p == NULL || q == NULL` taken: either may be the null one)"""
    edges = set()
    for b, tg, nn, nl in _null_branches(fn, vals):
        edges.update(nl)
        for (_, d) in nn:
            for x in tg:
                if x is not d:
                    edges.add((b, x))
    return edges

class NullCheck:
    def __init__(self, prog):
        self.prog = prog
        self.cg = callgraph.get(prog)
        self.summ = {}       # fn name -> set of param indexes dereferenced without a dominating null test
        self._solve()

    def _ext_derefs(self, name):
        c = effects.EXT.get(name)
        if c is None:
            return None
        return set(c.get('r', [])) | set(c.get('w', []))

    def deref_sites(self, fn, roots):
        """[(ins, how)] instructions dereferencing a pointer equal to / computed from roots"""
        A, _ = derived_pointers(fn, roots)
        out = []
        for ins in fn.insts():
            if ins.op == 'load' and ins.ops[0] in A:
                out.append((ins, 'load'))
            elif ins.op == 'store' and ins.ops[1] in A:
                out.append((ins, 'store'))
            elif ins.op == 'call':
                for ai, a in enumerate(ins.ops):
                    if a in A:
                        for c in self.cg.callees(fn, ins):
                            if c in self.prog.fns:
                                if ai in self.summ.get(c, ()):
                                    out.append((ins, f'{c} dereferences argument {ai} unchecked'))
                            else:
                                d = self._ext_derefs(c)
                                if d is None:
                                    if not c.startswith('ext:') and c not in ('@syslog', '@printf', '@fprintf'):
                                        out.append((ins, f'external {c} (no contract) receives it'))
                                elif ai in d:
                                    out.append((ins, f'{c} dereferences argument {ai}'))
        return out, A

    def unchecked(self, fn, roots):
        sites, A = self.deref_sites(fn, roots)
        if not sites:
            return [], 0
        edges = nonnull_edges(fn, A)
        bad = []
        for ins, how in sites:
            dom = set(dominating_edges(fn, ins.bb))
            if not (dom & edges):
                bad.append((ins, how))
        return bad, len(sites)

    def _solve(self):
        fns = self.prog.fns
        self.summ = {n: set() for n in fns}
        for _ in range(8):
            changed = False
            for n, f in fns.items():
                for pi, (pty, pn) in enumerate(f.params):
                    if not pty.endswith('*') or pi in self.summ[n]:
                        continue
                    bad, _ = self.unchecked(f, [pn])
                    if bad:
                        self.summ[n].add(pi); changed = True
            if not changed:
                break
