"""E2: loader for clang-14 -O0 + mem2reg textual LLVM IR (typed pointers), with the debug-info needed to
speak about struct *fields* and *enumerators* by name.  Unknown instruction forms raise AnalysisBroken."""
import re
from .build import AnalysisBroken

INT = re.compile(r'-?\d+$')

def split_top(s, sep=','):
    out, depth, cur, inq = [], 0, [], False
    for ch in s:
        if ch == '"':
            inq = not inq
        if not inq:
            if ch in '([{<':
                depth += 1
            elif ch in ')]}>':
                depth -= 1
        if ch == sep and depth == 0 and not inq:
            out.append(''.join(cur).strip()); cur = []
        else:
            cur.append(ch)
    t = ''.join(cur).strip()
    if t:
        out.append(t)
    return out

def match_close(s, i, o='(', c=')'):
    depth = 0
    for j in range(i, len(s)):
        if s[j] == o:
            depth += 1
        elif s[j] == c:
            depth -= 1
            if depth == 0:
                return j
    raise AnalysisBroken('unbalanced: ' + s[:200])

ATTRS = re.compile(r'\b(noundef|nonnull|signext|zeroext|noalias|nocapture|readonly|writeonly|returned|immarg|inreg|'
                   r'align \d+|dereferenceable\(\d+\)|dereferenceable_or_null\(\d+\)|byval\([^)]*\)|sret\([^)]*\))\s*')

def typed_operand(p):
    """'<type> [attrs] <value>' -> (type, value)"""
    p = ATTRS.sub('', p.strip()).strip()
    if p.endswith(')') and re.search(r'\b(getelementptr|bitcast|inttoptr|ptrtoint)\b', p):
        m = re.search(r'\b(getelementptr|bitcast|inttoptr|ptrtoint)\b', p)
        return p[:m.start()].strip(), p[m.start():].strip()
    if ' ' not in p:
        return p, None        # bare type (e.g. "...")
    t, v = p.rsplit(' ', 1)
    return t.strip(), v.strip()

class Inst:
    __slots__ = ('fn', 'bb', 'idx', 'res', 'op', 'text', 'dbg', 'ty', 'ops', 'optys', 'callee', 'pred',
                 'targets', 'cases', 'incoming', 'gep_base_ty', 'flags')
    def __init__(self, fn, bb, text):
        self.fn, self.bb, self.text = fn, bb, text
        self.res = self.ty = self.callee = self.pred = self.dbg = self.gep_base_ty = None
        self.ops, self.optys = [], []
        self.targets = self.cases = self.incoming = None
        self.idx = -1
    def __repr__(self):
        return f'<{self.fn.name}:{self.bb.label}#{self.idx} {self.text[:80]}>'
    @property
    def line(self):
        return self.fn.mod.dbgline(self.dbg)
    @property
    def loc(self):
        return f'{self.fn.mod.src}:{self.line}'
    @property
    def uses(self):
        u = [o for o in self.ops if isinstance(o, str) and o[:1] in '%@']
        if self.callee and self.callee[:1] == '%':
            u.append(self.callee)
        for o in self.ops:
            if isinstance(o, str) and '(' in o:
                u += re.findall(r'(?<![\w.])[%@][\w.$]+', re.sub(r'%(struct|union)\.[\w.]+', '', o))
        return u

class Block:
    def __init__(self, fn, label):
        self.fn, self.label = fn, label
        self.insts, self.succs, self.preds = [], [], []
    def __repr__(self):
        return f'<bb {self.fn.name}:%{self.label}>'
    @property
    def term(self):
        return self.insts[-1]

class Function:
    def __init__(self, mod, name, retty, params, linkage):
        self.mod, self.name, self.retty, self.params, self.linkage = mod, name, retty, params, linkage
        self.blocks, self.order, self.defs = {}, [], {}
        self.varargs = False
        self._cache = {}
    def insts(self):
        for b in self.order:
            yield from b.insts
    @property
    def entry(self):
        return self.order[0]
    def param_index(self, v):
        for i, (_, n) in enumerate(self.params):
            if n == v:
                return i
        return None
    def __repr__(self):
        return f'<fn {self.name}>'

class Module:
    def __init__(self, path, src, lib, text=None):
        self.path, self.src, self.lib = path, src, lib
        self.functions, self.declares, self.globals, self.types, self.md = {}, {}, {}, {}, {}
        self._sf = {}
        self._parse(text if text is not None else open(path).read())

    # ---- metadata
    def dbgline(self, ref):
        m = self.md.get(ref) if ref else None
        if not m:
            return None
        mm = re.search(r'line: (\d+)', m)
        return int(mm.group(1)) if mm else None

    def md_fields(self, ref):
        m = self.md.get(ref, '')
        mm = re.match(r'(?:distinct )?!(\w+)\((.*)\)\s*$', m)
        d = {}
        if not mm:
            return d
        d['_kind'] = mm.group(1)
        for part in split_top(mm.group(2)):
            if ':' in part:
                k, v = part.split(':', 1)
                d[k.strip()] = v.strip()
        return d

    def struct_fields(self, cname):
        """[(field name, bit offset, bit size, type-ref)] of C struct/union `cname` (definition, not fwd decl)"""
        if cname in self._sf:
            return self._sf[cname]
        res = None
        for ref, m in self.md.items():
            if m.find('DICompositeType') >= 0 and ('name: "%s"' % cname) in m and 'elements:' in m \
               and ('DW_TAG_structure_type' in m or 'DW_TAG_union_type' in m):
                f = self.md_fields(ref)
                if f.get('name', '').strip('"') != cname:
                    continue
                els = self.md.get(f['elements'], '')
                out = []
                for r in re.findall(r'!\d+', els):
                    ef = self.md_fields(r)
                    if ef.get('tag') == 'DW_TAG_member':
                        out.append((ef.get('name', '""').strip('"'), int(ef.get('offset', '0')), int(ef.get('size', '0')),
                                    ef.get('baseType')))
                res = out
                break
        if res is None:
            # anonymous struct named through a typedef: typedef struct {...} cname;
            for ref, m in self.md.items():
                if 'DW_TAG_typedef' in m and ('name: "%s"' % cname) in m:
                    f = self.md_fields(ref)
                    b = self.md_fields(f.get('baseType', ''))
                    if b.get('_kind') == 'DICompositeType' and 'elements' in b:
                        out = []
                        for r in re.findall(r'!\d+', self.md.get(b['elements'], '')):
                            ef = self.md_fields(r)
                            if ef.get('tag') == 'DW_TAG_member':
                                out.append((ef.get('name', '""').strip('"'), int(ef.get('offset', '0')),
                                            int(ef.get('size', '0')), ef.get('baseType')))
                        res = out
                        break
        self._sf[cname] = res
        return res

    def typedef_struct(self, tname):
        """resolve typedef name -> underlying struct name"""
        for ref, m in self.md.items():
            if 'DW_TAG_typedef' in m and ('name: "%s"' % tname) in m:
                f = self.md_fields(ref)
                b = self.md_fields(f.get('baseType', ''))
                if b.get('name'):
                    return b['name'].strip('"')
        return None

    def enumerators(self, prefix=''):
        d = {}
        for m in self.md.values():
            mm = re.match(r'!DIEnumerator\(name: "(\w+)", value: (-?\d+)', m)
            if mm and mm.group(1).startswith(prefix):
                d[mm.group(1)] = int(mm.group(2))
        return d

    def basetype_info(self, ref, depth=0):
        """(size bits, 'signed'|'unsigned'|'char'|..., name) following typedef/const chains"""
        f = self.md_fields(ref)
        if not f or depth > 10:
            return None
        if f['_kind'] == 'DIBasicType':
            return int(f.get('size', 0)), f.get('encoding', ''), f.get('name', '').strip('"')
        if f['_kind'] == 'DIDerivedType' and f.get('tag') in ('DW_TAG_typedef', 'DW_TAG_const_type', 'DW_TAG_volatile_type'):
            return self.basetype_info(f.get('baseType', ''), depth + 1)
        if f['_kind'] == 'DICompositeType':
            return int(f.get('size', 0)), f.get('tag', ''), f.get('name', '').strip('"')
        if f['_kind'] == 'DIDerivedType' and f.get('tag') == 'DW_TAG_pointer_type':
            return int(f.get('size', 64)), 'pointer', ''
        return None

    # ---- parse
    def _parse(self, text):
        lines = text.split('\n')
        i, n = 0, len(lines)
        while i < n:
            ln = lines[i]
            if ln.startswith('!'):
                mm = re.match(r'(!\d+) = (.*)$', ln)
                if mm:
                    self.md[mm.group(1)] = mm.group(2)
            elif ln.startswith('%') and ' = type ' in ln:
                name, body = ln.split(' = type ', 1)
                self.types[name.strip()] = body.strip()
            elif ln.startswith('@'):
                mm = re.match(r'(@[\w.$]+) = (.*)$', ln)
                if mm:
                    self.globals[mm.group(1)] = mm.group(2)
            elif ln.startswith('declare '):
                mm = re.search(r'(@[\w.$]+)\(', ln)
                if mm:
                    self.declares[mm.group(1)] = ln
            elif ln.startswith('define '):
                j = i
                body = []
                while not lines[j].startswith('}'):
                    body.append(lines[j]); j += 1
                self._parse_function(body)
                i = j
            i += 1

    def _parse_function(self, body):
        head = body[0]
        mm = re.search(r'(@[\w.$]+)\(', head)
        name = mm.group(1)
        pstart = mm.end() - 1
        pend = match_close(head, pstart)
        pre = head[len('define '):mm.start()]
        linkage = 'internal' if re.search(r'\binternal\b', pre) else 'external'
        retty = re.sub(r'\b(dso_local|internal|hidden|linkonce_odr|available_externally|noundef|zeroext|signext|nonnull)\b', '', pre).strip()
        params = []
        varargs = False
        for k, p in enumerate(split_top(head[pstart + 1:pend])):
            if p == '...':
                varargs = True
                continue
            t, v = typed_operand(p)
            if v is None or not v.startswith('%'):
                t, v = p.strip(), '%' + str(k)
            params.append((t, v))
        fn = Function(self, name, retty, params, linkage)
        fn.varargs = varargs
        self.functions[name] = fn
        # clang -O0 numbers the entry block implicitly when params are unnamed; with named params it is still a number
        nums = [int(p[1][1:]) for p in params if re.match(r'%\d+$', p[1])]
        cur = Block(fn, 'entry')
        fn.blocks[cur.label] = cur; fn.order.append(cur)
        k = 1
        while k < len(body):
            ln = body[k]; k += 1
            if not ln.strip():
                continue
            lm = re.match(r'([\w.$-]+):', ln)
            if lm and not ln.startswith(' '):
                if cur.label == 'entry' and not cur.insts and len(fn.order) == 1:
                    fn.blocks[lm.group(1)] = cur          # the entry block with an explicit label: an alias of 'entry'
                    continue
                cur = Block(fn, lm.group(1)); fn.blocks[cur.label] = cur; fn.order.append(cur)
                continue
            s = ln.strip()
            if s.startswith(';'):
                continue
            if s.startswith('switch '):
                while not re.search(r'\]\s*(, ![\w.]+ !\d+)*\s*$', s):
                    s += ' ' + body[k].strip(); k += 1
            ins = self._parse_inst(fn, cur, s)
            if ins is not None:
                ins.idx = len(cur.insts)
                cur.insts.append(ins)
                if ins.res:
                    fn.defs[ins.res] = ins
        # the implicit entry label: find which label is never defined but referenced? clang never branches to entry.
        for b in fn.order:
            if not b.insts:
                raise AnalysisBroken(f'empty block %{b.label} in {name}')
            t = b.insts[-1]
            if t.targets is None:
                raise AnalysisBroken(f'block %{b.label} in {name} has no terminator: {t.text}')
            for l in t.targets:
                tb = fn.blocks.get(l)
                if tb is None:
                    raise AnalysisBroken(f'unknown label {l} in {name}')
                if tb not in b.succs:
                    b.succs.append(tb)
                if b not in tb.preds:
                    tb.preds.append(b)
        # phi incoming from the entry block use its implicit numeric label
        ent = fn.order[0]
        for ins in fn.insts():
            if ins.op == 'phi':
                ins.incoming = [(v, (fn.blocks[l].label if l in fn.blocks else 'entry')) for v, l in ins.incoming]

    BINOPS = ('add', 'sub', 'mul', 'sdiv', 'udiv', 'srem', 'urem', 'and', 'or', 'xor', 'shl', 'lshr', 'ashr')
    CASTS = ('bitcast', 'sext', 'zext', 'trunc', 'ptrtoint', 'inttoptr')

    def _parse_inst(self, fn, bb, s):
        ins = Inst(fn, bb, s)
        dm = re.search(r', !dbg (!\d+)', s)
        if dm:
            ins.dbg = dm.group(1)
        core = re.sub(r'(, ![\w.]+ !\d+)+\s*$', '', s)
        core = re.sub(r' #\d+$', '', core)
        mm = re.match(r'(%[\w.]+) = (.*)$', core)
        rest = core
        if mm:
            ins.res, rest = mm.group(1), mm.group(2)
        rest = re.sub(r'^(tail |musttail |notail )', '', rest)
        op = rest.split(None, 1)[0].rstrip(',')
        ins.op = op
        if op == 'call':
            if 'llvm.dbg.' in rest or '@llvm.lifetime.' in rest:
                return None
            # callee: first '@name(' or '%name(' that is followed by a balanced arg list ending the instruction
            cands = list(re.finditer(r'(@[\w.$]+|%[\w.]+)\(', rest))
            cm = None
            for c in cands:
                a0 = c.end() - 1
                try:
                    a1 = match_close(rest, a0)
                except AnalysisBroken:
                    continue
                if rest[a1 + 1:].strip() == '':
                    cm = c; break
            if cm is None:
                # bitcast'ed callee: call T bitcast (F* @f to G*)(args)
                bm = re.search(r'bitcast \((.*?) (@[\w.$]+) to [^()]*(\([^()]*\))?[^()]*\)\(', rest)
                if not bm:
                    raise AnalysisBroken('call form: ' + s)
                ins.callee = bm.group(2)
                a0 = bm.end() - 1
                a1 = match_close(rest, a0)
                ins.ty = rest[len('call '):bm.start()].strip()
            else:
                ins.callee = cm.group(1)
                a0 = cm.end() - 1
                a1 = match_close(rest, a0)
                ins.ty = rest[len('call '):cm.start()].strip()
            ins.ty = re.sub(r'\b(noundef|zeroext|signext|nonnull|noalias)\b', '', ins.ty).strip()
            ins.ty = re.sub(r'\s*\([^()]*(\([^()]*\)[^()]*)*\)\*?$', '', ins.ty).strip() or ins.ty  # drop fn-type suffix
            for a in split_top(rest[a0 + 1:a1]):
                t, v = typed_operand(a)
                ins.optys.append(t); ins.ops.append(v)
            return ins
        if op == 'br':
            ins.targets = re.findall(r'label %([\w.$-]+)', rest)
            cm = re.match(r'br i1 (%[\w.]+|true|false),', rest)
            if cm:
                ins.ops = [cm.group(1)]
            return ins
        if op == 'switch':
            hm = re.match(r'switch (\w+) (%[\w.]+|-?\d+), label %([\w.$-]+) \[(.*)\]', rest)
            if not hm:
                raise AnalysisBroken('switch form: ' + s)
            ins.ty = hm.group(1)
            ins.ops = [hm.group(2)]
            ins.cases = [(int(v), l) for v, l in re.findall(r'i\d+ (-?\d+), label %([\w.$-]+)', hm.group(4))]
            ins.targets = [hm.group(3)] + [l for _, l in ins.cases]
            return ins
        if op == 'ret':
            ins.targets = []
            r = rest[len('ret '):].strip()
            if r != 'void':
                t, v = typed_operand(r)
                ins.ty, ins.ops = t, [v]
            return ins
        if op == 'unreachable':
            ins.targets = []
            return ins
        if op == 'phi':
            pm = re.match(r'phi (.+?) (\[.*)$', rest)
            ins.ty = pm.group(1)
            ins.incoming = [(v.strip(), l) for v, l in re.findall(r'\[ (.+?), %([\w.$-]+) \]', pm.group(2))]
            ins.ops = [v for v, _ in ins.incoming]
            return ins
        if op == 'icmp':
            im = re.match(r'icmp (\w+) (.+)$', rest)
            ins.pred = im.group(1)
            parts = split_top(im.group(2))
            t, a = typed_operand(parts[0])
            ins.ty = t
            ins.ops = [a, parts[1].strip()]
            return ins
        if op == 'getelementptr':
            gm = re.match(r'getelementptr (inbounds )?(.*)$', rest)
            parts = split_top(gm.group(2))
            ins.gep_base_ty = parts[0]
            for p in parts[1:]:
                t, v = typed_operand(p)
                ins.optys.append(t); ins.ops.append(v)
            return ins
        if op == 'load':
            parts = split_top(re.sub(r'^load (volatile |atomic )?', '', rest))
            ins.ty = parts[0]
            t, v = typed_operand(parts[1])
            ins.optys, ins.ops = [t], [v]
            return ins
        if op == 'store':
            parts = split_top(re.sub(r'^store (volatile |atomic )?', '', rest))
            t0, v0 = typed_operand(parts[0])
            t1, v1 = typed_operand(parts[1])
            ins.ty = t0
            ins.optys, ins.ops = [t0, t1], [v0, v1]
            return ins
        if op in self.CASTS:
            cm = re.match(r'\w+ (.+) to (.+)$', rest)
            t, v = typed_operand(cm.group(1))
            ins.optys, ins.ops, ins.ty = [t], [v], cm.group(2).strip()
            return ins
        if op in self.BINOPS:
            r2 = re.sub(r'^\w+ (nsw |nuw |exact )*', '', rest)
            parts = split_top(r2)
            t, a = typed_operand(parts[0])
            ins.ty = t
            ins.ops = [a, parts[1].strip()]
            ins.optys = [t, t]
            return ins
        if op == 'select':
            parts = split_top(rest[len('select '):])
            for p in parts:
                t, v = typed_operand(p)
                ins.optys.append(t); ins.ops.append(v)
            ins.ty = ins.optys[1]
            return ins
        if op == 'alloca':
            am = re.match(r'alloca ([^,]+)', rest)
            ins.ty = am.group(1).strip()
            return ins
        raise AnalysisBroken(f'unknown instruction form in {fn.name}: {s}')


def const_gep(expr):
    """'getelementptr inbounds (T, T* @g, i64 0, i32 n)' -> (basety, '@g', [idx...]) or None"""
    m = re.match(r'getelementptr (?:inbounds )?\((.*)\)$', expr.strip())
    if not m:
        return None
    parts = split_top(m.group(1))
    base = typed_operand(parts[1])[1]
    idx = []
    for p in parts[2:]:
        v = p.rsplit(' ', 1)[-1]
        idx.append(int(v) if INT.match(v) else v)
    return parts[0], base, idx

def const_bitcast_target(expr):
    m = re.match(r'bitcast \((.*) to (.*)\)$', expr.strip())
    if not m:
        return None
    return typed_operand(m.group(1))[1]

def parse_initializer(text):
    """global definition rhs -> (type string, initializer string) ; strips linkage words and trailing attrs"""
    t = re.sub(r'^(dso_local |internal |private |hidden |unnamed_addr |local_unnamed_addr |constant |global |common |external |thread_local |weak |linkonce_odr )+', '', text)
    t = re.sub(r', (align \d+|section "[^"]*"|!dbg !\d+|comdat)(?=,|$)', '', t)
    t = re.sub(r'(, (align \d+|!dbg !\d+))+\s*$', '', t)
    return t

def parse_const(s):
    """parse an LLVM constant 'type value' into a python structure:
       ints -> int ; null/zeroinitializer -> 0/'zero' ; arrays -> list ; structs -> list ; globals -> '@name' ; constexpr -> text"""
    s = s.strip()
    # find the type prefix
    if s.startswith('['):
        j = match_close(s, 0, '[', ']')
        ty, val = s[:j + 1], s[j + 1:].strip()
    elif s.startswith('{') or s.startswith('<{'):
        # anonymous struct type
        o = 0 if s.startswith('{') else 1
        j = match_close(s, o, '{', '}')
        j = j + (1 if o else 0)
        ty, val = s[:j + 1], s[j + 1:].strip()
    else:
        m = re.match(r'(%?[\w.]+(?:\s*\([^)]*\))?\**)\s+(.*)$', s, re.S)
        if not m:
            return s
        ty, val = m.group(1), m.group(2).strip()
    return ty, _pv(val)

def _pv(val):
    val = val.strip()
    if INT.match(val):
        return int(val)
    if val in ('null', 'zeroinitializer', 'undef'):
        return 0 if val == 'null' else val
    if val.startswith('c"'):
        return val
    if val.startswith('['):
        j = match_close(val, 0, '[', ']')
        return [parse_const(p)[1] if isinstance(parse_const(p), tuple) else p for p in split_top(val[1:j])]
    if val.startswith('{') or val.startswith('<{'):
        o = 0 if val.startswith('{') else 1
        j = match_close(val, o, '{', '}')
        return [parse_const(p)[1] if isinstance(parse_const(p), tuple) else p for p in split_top(val[o + 1:j])]
    return val


class Program:
    """all modules of the build"""
    def __init__(self, mods):
        self.mods = mods                      # list of Module
        self.by_src = {}
        for m in mods:
            self.by_src.setdefault(m.src, m)
        self.fns = {}
        for m in mods:
            for n, f in m.functions.items():
                self.fns.setdefault(n, f)
        self.declared = set()
        for m in mods:
            self.declared |= set(m.declares)
        self.externals = self.declared - set(self.fns)

    def mod(self, src):
        m = self.by_src.get(src)
        if m is None:
            raise AnalysisBroken(f'anchor vanished: unit {src} not in the build')
        return m

    def fn(self, name):
        if not name.startswith('@'):
            name = '@' + name
        f = self.fns.get(name)
        if f is None:
            raise AnalysisBroken(f'anchor vanished: function {name} not defined in the build')
        return f

    def has_fn(self, name):
        return ('@' + name.lstrip('@')) in self.fns

    def global_def(self, name):
        for m in self.mods:
            g = m.globals.get(name)
            if g is not None and not re.match(r'^external ', g) and ' external ' not in (' ' + g.split('=')[0] + ' '):
                if re.match(r'(dso_local |internal |private |hidden |unnamed_addr |local_unnamed_addr |common |weak )*(constant|global) ', g):
                    pass
                if re.search(r'\bexternal\b', g.split(' ', 3)[0] + ' ' + ' '.join(g.split(' ', 4)[:3])):
                    continue
                return m, g
        return None, None

    def struct_fields(self, cname):
        for m in self.mods:
            f = m.struct_fields(cname)
            if f:
                return f
        return None

    def field_index(self, cname, field):
        f = self.struct_fields(cname)
        if not f:
            raise AnalysisBroken(f'anchor vanished: struct {cname} has no debug description')
        for i, e in enumerate(f):
            if e[0] == field:
                return i
        raise AnalysisBroken(f'anchor vanished: field {cname}.{field}')

    def counts(self):
        nf = sum(len(m.functions) for m in self.mods)
        calls = ind = 0
        for m in self.mods:
            for f in m.functions.values():
                for i in f.insts():
                    if i.op == 'call':
                        calls += 1
                        if i.callee.startswith('%'):
                            ind += 1
        return {'units': len(self.mods), 'functions': nf, 'call_sites': calls, 'indirect_call_sites': ind,
                'globals': sum(len(m.globals) for m in self.mods)}


def load_program(root='/repo', flavour='configured'):
    from . import build
    pairs = build.compile_all(root, flavour)
    texts = [open(p).read() for c, p in pairs]
    # a static function that shares its name with an exported function of another unit (the adapters in
    # src/backends/rs_vand and src/backends/null wrap same-named plug-in functions) gets a unit-local name, so that
    # name-keyed summaries never confuse the two
    defs = []
    for t in texts:
        d = {}
        for mm in re.finditer(r'^define ([^@\n]*?)(@[\w.$]+)\(', t, re.M):
            d[mm.group(2)] = 'internal' if re.search(r'\binternal\b', mm.group(1)) else 'external'
        defs.append(d)
    for i, ((c, p), t) in enumerate(zip(pairs, texts)):
        for name, link in defs[i].items():
            if link == 'internal' and any(j != i and defs[j].get(name) == 'external' and pairs[j][0]['unit'] != c['unit'] for j in range(len(defs))):
                t = re.sub(re.escape(name) + r'(?![\w.$])', name + '$static', t)
        texts[i] = t
    mods = [Module(p, c['unit'], c['lib'], text=t) for (c, p), t in zip(pairs, texts)]
    prog = Program(mods)
    prog.root = root
    prog.flavour = flavour
    return prog
