"""Verdict protocol: rule instances, known findings, evidence, exit codes (DESIGN.md §2)."""
import json, os, sys, time, hashlib, traceback
from .build import AnalysisBroken

VERIF = os.path.dirname(os.path.dirname(os.path.abspath(__file__)))

class Rule:
    def __init__(self, ctx, rid, title, necessary=''):
        self.ctx, self.id, self.title, self.necessary = ctx, rid, title, necessary
        self.instances = []
        self.min_instances = 0
        self.note = ''
    def _add(self, status, instance, **kw):
        d = {'rule': self.id, 'instance': instance, 'status': status}
        d.update({k: v for k, v in kw.items() if v is not None})
        self.instances.append(d)
        return d
    def ok(self, instance, loc=None, facts=None, func=None, trivial=False):
        return self._add('pass', instance, loc=loc, facts=facts, func=func, trivial=trivial or None)
    def fail(self, instance, func, sig, loc=None, msg='', facts=None):
        """func + sig (canonical construct signature, no line numbers) key the finding"""
        return self._add('fail', instance, func=func, sig=sig, loc=loc, msg=msg, facts=facts)
    def undecided(self, instance, loc=None, msg=''):
        return self._add('undecided', instance, loc=loc, msg=msg)
    def info(self, instance, loc=None, msg=''):
        return self._add('info', instance, loc=loc, msg=msg)
    def require_min(self, n, what='instances'):
        self.min_instances = n
        got = sum(1 for i in self.instances if i['status'] in ('pass', 'fail'))
        if got < n:
            self._add('undecided', f'<{what}>', msg=f'only {got} {what} found, confirmed minimum is {n} (anchor lost or rule blind)')

class Ctx:
    def __init__(self, prop, tier='quick', seed=0, root='/repo'):
        self.prop, self.tier, self.seed, self.root = prop, tier, seed, root
        self.rules = []
        self.assumptions = []
        self.extra = {}
        self._progs = {}
        self.flavour = 'configured'
        self.t0 = time.time()
    def program(self, flavour=None):
        flavour = flavour or self.flavour
        if flavour not in self._progs:
            from . import ir
            self._progs[flavour] = ir.load_program(self.root, flavour)
        return self._progs[flavour]
    def rule(self, rid, title, necessary=''):
        r = Rule(self, rid, title, necessary)
        self.rules.append(r)
        return r
    def borrow(self, modname, rule_ids, why=''):
        """rules decided under another property that this property relies on too: run that module's rules on the same
        program and adopt the named ones, so that this property's own check reports their violations"""
        import importlib
        if self.__dict__.get('_no_borrow'):
            return          # a borrowed run only contributes the rules its module defines itself (no chains, no cycles)
        cache = self.__dict__.setdefault('_borrowed', {})
        key = (modname, self.flavour)
        if key not in cache:
            sub = Ctx(self.prop, self.tier, self.seed, self.root)
            sub._progs, sub.flavour = self._progs, self.flavour
            sub.__dict__['_borrowed'] = cache
            sub.__dict__['_no_borrow'] = True
            try:
                importlib.import_module('lecverif.props.' + modname).run(sub)
                cache[key] = (sub, None)
            except AnalysisBroken as e:
                cache[key] = (sub, str(e))
        sub, err = cache[key]
        got = set()
        for r in sub.rules:
            if r.id in rule_ids and r.id not in got and not any(x is r or x.id == r.id for x in self.rules):
                got.add(r.id)
                if why and '(shared' not in r.title:
                    r.title = r.title + f' (shared with {modname.upper()}: {why})'
                self.rules.append(r)
        for rid in rule_ids:
            if rid not in got and not any(x.id == rid for x in self.rules):
                rr = self.rule(rid, f'shared with {modname.upper()}')
                rr.undecided('<shared rule>', msg=f'{modname}.{rid} could not be evaluated' + (f': {err}' if err else ''))

    def assume(self, text):
        if text not in self.assumptions:
            self.assumptions.append(text)

def load_known():
    p = os.path.join(VERIF, 'known_findings.json')
    if not os.path.exists(p):
        return []
    return json.load(open(p)).get('findings', [])

def finding_key(prop, inst):
    return (prop, inst['rule'], inst.get('func', ''), inst.get('sig', ''))

def finish(ctx, explanation, broken=None):
    """write evidence, print verdict lines, return exit code"""
    known = {(k['property'], k['rule'], k.get('function', ''), k.get('signature', '')): k
             for k in load_known() if k.get('status') == 'known'}
    all_inst = [i for r in ctx.rules for i in r.instances]
    fails = [i for i in all_inst if i['status'] == 'fail']
    undec = [i for i in all_inst if i['status'] == 'undecided']
    listed, unlisted = [], []
    for f in fails:
        (listed if finding_key(ctx.prop, f) in known else unlisted).append(f)
    decided = [i for i in all_inst if i['status'] in ('pass', 'fail')]
    distinct = {(i['rule'], json.dumps(i['instance'], sort_keys=True, default=str)) for i in decided if not i.get('trivial')}
    per_rule = {}
    for r in ctx.rules:
        c = {'title': r.title, 'pass': 0, 'fail': 0, 'undecided': 0, 'info': 0}
        if r.necessary:
            c['necessary_because'] = r.necessary
        for i in r.instances:
            c[i['status']] += 1
        per_rule[r.id] = c
    samples = []
    for r in ctx.rules:
        for i in r.instances[:2]:
            samples.append({k: v for k, v in i.items() if k != 'trivial'})
    for f in fails[:10]:
        if f not in samples:
            samples.append(f)
    counts = {}
    for fl, p in ctx._progs.items():
        counts[fl] = p.counts()
    ev = {
        'property_id': ctx.prop, 'tier': ctx.tier, 'seed': ctx.seed, 'level': 'other',
        'coverage': {
            'explanation': explanation,
            'evaluations': len(all_inst),
            'distinct_nontrivial': len(distinct),
            'rule': 'one evaluation = one rule instance (a site, path, table entry or obligation of the current /repo tree); '
                    'non-trivial = anchor found and verdict required analysis; distinct by (rule, instance)',
            'obligations': len(decided), 'discharged': sum(1 for i in decided if i['status'] == 'pass'),
            'exhaustive': True,
            'samples': samples[:40],
            'rules': per_rule,
            'analysed': counts,
            'undecided': [{'rule': u['rule'], 'instance': u['instance'], 'msg': u.get('msg', '')} for u in undec],
            'known_findings_matched': [{'rule': f['rule'], 'func': f.get('func'), 'sig': f.get('sig')} for f in listed],
            'source_root': ctx.root,
        },
        'assumptions': ctx.assumptions,
        'wall_s': round(time.time() - ctx.t0, 3),
        'violations': len(unlisted),
    }
    try:
        from .depends import DEPENDS
        ev['coverage']['adopted_rules'] = [{'rules': rules, 'from_property': mod.upper(), 'necessary_because': why}
                                           for mod, rules, why in DEPENDS.get(ctx.prop, []) if rules]
    except Exception:
        pass
    ev['coverage'].update(ctx.extra)
    if broken:
        ev['coverage']['analysis_broken'] = broken
    evdir = os.path.join(VERIF, 'evidence')
    if os.path.abspath(ctx.root) != '/repo':
        evdir = os.path.join(VERIF, 'evidence', 'scratch')      # runs against scratch copies never touch the evidence
    os.makedirs(evdir, exist_ok=True)
    with open(os.path.join(evdir, ctx.prop + '.json'), 'w') as fh:
        json.dump(ev, fh, indent=1, default=str)
    # verdict lines
    for r in ctx.rules:
        c = per_rule[r.id]
        print(f'  {r.id:6s} pass={c["pass"]:<4d} fail={c["fail"]:<3d} undecided={c["undecided"]:<3d} {r.title}')
    for f in listed:
        k = known[finding_key(ctx.prop, f)]
        print(f'KNOWN-FINDING: property={ctx.prop} {k.get("what", f.get("msg", ""))}')
    rc = 0
    if unlisted:
        repdir = os.path.join(evdir, 'reports')
        os.makedirs(repdir, exist_ok=True)
        seen_keys = set()
        for f in unlisted:
            if finding_key(ctx.prop, f) in seen_keys:
                continue
            seen_keys.add(finding_key(ctx.prop, f))
            h = hashlib.sha1(json.dumps(finding_key(ctx.prop, f)).encode()).hexdigest()[:10]
            path = os.path.join(repdir, f'{ctx.prop}-{f["rule"]}-{h}.json')
            with open(path, 'w') as fh:
                json.dump({'property': ctx.prop, **f, 'source_root': ctx.root,
                           'how_to_rerun': f'./check {ctx.prop} --tier {ctx.tier}'}, fh, indent=1, default=str)
            print(f'  violation: {f["rule"]} {f.get("func", "")} {f.get("loc", "")}: {f.get("msg", "")}')
            print(f'VIOLATION property={ctx.prop} replay={path}')
        rc = 1
    if undec or broken:
        for u in undec:
            print(f'  ANALYSIS-BROKEN {u["rule"]} {u["instance"]}: {u.get("msg", "")}')
        if broken:
            print(f'  ANALYSIS-BROKEN {broken}')
        if rc == 0:
            rc = 2
    print(f'{ctx.prop} [{ctx.tier}] instances={len(all_inst)} pass={ev["coverage"]["discharged"]} '
          f'fail={len(fails)} (known {len(listed)}) undecided={len(undec)} wall={ev["wall_s"]}s -> exit {rc}')
    return rc

def run_property(prop, runner, explanation, tier, seed, root):
    ctx = Ctx(prop, tier, seed, root)
    broken = None
    try:
        runner(ctx)
        from .depends import adopt
        adopt(ctx)
        if tier == 'thorough':
            # second build flavour: every -m*/-DINTEL_* flag stripped (portable code paths of the kernels)
            sub = Ctx(prop, tier, seed, root)
            sub.flavour = 'portable'
            runner(sub)
            adopt(sub)
            for r in sub.rules:
                r.id = r.id + '.portable'
                for i in r.instances:
                    i['rule'] = r.id
                ctx.rules.append(r)
            ctx._progs.update({k: v for k, v in sub._progs.items() if k not in ctx._progs})
            ctx.extra['flavours'] = ['configured', 'portable']
            if os.path.abspath(root) == '/repo' and not os.environ.get('LECVERIF_NO_SELFTEST'):
                from . import selftest
                st = selftest.run_selftest(prop, root)
                m = [x for x in st if x['kind'] == 'M' and x['exit'] is not None]
                b = [x for x in st if x['kind'] == 'B' and x['exit'] is not None]
                ctx.extra['selftest'] = {
                    'what': 'evidence about the checker, not about the property: this property\'s check run against scratch copies of the '
                            'current tree with one catalogue edit / seeded change / benign refactoring applied',
                    'mutants_total': len(m), 'mutants_reported': sum(1 for x in m if x['status'] == 'killed'),
                    'mutants_analysis_broken': sum(1 for x in m if x['status'] == 'analysis-broken'),
                    'mutants_survived': [x['name'] for x in m if x['status'] == 'SURVIVED'],
                    'benign_total': len(b), 'benign_silent': sum(1 for x in b if x['status'] == 'silent'),
                    'benign_false_alarms': [x['name'] for x in b if x['status'] == 'FALSE-ALARM'],
                    'benign_analysis_broken': [x['name'] for x in b if x['status'] == 'analysis-broken'],
                    'skipped': [x['name'] for x in st if x['exit'] is None],
                    'items': st,
                }
                s_ = ctx.extra['selftest']
                print(f"  selftest: mutants reported {s_['mutants_reported']}/{s_['mutants_total']} "
                      f"(analysis-broken {s_['mutants_analysis_broken']}, survived {len(s_['mutants_survived'])}); "
                      f"benign silent {s_['benign_silent']}/{s_['benign_total']} (false alarms {len(s_['benign_false_alarms'])}, "
                      f"analysis-broken {len(s_['benign_analysis_broken'])}); skipped {len(s_['skipped'])}")
    except AnalysisBroken as e:
        broken = str(e)
    except Exception as e:      # a crash of the checker is analysis-broken, never pass/violation
        broken = 'checker exception: ' + ''.join(traceback.format_exception(type(e), e, e.__traceback__))[-3000:]
    return finish(ctx, explanation, broken)
