"""C20 forced metadata checks: every consumer of fragment contents on the force path sees only validated fragments."""
import re
from .. import callgraph
from ..vflow import Canon, strip_int_casts, strip_ptr_casts, derived_pointers
from ..guards import Facts
from ..retval import returns_via_edge
from ..build import AnalysisBroken
from . import shared, c12

EXPLANATION = (
    "R20a in liberasurecode_decode: for each call that consumes fragment contents (fragments_to_string on the fast path, "
    "get_fragment_partition) the fragment array that reaches it on paths with force_metadata_checks != 0 is a filtered array: "
    "every store of an element into it is control-dependent on is_invalid_fragment(desc, that same element) == 0, the slot index "
    "is the counter that is incremented with exactly those stores, and the count passed alongside is that counter; no consumer "
    "on the force path receives the caller's unfiltered list. R20b: the filter's verdict function carries the C12 obligations. "
    "NOT decided: that decoding the remaining fragments is correct (C01).")

CONSUMERS = {'@fragments_to_string': (2, 3), '@get_fragment_partition': (2, 3)}

def run(ctx):
    P = ctx.program()
    f, fp = shared.param_by_name(ctx, P, 'liberasurecode_decode', 'force_metadata_checks')
    _, ap = shared.param_by_name(ctx, P, 'liberasurecode_decode', 'available_fragments')
    _, np_ = shared.param_by_name(ctx, P, 'liberasurecode_decode', 'num_fragments')
    C = Canon(P, f)
    force, frags, nfr = f.params[fp][1], f.params[ap][1], f.params[np_][1]
    r = ctx.rule('R20a', 'with force_metadata_checks every consumer of fragment contents receives only validated fragments',
                 'a fragment with a bad payload checksum must never change the decoded bytes')
    cons = [i for i in f.insts() if i.op == 'call' and i.callee in CONSUMERS]
    if not cons:
        raise AnalysisBroken('anchor vanished: no fragment consumer in liberasurecode_decode')

    def force_state(block, edge=None):
        F = Facts(P, f, block, extra_edge=edge)
        for p, a, b in F.facts:
            if a == f'arg{fp}' and b == '0':
                return 'on' if p == 'ne' else ('off' if p == 'eq' else None)
        return None

    def sources(v, seen=None):
        """(value, force state) pairs that may reach SSA value v through phis"""
        seen = seen or set()
        v = strip_ptr_casts(f, v)
        if v in seen:
            return []
        seen.add(v)
        d = f.defs.get(v)
        if d is not None and d.op == 'phi':
            out = []
            for x, l in d.incoming:
                st = force_state(f.blocks[l], (f.blocks[l], d.bb))
                for sv, s2 in sources(x, seen):
                    out.append((sv, s2 if s2 is not None else st))
            return out
        return [(v, None)]

    def check_filtered(arr, cnt_arg, c):
        """arr: SSA value of an allocated array. returns list of problems"""
        problems = []
        d = f.defs.get(arr)
        if d is None or d.op != 'call' or d.callee not in ('@alloc_zeroed_buffer', '@alloc_and_set_buffer', '@calloc', '@malloc'):
            return [f'the array on the force path ({C.val(arr)}) is neither the caller\'s list after validation nor a freshly built list']
        A, _ = derived_pointers(f, [arr])
        stores = [i for i in f.insts() if i.op == 'store' and i.ops[1] in A]
        if not stores:
            return ['nothing is ever stored into the filtered list']
        from ..poly import PolyCtx as _PC, Poly as _Pl
        from ..loops import loops_of as _lo, innermost as _inn
        from ..cfg import dominators as _doms, dominates as _dom
        pc = _PC(P, f, C)
        LS = _lo(P, f, pc)
        idom = _doms(f)
        pos_atoms = set()
        def validated(s):
            val = C.val(s.ops[0])
            F = Facts(P, f, s.bb)
            return any(p == 'eq' and b == '0' and a.startswith('@is_invalid_fragment(') and val in a for p, a, b in F.facts)
        # "take over all candidates, then squeeze out the ones that fail": a first pass may copy the caller's list as it is when a
        # later pass over the same list re-stores (compacts) only validated entries from position 0 on - what the consumer is given
        # is then the prefix the second pass wrote
        vstores = [s for s in stores if validated(s)]
        plain = [s for s in stores if not validated(s)]
        takeover = []
        if vstores and plain:
            for s in plain:
                Ls, Lv = _inn(LS, s.bb), _inn(LS, vstores[0].bb)
                vd = f.defs.get(strip_ptr_casts(f, s.ops[0]))
                from_caller = vd is not None and vd.op == 'load' and pc.ptr(vd.ops[0])[0] == f'arg{ap}'
                from_list = all((lambda d_: d_ is not None and d_.op == 'load' and d_.ops[0] in A)(f.defs.get(strip_ptr_casts(f, v_.ops[0]))) for v_ in vstores)
                earlier = Ls is not None and Lv is not None and Ls.header is not Lv.header and Lv.header not in Ls.body and \
                    all(_dom(idom, xb, Lv.header) or xs_ is Lv.header or _dom(idom, xs_, Lv.header) for xb, xs_ in Ls.exits)
                if from_caller and from_list and earlier:
                    takeover.append(s)
        for s in stores:
            if s in takeover:
                continue
            val = C.val(s.ops[0])
            ok = validated(s)
            if not ok:
                problems.append(f'line {s.line}: {val} is stored into the list without a dominating is_invalid_fragment(desc, that fragment) == 0')
            L = _inn(LS, s.bb)
            root, off = (L.pc if L is not None else pc).ptr(s.ops[1])
            slot = _PC.div(off, 8)
            ats = [a_ for a_ in slot.atoms() if a_.startswith('%')]
            if len(ats) == 1 and slot == _Pl.atom(ats[0]):
                pos_atoms.add(ats[0])
            else:
                pos_atoms.add(str(slot))
        # the write position: a loop-carried value (an index or a walking pointer) that starts at slot 0 and advances by one slot
        # exactly on the paths that store; the count handed to the consumer is that position
        if len(pos_atoms) != 1 or f.defs.get(next(iter(pos_atoms))) is None or f.defs[next(iter(pos_atoms))].op != 'phi':
            problems.append(f'list slots are addressed by {sorted(pos_atoms)} (one running write position expected)')
        else:
            pos = next(iter(pos_atoms))
            ph = f.defs[pos]
            isptr = ph.ty.endswith('*')
            def slot_of(v):
                if isptr:
                    r_, o_ = pc.ptr(v)
                    return _PC.div(o_, 8)
                return pc.val(v)
            Lp = _inn(LS, ph.bb)
            store_blocks = {s.bb for s in stores}
            def leaves(v, lab, seen):
                d = f.defs.get(strip_int_casts(f, v) if not isptr else strip_ptr_casts(f, v))
                if d is not None and d.op == 'phi' and d is not ph and d.res not in seen and (Lp is None or d.bb in Lp.body):
                    out = []
                    for x, l2 in d.incoming:
                        out += leaves(x, l2, seen | {d.res})
                    return out
                return [(v, f.blocks[lab])]
            for v, lab in ph.incoming:
                inside = Lp is not None and f.blocks[lab] in Lp.body
                if not inside:
                    if not slot_of(v).is_zero():
                        problems.append(f'the write position starts at slot {slot_of(v)}, not at the beginning of the list')
                    continue
                for lv, lb in leaves(v, lab, set()):
                    delta = slot_of(lv) - _Pl.atom(pos)
                    dv = delta.const_value()
                    if dv == 0:
                        continue
                    dd = f.defs.get(strip_int_casts(f, lv) if not isptr else strip_ptr_casts(f, lv))
                    if dv != 1:
                        problems.append(f'the write position advances by {delta} slots')
                    elif dd is None or not any(dd.bb is sb or _dom(idom, sb, dd.bb) or _dom(idom, sb, lb) for sb in store_blocks):
                        problems.append('the counter is incremented outside the accepting branch')
            n = strip_int_casts(f, cnt_arg)
            seenp, stack, hit = set(), [n], False
            while stack:
                x = stack.pop()
                xs = strip_int_casts(f, x)
                if xs == pos or (pc.val(xs) == _Pl.atom(pos)):
                    hit = True; break
                if xs in seenp:
                    continue
                seenp.add(xs)
                xd = f.defs.get(xs)
                if xd is not None and xd.op == 'phi':
                    stack += [y for y, _ in xd.incoming]
            if not hit:
                problems.append(f'the count passed to {c.callee} ({C.val(n)}) is not the number of accepted fragments')
        return problems

    for c in cons:
        ai, ni = CONSUMERS[c.callee]
        arr = c.ops[ai]
        if strip_ptr_casts(f, arr) != frags and not any(sv == frags for sv, st in sources(arr)):
            # consumer of a library-built array (e.g. the second fragments_to_string on data[]): not a consumer of the caller's list
            srcs = sources(arr)
            if all(f.defs.get(sv) is not None and f.defs[sv].op == 'call' for sv, st in srcs) and not any(sv == frags for sv, _ in srcs):
                # still may be the filtered list
                pass
        srcs = sources(arr)
        direct = strip_ptr_casts(f, arr) == frags
        inst = f'{c.callee} at line {c.line}'
        if not direct and not any(sv == frags for sv, _ in srcs):
            lists = [sv for sv, st in srcs]
            # arrays built by the library from already partitioned fragments (data[]) are not this rule's consumers
            if all(sv != frags for sv in lists) and not any('valid' in C.val(sv) or True for sv in []):
                filt = [sv for sv, st in srcs if f.defs.get(sv) is not None and f.defs[sv].op == 'call']
                stores_from_caller = False
                for sv in filt:
                    A, _ = derived_pointers(f, [sv])
                    for i in f.insts():
                        if i.op == 'store' and i.ops[1] in A:
                            vd = f.defs.get(strip_ptr_casts(f, i.ops[0]))
                            if vd is not None and vd.op == 'load':
                                stores_from_caller = True
                if not stores_from_caller:
                    r.info(inst, loc=c.loc, msg='consumes a library-built array (not the caller\'s list)')
                    continue
        st_here = force_state(c.bb)
        bad = []
        for sv, st in (srcs if not direct else [(frags, None)]):
            state = st if st is not None else st_here
            if state == 'off':
                continue
            if sv == frags:
                bad.append('the caller\'s unfiltered fragment list reaches this call when force_metadata_checks is set')
            else:
                bad += check_filtered(sv, c.ops[ni], c)
        if bad:
            r.fail(inst, func=f.name, sig=f'{c.callee}: ' + bad[0][:100], loc=c.loc, msg='forced metadata checks do not protect this consumer: ' + '; '.join(dict.fromkeys(bad)))
        else:
            r.ok(inst + ': on the force path the list holds validated fragments only', func=f.name, loc=c.loc)
    r.require_min(2)

    # ---------------- R20c / R20d the filter looks at every supplied fragment and has room for all of them
    r = ctx.rule('R20c', 'the forced-check filter examines each of the num_fragments supplied fragments and is left early only with an error',
                 'a filter that stops after k+m entries drops needed fragments behind duplicates: decode fails (or uses fewer) although enough valid fragments were supplied')
    _, cp = shared.param_by_name(ctx, P, 'liberasurecode_decode', 'num_fragments')
    vcalls = [i for i in f.insts() if i.op == 'call' and i.callee == '@is_invalid_fragment']
    if not vcalls:
        r.fail('filter loop', func=f.name, sig='no per-fragment validation call', loc=f.mod.src, msg='liberasurecode_decode never calls is_invalid_fragment')
    for v in vcalls:
        from ..poly import PolyCtx, Poly
        from ..loops import loops_of, innermost, affine_in_t
        pc = PolyCtx(P, f)
        L = innermost(loops_of(P, f, pc), v.bb)
        inst = f'liberasurecode_decode: filter loop around line {v.line}'
        if L is None:
            r.fail(inst, func=f.name, sig='validation outside a loop', loc=v.loc, msg='is_invalid_fragment is not called in a loop over the supplied fragments')
            continue
        want = Poly.atom(f'arg{cp}')
        guards = [g_ for g_ in L.guards() if g_.block is L.header and L.trip(g_) is not None and L.trip(g_) == want]
        probs = []
        if not guards:
            probs.append('no header guard with trip count num_fragments: ' + '; '.join(f'{g_.lhs} {g_.pred} {g_.bound}' for g_ in L.guards())[:120])
        ld = f.defs.get(strip_ptr_casts(f, v.ops[1]))
        okarg = False
        if ld is not None and ld.op == 'load':
            pt = L.ptr_at_iteration(*pc.ptr(ld.ops[0]))
            ab = affine_in_t(pt[1]) if pt is not None else None
            okarg = pt is not None and pt[0] == f'arg{ap}' and ab is not None and ab[0].is_zero() and ab[1] == Poly.const(8)
        if not okarg and ld is not None and ld.op == 'load' and pt is not None and ab is not None and ab[0].is_zero() and ab[1] == Poly.const(8):
            # the element of a local list that an earlier loop filled with a verbatim copy of the caller's list (slot i = fragment i)
            LS20 = loops_of(P, f, pc)
            for st_ in [i for i in f.insts() if i.op == 'store' and i.ty == 'i8*']:
                L1 = innermost(LS20, st_.bb)
                if L1 is None or L1.header is L.header or L.header in L1.body:
                    continue
                g1 = [g_ for g_ in L1.guards() if g_.block is L1.header and L1.trip(g_) is not None and L1.trip(g_) == want]
                dp_ = L1.ptr_at_iteration(*pc.ptr(st_.ops[1]))
                vd_ = f.defs.get(strip_ptr_casts(f, st_.ops[0]))
                sp_ = L1.ptr_at_iteration(*pc.ptr(vd_.ops[0])) if vd_ is not None and vd_.op == 'load' else None
                if g1 and dp_ is not None and sp_ is not None and dp_[0] == pt[0] and sp_[0] == f'arg{ap}':
                    da_, sa_ = affine_in_t(dp_[1]), affine_in_t(sp_[1])
                    if da_ is not None and sa_ is not None and da_[0].is_zero() and sa_[0].is_zero() and da_[1] == Poly.const(8) and sa_[1] == Poly.const(8) and len(L1.exits) == 1:
                        okarg = True
        if not okarg:
            probs.append('the validated element is not available_fragments[i] for i = 0 .. num_fragments-1')
        # every other way out of the loop is an error return (negative), e.g. allocation failure - not a silent stop
        bound_exits = {g_.exit_edge for g_ in guards}
        for (b_, s_) in L.exits:
            if (b_, s_) in bound_exits:
                continue
            vals = returns_via_edge(f, b_, s_)
            if not vals or not all(isinstance(x, int) and x < 0 for x in vals):
                probs.append(f'the loop can be left at line {b_.insts[-1].line} without an error (returns {sorted(map(str, vals))[:3]}): later fragments are never looked at')
        if probs:
            r.fail(inst, func=f.name, sig='filter: ' + probs[0][:90], loc=v.loc, msg='; '.join(probs))
        else:
            r.ok(inst + ': num_fragments iterations over available_fragments[i]', func=f.name, loc=v.loc)
    r.require_min(1)

    r = ctx.rule('R20d', 'the scratch list of validated fragments has room for num_fragments pointers',
                 'the filter may keep every supplied fragment, duplicates included: a list sized k+m overflows when more are supplied')
    for v in vcalls:
        # the array that receives the kept fragments inside the filter loop
        L = innermost(loops_of(P, f, pc), v.bb)
        if L is None:
            continue
        allocs = []
        for st in [i for b_ in L.body for i in b_.insts if i.op == 'store' and i.ty.endswith('*')]:
            root, off = pc.ptr(st.ops[1])
            a = [i for i in f.insts() if i.op == 'call' and i.res and Canon(P, f).val(i.res) == root and i.callee in ('@malloc', '@calloc', '@alloc_zeroed_buffer', '@get_aligned_buffer16')]
            allocs += a
        for a in {id(x): x for x in allocs}.values():
            size = pc.val(a.ops[-1] if a.callee != '@calloc' else a.ops[0])
            if a.callee == '@calloc':
                size = pc.val(a.ops[0]) * pc.val(a.ops[1])
            inst = f'liberasurecode_decode: list allocated at line {a.line}'
            if size == Poly.atom(f'arg{cp}') * 8:
                r.ok(inst + ' holds num_fragments pointers', func=f.name, loc=a.loc)
            else:
                r.fail(inst, func=f.name, sig=f'scratch list of {size} bytes', loc=a.loc,
                       msg=f'the list that receives the validated fragments is allocated with {size} bytes, not 8 * num_fragments: with more than that many supplied fragments '
                           '(duplicates) the filter writes past it')
    r.require_min(1)

    r = ctx.rule('R20b', 'the validity verdict used by the filter is the full validation pipeline (C12 obligations)',
                 'a weakened verdict lets damaged fragments through the filter')
    c12.rule_validation_pipeline(ctx, P, r)
    r.require_min(8)
    ctx.borrow('c12', ['R12a'], 'the forced check relies on the exact index test of the metadata verifier')
    ctx.borrow('c10', ['R10b'], 'the forced check relies on the verifier raising the mismatch flag')
    ctx.borrow('c03', ['R03c'], 'rebuilt fragments must carry the instance checksum type, or later damage to them passes the forced check')
