"""C07 wire format: layout witness (E12), one serializer (E6), metadata CRC extent, equal fragment sizes."""
import re
from .. import witness, effects, callgraph
from ..vflow import Canon, access_path, fields_in_path, strip_ptr_casts, strip_int_casts, const_int
from ..cfg import reaches_without
from ..build import AnalysisBroken
from . import shared

EXPLANATION = (
    "Static decision of the structural clauses of C07 on the current /repo tree. W07: _Static_assert battery over "
    "erasurecode.h compiled with the repo's flags (sizeof/offsetof/width/signedness of every header member, magic, "
    "version macro; golden numbers from the property statement). R07a: effect analysis over the whole build - the only "
    "functions that store into a fragment header are the setters/allocator in erasurecode_helpers.c and "
    "add_fragment_metadata; every metadata field except padding is stored on the encode path. R07b: both metadata-CRC "
    "sites take (&hdr->meta, 59) and the writer stores nothing into the header after sealing. R07c: all k+m fragments are "
    "allocated with one size value. NOT decided: byte equality with an independent serializer for all inputs (parity "
    "bytes are numerical results), host endianness.")

GOLD_META = [('idx', 0, 4), ('size', 4, 4), ('frag_backend_metadata_size', 8, 4), ('orig_data_size', 12, 8),
             ('chksum_type', 20, 1), ('chksum', 21, 32), ('chksum_mismatch', 53, 1), ('backend_id', 54, 1),
             ('backend_version', 55, 4)]
GOLD_HDR = [('meta', 0, 59), ('magic', 59, 4), ('libec_version', 63, 4), ('metadata_chksum', 67, 4), ('aligned_padding', 71, 9)]

def layout_asserts():
    a = [('sizeof_header_80', 'sizeof(fragment_header_t) == 80'),
         ('sizeof_metadata_59', 'sizeof(fragment_metadata_t) == 59'),
         ('header_multiple_of_16', 'sizeof(fragment_header_t) % 16 == 0'),
         ('magic_value', 'LIBERASURECODE_FRAG_HEADER_MAGIC == 0x0b0c5ecc'),
         ('max_checksum_len_8', 'LIBERASURECODE_MAX_CHECKSUM_LEN == 8'),
         ('max_fragments_32', 'EC_MAX_FRAGMENTS == 32'),
         ('version_macro', '_VERSION(1,2,0) == 0x010200'),
         ('version_encoding', 'LIBERASURECODE_VERSION == ((_MAJOR << 16) | (_MINOR << 8) | _REV)'),
         ('version_fits_bytes', '_MINOR < 256 && _REV < 256 && _MAJOR < 65536'),
         ('chksum_crc32_is_2', 'CHKSUM_CRC32 == 2'), ('chksum_none_is_1', 'CHKSUM_NONE == 1'),
         ('chksum_elem_u32', 'sizeof(((fragment_metadata_t*)0)->chksum[0]) == 4')]
    for n, off, sz in GOLD_META:
        a.append((f'meta.{n}.offset', f'offsetof(fragment_metadata_t, {n}) == {off}'))
        a.append((f'meta.{n}.size', f'sizeof(((fragment_metadata_t*)0)->{n}) == {sz}'))
        if n != 'chksum':
            a.append((f'meta.{n}.unsigned', f'(__typeof__(((fragment_metadata_t*)0)->{n}))-1 > 0'))
    for n, off, sz in GOLD_HDR:
        a.append((f'hdr.{n}.offset', f'offsetof(fragment_header_t, {n}) == {off}'))
        a.append((f'hdr.{n}.size', f'sizeof(((fragment_header_t*)0)->{n}) == {sz}'))
    for n in ('magic', 'libec_version', 'metadata_chksum'):
        a.append((f'hdr.{n}.unsigned', f'(__typeof__(((fragment_header_t*)0)->{n}))-1 > 0'))
    return a

# functions allowed to store into a fragment header, with the fields they own (frozen table, one reason each)
WRITERS = {
    '@alloc_fragment_buffer': 'allocator stamps the magic',
    '@set_fragment_idx': 'setter', '@set_fragment_payload_size': 'setter', '@set_fragment_backend_metadata_size': 'setter',
    '@set_orig_data_size': 'setter', '@set_libec_version': 'setter', '@set_backend_id': 'setter',
    '@set_backend_version': 'setter', '@set_checksum': 'payload checksum writer',
    '@add_fragment_metadata': 'seals the metadata checksum',
    '@init_fragment_header': 'stamps the magic on a rebuilt fragment',
}
ENCODE_FIELDS = {('meta', 'idx'), ('meta', 'size'), ('meta', 'frag_backend_metadata_size'), ('meta', 'orig_data_size'),
                 ('meta', 'chksum_type'), ('meta', 'chksum'), ('meta', 'chksum_mismatch'), ('meta', 'backend_id'),
                 ('meta', 'backend_version'), ('magic',), ('libec_version',), ('metadata_chksum',)}

INT_RE7 = re.compile(r'^-?\d+$')

def run(ctx):
    # ---- W07
    r = ctx.rule('W07', 'header layout witness (_Static_assert, repo flags)',
                 'a moved/resized member or changed magic makes stored fragments unreadable; round-trip tests still pass')
    compilers = ['clang-14'] + (['gcc'] if ctx.tier == 'thorough' else [])
    for cc in compilers:
        res = witness.run_witness(ctx.root, ['erasurecode.h', 'erasurecode_version.h'], layout_asserts(), compiler=cc)
        for tag, ok in res.items():
            inst = f'{tag} [{cc}]'
            if ok:
                r.ok(inst, loc='include/erasurecode/erasurecode.h')
            else:
                r.fail(inst, func='fragment_header_t', sig=tag, loc='include/erasurecode/erasurecode.h',
                       msg=f'layout obligation {tag} does not hold when compiled with {cc}')
    r.require_min(40)

    P = ctx.program()
    E = effects.get(P)
    cg = callgraph.get(P)

    # ---- R07a who may write header fields
    r = ctx.rule('R07a', 'only the helpers/serializer store into fragment headers; encode path stores every field',
                 'a second writer (e.g. a backend) makes header bytes depend on more than (config, data)')
    stored_by = {}
    nfun = 0
    for m in P.mods:
        for f in m.functions.values():
            nfun += 1
            hs = E.header_field_stores(f)
            if not hs:
                continue
            if f.name in WRITERS:
                for ins, path in hs:
                    stored_by.setdefault(f.name, set()).add(path)
                r.ok(f'{f.name} stores {sorted(set(p for _, p in hs))}', loc=hs[0][0].loc, func=f.name)
            else:
                for ins, path in hs:
                    r.fail(f'{f.name} stores header field {".".join(path)}', func=f.name, sig='store ' + '.'.join(path),
                           loc=ins.loc, msg=f'{f.name} ({m.src}) stores into fragment header field {".".join(path)}; '
                           'only the helper setters and add_fragment_metadata may')
    # union of fields stored on the encode path
    amd = P.fn('add_fragment_metadata')
    called = set()
    for ins in amd.insts():
        if ins.op == 'call':
            called |= set(cg.callees(amd, ins))
    enc = set(stored_by.get('@add_fragment_metadata', set())) | set(stored_by.get('@alloc_fragment_buffer', set()))
    for c in called:
        enc |= stored_by.get(c, set())
    enc = {p[:2] if p[0] == 'meta' else p[:1] for p in enc}
    for fld in sorted(ENCODE_FIELDS):
        name = '.'.join(fld)
        if fld in enc:
            r.ok(f'encode path stores {name}', func='@add_fragment_metadata')
        else:
            r.fail(f'encode path stores {name}', func='@add_fragment_metadata', sig='missing store ' + name,
                   loc=f'{amd.mod.src}:{list(amd.insts())[0].line}',
                   msg=f'no store of header field {name} is reachable from add_fragment_metadata / alloc_fragment_buffer')
    ctx.extra['functions_scanned_for_header_stores'] = nfun
    r.require_min(20)

    # ---- R07b metadata checksum extent and sealing order
    r = ctx.rule('R07b', 'metadata CRC covers (&hdr->meta, sizeof meta=59) in writer and validator; nothing stored after sealing',
                 'a CRC over a different extent makes every fragment unverifiable by other builds')
    for fname in ('add_fragment_metadata', 'is_invalid_fragment_header'):
        f = P.fn(fname)
        C = Canon(P, f)
        sites = [i for i in f.insts() if i.op == 'call' and i.callee in ('@crc32', '@liberasurecode_crc32_alt')]
        if len(sites) < 2:
            # the two flavours may be called through a function-pointer local that selects one of two small wrappers
            # (`crc_fn = legacy ? meta_crc_legacy : meta_crc_zlib; crc_fn(&hdr->meta, sizeof(hdr->meta))`): look through them
            class _Site:
                def __init__(self, callee, ops, ins):
                    self.callee, self.ops, self.loc, self.line = callee, ops, ins.loc, ins.line
            for ic in [i for i in f.insts() if i.op == 'call' and (i.callee or '').startswith('%')]:
                targets, st_, seen_ = set(), [ic.callee], set()
                while st_:
                    v_ = st_.pop()
                    if v_ in seen_:
                        continue
                    seen_.add(v_)
                    d_ = f.defs.get(v_)
                    if d_ is None:
                        if isinstance(v_, str) and v_.startswith('@'):
                            targets.add(v_)
                    elif d_.op == 'phi':
                        st_ += [x_ for x_, _ in d_.incoming]
                    elif d_.op == 'select':
                        st_ += d_.ops[1:]
                    elif d_.op == 'bitcast':
                        st_.append(d_.ops[0])
                for tg in sorted(targets):
                    g_ = P.fns.get(tg)
                    if g_ is None or len(g_.order) != 1:
                        continue
                    inner = [i for i in g_.insts() if i.op == 'call' and i.callee in ('@crc32', '@liberasurecode_crc32_alt')]
                    if len(inner) != 1:
                        continue
                    pidx = [g_.param_index(strip_int_casts(g_, strip_ptr_casts(g_, o))) if isinstance(o, str) else None for o in inner[0].ops[:3]]
                    ln_ = inner[0].ops[2]
                    if pidx[1] is None or not INT_RE7.match(str(inner[0].ops[0])) or (pidx[2] is None and not INT_RE7.match(str(ln_))):
                        continue
                    sites.append(_Site(inner[0].callee, [inner[0].ops[0], ic.ops[pidx[1]], ln_ if pidx[2] is None else ic.ops[pidx[2]]], ic))
        # the payload CRC lives in set_checksum, so every CRC call in these two functions is a metadata CRC
        if len(sites) < 2:
            r.undecided(f'{fname}: metadata CRC calls', msg=f'expected both crc32 and crc32_alt, found {len(sites)}')
        for s in sites:
            root, steps = access_path(P, f, s.ops[1])
            fl = fields_in_path(steps)
            ln = const_int(f, s.ops[2])
            seed = const_int(f, s.ops[0])
            okp = fl == [('fragment_header_s', 'meta')] and not any(st[0] in ('ptradd', 'index') for st in steps)
            inst = f'{fname}: {s.callee}({C.val(s.ops[0])}, {C.val(s.ops[1])}, {C.val(s.ops[2])})'
            if okp and ln == 59 and seed == 0:
                r.ok(inst, loc=s.loc, func='@' + fname)
            else:
                r.fail(inst, func='@' + fname, sig=f'{s.callee} ptr={C.val(s.ops[1])} len={C.val(s.ops[2])} seed={C.val(s.ops[0])}',
                       loc=s.loc, msg='metadata checksum must be computed with seed 0 over &header->meta for 59 bytes')
    # sealing: after the metadata_chksum store no header-field store is reachable
    seals = [(i, p) for i, p in E.header_field_stores(amd) if p == ('metadata_chksum',)]
    if not seals:
        r.fail('add_fragment_metadata seals metadata_chksum', func='@add_fragment_metadata', sig='no metadata_chksum store',
               loc=amd.mod.src, msg='add_fragment_metadata does not store metadata_chksum')
    def is_hdr_writer(ins):
        if ins.op == 'store':
            root, steps = access_path(P, amd, ins.ops[1])
            fl = fields_in_path(steps)
            return bool(fl) and fl[0][0] == 'fragment_header_s'
        if ins.op == 'call':
            return any(c in WRITERS for c in cg.callees(amd, ins))
        return False
    for s, _ in seals:
        later = reaches_without(amd, s.bb, is_hdr_writer, lambda i: False, s.idx + 1)
        if later is None:
            r.ok(f'no header store after sealing at line {s.line}', loc=s.loc, func='@add_fragment_metadata')
        else:
            r.fail('header store after sealing', func='@add_fragment_metadata', sig='store after seal: ' + (later.callee or 'store'),
                   loc=later.loc, msg='a header field is written after the metadata checksum was computed')
    # and every setter call precedes: each seal is dominated by... (the CRC input): all header writers reach a seal
    r.require_min(5)

    # ---- R07c equal fragment sizes
    r = ctx.rule('R07c', 'all k+m fragments of a stripe are allocated with the same size value',
                 'fragments of different length break the "same length" clause and the reader\'s size arithmetic')
    f = P.fn('prepare_fragments_for_encode')
    C = Canon(P, f)
    allocs = [i for i in f.insts() if i.op == 'call' and i.callee == '@alloc_fragment_buffer']
    sizes = {C.val(i.ops[0]) for i in allocs}
    tot7 = shared.total_iterations(P, f, allocs) if allocs else None
    if len(allocs) == 1 and tot7 is not None and shared.is_k_plus_m_poly(tot7):
        r.ok(f'alloc_fragment_buffer({C.val(allocs[0].ops[0])}) in one loop over all k + m fragments', loc=allocs[0].loc, func=f.name)
        r.ok('one allocation site: every fragment of the stripe gets the same size', loc=allocs[0].loc, func=f.name, trivial=True)
    elif len(allocs) < 2:
        r.undecided('prepare_fragments_for_encode allocations', msg=f'expected data and parity allocation sites, found {len(allocs)}')
    elif len(sizes) == 1:
        for i in allocs:
            r.ok(f'alloc_fragment_buffer({C.val(i.ops[0])})', loc=i.loc, func=f.name)
    else:
        for i in allocs[1:]:
            if C.val(i.ops[0]) != C.val(allocs[0].ops[0]):
                r.fail('parity/data allocation sizes differ', func=f.name, sig=f'{C.val(allocs[0].ops[0])} vs {C.val(i.ops[0])}',
                       loc=i.loc, msg='fragments of one stripe are allocated with different sizes')
    ctx.assume('clang-14 and the repo\'s configured flags define the ABI of the packed header (x86-64, little endian)')
    from . import c01, c08, c15
    r = ctx.rule('R07e', 'flat-XOR equation tables: every entry of every accepted shape equals the reference contents (lecverif/xor_tables_ref.json)',
                 'parity bytes are part of the wire format: another valid code for a shape writes stripes older builds decode to wrong data, and misreads theirs')
    import json as _json, os as _os
    from .. import xorrules as _xr7
    ref7 = _json.load(open(_os.path.join(_os.path.dirname(_os.path.dirname(_os.path.abspath(__file__))), 'xor_tables_ref.json')))
    mod7 = P.mod('src/builtin/xor_codes/xor_hd_code.c')
    acc7, _box7 = _xr7.accepted_shapes(P)
    for (k7, m7, hd7), a7 in sorted(acc7.items()):
        key7 = f'{k7},{m7},{hd7}'
        Pt7, Dt7 = _xr7.table_ints(P, mod7, a7['parity']), _xr7.table_ints(P, mod7, a7['data'])
        inst = f'flat-XOR tables of shape ({key7})'
        want7 = ref7.get(key7)
        if want7 is None:
            r.info(inst, msg='a shape the reference tree does not accept (no stored stripes to stay compatible with)')
        elif Pt7 == want7['parity'] and Dt7 == want7['data']:
            r.ok(inst + ' equal the reference', func='@init_xor_hd_code', loc=mod7.src)
        else:
            which = 'parity' if Pt7 != want7['parity'] else 'data'
            got7 = Pt7 if which == 'parity' else Dt7
            diff7 = [n_ for n_, (x_, y_) in enumerate(zip(got7 or [], want7[which])) if x_ != y_][:3] if got7 and len(got7) == len(want7[which]) else 'length'
            r.fail(inst, func='@init_xor_hd_code', sig=f'({key7}) {which} table differs from the reference at {diff7}', loc=mod7.src,
                   msg=f'the {which}-side table of shape ({key7}) differs from the reference contents (entries {diff7}): parity fragments of this shape change, '
                       'stripes written by other builds decode to wrong data')
    for key7 in sorted(set(ref7) - {f'{k_},{m_},{h_}' for (k_, m_, h_) in acc7}):
        r.fail(f'flat-XOR shape ({key7}) still accepted', func='@init_xor_hd_code', sig=f'shape ({key7}) no longer accepted', loc=mod7.src,
               msg=f'shape ({key7}) is accepted by the reference tree but not by this one: stripes stored with it can no longer be read')
    r.require_min(38)
    r = ctx.rule('R07d', 'instance_create keeps the caller\'s arguments as given: the argument block is copied whole and no member of it is stored to',
                 'ct is written into every header (offset 20) exactly as the caller passed it: a "normalised" value changes the bytes of every fragment of that configuration')
    cf = P.fn('liberasurecode_instance_create')
    ncp = 0
    for i in cf.insts():
        if i.op == 'call' and (i.callee or '').startswith('@llvm.memcpy'):
            ncp += 1
        if i.op != 'store':
            continue
        fl = fields_in_path(access_path(P, cf, i.ops[1])[1])
        hit = [x for x in fl if x[0] == 'ec_args']
        vd = cf.defs.get(strip_int_casts(cf, i.ops[0])) if hit else None
        if hit and vd is not None and vd.op == 'load' and [x for x in fields_in_path(access_path(P, cf, vd.ops[0])[1]) if x[0] == 'ec_args'][-1:] == hit[-1:]:
            ncp += 2           # a member-by-member copy: the member receives the same member of the caller's block
            r.ok(f'instance_create: args.{hit[-1][1]} copied member to member at line {i.line}', func=cf.name, loc=i.loc)
        elif hit:
            r.fail(f'instance_create: store into args.{hit[-1][1]} at line {i.line}', func=cf.name, sig=f'create stores into ec_args.{hit[-1][1]}', loc=i.loc,
                   msg=f'liberasurecode_instance_create overwrites the member {hit[-1][1]} of the argument block it was given: the instance (and with it every header '
                       'it writes) no longer carries the value the caller configured')
    if ncp >= 2:
        r.ok(f'instance_create: the argument block reaches the instance through {ncp} whole-struct copies, no member store', func=cf.name, loc=cf.mod.src)
    else:
        r.undecided('instance_create: copies of the argument block', loc=cf.mod.src, msg=f'only {ncp} whole-struct copies found')
    r.require_min(1)
    r = ctx.rule('R01a', 'payload split: data fragment i carries the next min(remaining, payload size) input bytes (cursor discipline)',
                 'data fragment i must carry bytes [i*size,(i+1)*size) of the input, zero padded')
    c01.cursor_rule(P, r, 'prepare_fragments_for_encode', 'src')
    r.require_min(1)
    c08.rule_roundup(ctx, P)
    c15.rule_zero_fill(ctx, P)
    ctx.borrow('c01', ['R01d'], 'kernel bytes left unprocessed change the parity bytes of every stripe')
    ctx.borrow('c08', ['R08a'], 'a caller-supplied word size must not change the fragment geometry')
    ctx.borrow('c10', ['R10a'], 'payload checksum bytes are part of the wire format')
    ctx.borrow('c15', ['R15d'], 'header bytes must not depend on process history (no static caches in the operation cones)')
