"""C17 failing backend operation: result tested and surfaced (R17a), nothing half-done (R17b), adapters propagate (R02b)."""
import re
from .. import chains, callgraph, own
from ..vflow import Canon, strip_ptr_casts, derived_pointers, access_path, fields_in_path
from ..cfg import reaches_without, reachable_from
from ..nullcheck import null_edges
from ..build import AnalysisBroken
from . import shared, c16, c02

EXPLANATION = (
    "R17a: the result of each of the five backend operation calls in the front end is tested (init: NULL, the others: < 0, "
    "decided by simulating the result value over its representative classes) and the failing edge reaches return with a "
    "negative value without storing to an output parameter. R17b: on init failure the instance and the dlopen handle are "
    "released before returning; on encode failure the fragment pointers are converted back to buffer heads before "
    "encode_cleanup, in that order; decode/reconstruct failures join the common cleanup (no leak on any path: ownership "
    "typestate of R16a restricted to the four entry points, single-owner rule R16e). R17c: adapters in the op slots propagate "
    "their built-in's failure (R02b for all five slots). NOT decided: 'subsequent calls behave normally' beyond the fact that "
    "no instance state is written by operations (C14 R14e).")

ENTRY = ('liberasurecode_instance_create', 'liberasurecode_encode', 'liberasurecode_decode', 'liberasurecode_reconstruct_fragment',
         'liberasurecode_fragments_needed')

def run(ctx):
    P = ctx.program()
    cg = callgraph.get(P)
    r = ctx.rule('R17a', 'each backend operation result is tested; failure => negative return, output parameters untouched',
                 'an injected backend failure must surface as an error with nothing half-written')
    chains.op_result_rule(P, r, ENTRY)
    r.require_min(5)

    r = ctx.rule('R17b', 'failure paths release everything in the right order (instance + dl handle; pointer restore before cleanup; common exit)',
                 'the caller owes no cleanup call after a failed operation')
    f = P.fn('liberasurecode_instance_create')
    C = Canon(P, f)
    init_calls = [i for i in f.insts() if i.op == 'call' and i.callee.startswith('%') and set(cg.callees(f, i)) & set(cg.slot_functions('init').values())]
    if not init_calls:
        raise AnalysisBroken('anchor vanished: create does not call ops->init')
    ic = init_calls[0]
    # the NULL edge of the init result (tested through the stored field)
    edges = set()
    for b in f.order:
        t = b.insts[-1]
        if t.op == 'br' and len(t.targets) == 2 and t.ops:
            c = f.defs.get(t.ops[0])
            if c is not None and c.op == 'icmp' and 'null' in c.ops and c.pred in ('eq', 'ne'):
                o = c.ops[0] if c.ops[1] == 'null' else c.ops[1]
                od = f.defs.get(o)
                hit = o == ic.res
                if od is not None and od.op == 'load':
                    _, st2 = access_path(P, f, od.ops[0])
                    hit = hit or fields_in_path(st2)[-1:] == [('ec_backend_desc', 'backend_desc')]
                if hit:
                    edges.add((b, f.blocks[t.targets[0] if c.pred == 'eq' else t.targets[1]]))
    if not edges:
        r.fail('create: init failure edge', func=f.name, sig='init result never tested', loc=ic.loc, msg='a NULL descriptor from init is not detected')
    inst_alloc = [i for i in f.insts() if i.op == 'call' and i.callee in ('@calloc', '@malloc')]
    A, _ = derived_pointers(f, [inst_alloc[0].res]) if inst_alloc else (set(), set())
    for (b, nb) in edges:
        def is_free_inst(i):
            return i.op == 'call' and i.callee == '@free' and i.ops[0] in A
        def is_close(i):
            return i.op == 'call' and (i.callee in ('@liberasurecode_backend_close', '@dlclose'))
        leak_inst = reaches_without(f, nb, lambda i: i.op == 'ret', is_free_inst)
        leak_dl = reaches_without(f, nb, lambda i: i.op == 'ret', is_close)
        # close must come before the free of the instance it reads
        close_after_free = reaches_without(f, nb, is_close, lambda i: False)
        order_bad = None
        fr = reaches_without(f, nb, is_free_inst, is_close)
        if leak_inst is not None:
            r.fail('create: init failure frees the instance', func=f.name, sig='instance leaked on init failure', loc=b.insts[-1].loc,
                   msg='when the backend init fails a path returns without free(instance)')
        else:
            r.ok('create: init failure frees the instance', func=f.name, loc=b.insts[-1].loc)
        if leak_dl is not None:
            r.fail('create: init failure closes the backend library handle', func=f.name, sig='dlopen handle leaked on init failure', loc=b.insts[-1].loc,
                   msg='when the backend init fails the dlopen()ed handle stored in the instance is never closed (the instance is freed with it)')
        elif fr is not None:
            r.fail('create: handle closed before the instance is freed', func=f.name, sig='free(instance) before backend_close', loc=fr.loc,
                   msg='the instance is freed before liberasurecode_backend_close reads the handle from it')
        else:
            r.ok('create: init failure closes the backend library handle before freeing the instance', func=f.name, loc=b.insts[-1].loc)
    # encode failure: pointer restore before cleanup
    e = P.fn('liberasurecode_encode')
    from .. import oblig
    calls = [i for i in e.insts() if i.op == 'call' and ((i.callee.startswith('%') and set(cg.callees(e, i)) & set(cg.slot_functions('encode').values()))
                                                         or i.callee == '@prepare_fragments_for_encode')]
    for c in calls:
        name = c.callee if c.callee.startswith('@') else 'ops->encode'
        bad = None
        nrest = 0
        for v in [x for x in oblig.representative_values(e, c.res) if x < 0][:2]:
            outs = oblig.simulate(e, c, v, stop_calls=('@get_fragment_ptr_array_from_data', '@liberasurecode_encode_cleanup'))
            seq = [val.callee for kind, val, tr in outs if kind == 'event']
            # simulate explores a single path for a decided value: order of events is program order along it
            if '@liberasurecode_encode_cleanup' not in seq:
                bad = 'no encode_cleanup on the failure path'
            else:
                ci = seq.index('@liberasurecode_encode_cleanup')
                nrest = seq[:ci].count('@get_fragment_ptr_array_from_data')
                if nrest < 2:
                    bad = f'encode_cleanup runs after only {nrest} pointer-restore calls (data and parity arrays hold payload pointers, not buffer heads)'
        inst = f'encode: failure of {name} restores fragment pointers, then cleans up'
        if bad:
            r.fail(inst, func=e.name, sig=f'{name} failure: {bad[:70]}', loc=c.loc, msg=bad)
        else:
            r.ok(inst, func=e.name, loc=c.loc)
    # no leak on any path of the entry points
    n = c16.run_r16a(ctx, P, r, only_fn={'@' + x for x in ENTRY})
    shared.rule_single_owner(ctx, P, r)
    r.require_min(12)

    r = ctx.rule('R17c', 'adapters propagate failures of their built-in code (all operation slots)',
                 'a dropped result turns a backend failure into success')
    chains.propagation_rule(P, r, ['encode', 'decode', 'reconstruct', 'fragments_needed'], shared.IN_SCOPE_BACKENDS, 'chain')
    r.require_min(10)
    # the adapters of the external libraries allocate on behalf of the operation too
    r = ctx.rule('R17d', 'adapters of the external back ends (jerasure, shss, libphazr): what an operation allocates is released on every path, failing ones included',
                 'a pointer table moved from the stack to the heap is freed before the successful return only: every failing encode / decode / reconstruct leaks it')
    from . import c16 as _c16
    ext = {n_ for n_, f_ in P.fns.items() if re.search(r'jerasure|shss|phazrio', f_.mod.src)}
    _c16.run_r16a(ctx, P, r, only_fn=ext, every_backend=True)
    r.require_min(3)
    r = ctx.rule('R17e', 'init of every back end (external ones included): an entry point kept in the descriptor is called only after it was stored on that path',
                 'an error exit that "releases library state" through desc->some_function reaches the call with the member still NULL (calloc) or indeterminate (malloc) '
                 'when the refusal came before the symbols were bound: create crashes instead of returning an error')
    cg17 = callgraph.get(P)
    n17e = 0
    from ..ir import INT as _INT17
    for iname in sorted(set(cg17.slot_functions('init').values())):
        fi = P.fns.get(iname)
        if fi is None:
            continue
        for al in [i for i in fi.insts() if i.op == 'call' and i.callee in ('@malloc', '@calloc') and i.res]:
            A17, _ = derived_pointers(fi, [al.res])
            def fld(ptr):
                root, steps = access_path(P, fi, ptr)
                fl = fields_in_path(steps)
                return tuple(fl) if fl and (strip_ptr_casts(fi, root) in A17 | {al.res} or root in A17) else None
            # members bound through a table of {symbol, offsetof(member)} rows are written at computed offsets: which member a store
            # hits is not visible here (R16h / R19d treat that form); the rule applies to members assigned by name
            computed = False
            for w_ in fi.insts():
                dst_ = w_.ops[1] if w_.op == 'store' else (w_.ops[0] if w_.op == 'call' and (w_.callee or '').startswith('@llvm.memcpy') else None)
                if dst_ is not None and dst_ in A17:
                    gd_ = fi.defs.get(strip_ptr_casts(fi, dst_))
                    if gd_ is not None and gd_.op == 'getelementptr' and gd_.gep_base_ty == 'i8' and not _INT17.match(gd_.ops[-1]):
                        computed = True
            if computed:
                continue
            for c_ in [i for i in fi.insts() if i.op == 'call' and (i.callee or '').startswith('%')]:
                ld = fi.defs.get(c_.callee)
                if ld is None or ld.op != 'load' or ld.ops[0] not in A17:
                    continue
                fp = fld(ld.ops[0])
                if not fp:
                    continue
                n17e += 1
                esc = reaches_without(fi, al.bb, lambda i_: i_ is ld, lambda i_, fp=fp: i_.op == 'store' and i_.ops[1] in A17 and fld(i_.ops[1]) == fp, al.idx + 1)
                inst = f'{iname}: call through {".".join(x[1] for x in fp)} at line {c_.line}'
                if esc is None:
                    r.ok(inst + ' follows the store of that member on every path', func=fi.name, loc=c_.loc)
                else:
                    r.fail(inst, func=fi.name, sig=f'call through descriptor member {fp[-1][1]} before it is bound', loc=c_.loc,
                           msg=f'{iname} calls desc->{fp[-1][1]} on a path on which the member has not been assigned yet (line {c_.line}): refusals that happen before the '
                               'symbol is bound jump through a NULL / indeterminate pointer')
    if not n17e:
        r.ok('no init calls through a member of the descriptor it is still building', func='<backend inits>', loc='src/backends')
    r.require_min(1)
    ctx.borrow('c14', ['R14f'], 'a failed create must not change the reference count of the shared GF tables')
    ctx.borrow('c18', ['R18d'], 'a failed call must not leave the registry lock held')
    ctx.borrow('c16', ['R16a', 'R16f', 'R16g', 'R16i'], 'a failing operation releases everything it allocated, exactly once')
