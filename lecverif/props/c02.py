"""C02 no silent corruption: refusal (R02a/e), propagation (R02b), op results (R02c), header-derived index ranges (R02d)."""
import re
from .. import xorrules, chains, callgraph
from ..vflow import Canon, strip_int_casts, strip_ptr_casts, derived_pointers
from ..guards import Facts, lower_bound_at
from ..retval import returns_via_edge
from ..build import AnalysisBroken
from . import shared

EXPLANATION = (
    "R02a: in every function that switches on the result of get_failure_pattern and returns a value, all paths through the "
    "GE_HD and default arms return a negative constant (constant propagation through the return phi, refined by dominating "
    "equalities). R02e: the -1 sentinel of index_of_connected_parity is tested (also through phis, per incoming edge) before "
    "use as subscript or shift. R02b: in the cone of the decode/reconstruct/fragments_needed op slots of the in-scope backends "
    "every call to a function that may return a negative value has its result returned, or tested with the failing edge "
    "returning negative (decided by simulating the single result value over its representative classes); the two RS adapter "
    "edges are exempt because R02d pre-empts their only failure. R02c: every ops->{encode,decode,reconstruct,fragments_needed} "
    "result in the front end is tested and the negative edge returns an error without storing to output parameters. R02d: "
    "indexes read from fragment headers carry dominating lower and upper bounds at every subscript; more than m missing "
    "fragments is refused with a negative constant. NOT decided: in-bounds reads/writes in general (needs value ranges of "
    "blocksize against allocation sizes through the plug-in boundary); exactness of recovered bytes.")

FRONT = ('liberasurecode_encode', 'liberasurecode_decode', 'liberasurecode_reconstruct_fragment', 'liberasurecode_fragments_needed',
         'liberasurecode_instance_create')

def rule_r02d(ctx, P, r):
    # subscripts by header-derived indexes
    for fname in ('get_fragment_partition', 'fragments_to_string'):
        f = P.fn(fname)
        C = Canon(P, f)
        calls = [i for i in f.insts() if i.op == 'call' and i.callee == '@get_fragment_idx' and i.res]
        if not calls:
            raise AnalysisBroken(f'anchor vanished: {fname} does not read fragment indexes')
        for c in calls:
            vals = {c.res}
            changed = True
            while changed:
                changed = False
                for i in f.insts():
                    if i.res and i.res not in vals and ((i.op in ('sext', 'zext', 'trunc') and i.ops[0] in vals)):
                        vals.add(i.res); changed = True
            uses = []
            for i in f.insts():
                if i.op == 'getelementptr' and any(o in vals for o in i.ops[1:]):
                    uses.append((i, 'data[] subscript', 'k'))
                elif i.op == 'sub' and i.ops[0] in vals:
                    uses.append((i, 'parity[] subscript (index - k)', 'k+m'))
            def contexts(v, depth=0):
                """where the address computed from the index is actually used: [(block, (condition, truth) or None)] - a
                conditional expression `(idx < k) ? &data[idx] : &parity[idx - k]` computes both addresses and uses one"""
                out = []
                for u in f.insts():
                    ops_ = u.ops if u.op != 'phi' else [x for x, _ in u.incoming]
                    if v not in ops_ or depth > 4:
                        continue
                    if u.op == 'select' and v in u.ops[1:]:
                        out.append((u.bb, (u.ops[0], u.ops[1] == v)))
                    elif u.op in ('getelementptr', 'bitcast', 'sext', 'zext', 'trunc') and u.res:
                        out += contexts(u.res, depth + 1)
                    elif u.op in ('load', 'store', 'call', 'phi'):
                        out.append((u.bb, None))
                return out
            expanded = []
            for i, how, ub in uses:
                # `dest[idx - first]` with `first = is_parity ? k : 0` (and dest chosen by the same test): one use per arm
                sd_ = f.defs.get(strip_int_casts(f, i.ops[1])) if i.op == 'sub' else None
                if sd_ is not None and sd_.op == 'select':
                    arms = [(strip_int_casts(f, sd_.ops[1]), True), (strip_int_casts(f, sd_.ops[2]), False)]
                    if {a_ for a_, _ in arms} == {f.params[0][1], '0'}:
                        for a_, tv_ in arms:
                            bbs_ = [bb_ for bb_, _cd in (contexts(i.res) or [(i.bb, None)])]
                            for bb_ in dict.fromkeys(bbs_):
                                expanded.append((i, 'parity[] subscript (index - k)' if a_ != '0' else 'data[] subscript', 'k+m' if a_ != '0' else 'k', bb_, (sd_.ops[0], tv_)))
                        continue
                ctxs = contexts(i.res) if i.res else []
                if ctxs:
                    # the range check has to hold where the address is used, not where it is computed
                    expanded += [(i, how, ub, bb_, cd) for bb_, cd in dict.fromkeys(ctxs)]
                else:
                    expanded.append((i, how, ub, i.bb, None))
            for i, how, ub, at_bb, extra in expanded:
                F = Facts(P, f, at_bb)
                if extra is not None:
                    F._add(extra[0], extra[1])
                e = F.norm(c.res)
                lo = F.lower_bound(e)
                ups = F.upper_bound_sym(e)
                if ub == 'k':
                    okub = any(strict and re.match(r'^arg0$', b) for b, strict, sg in ups)     # k is the first parameter
                    lo_ok = lo is not None and lo >= 0
                else:
                    okub = any(strict and b in ('(arg0 add arg1)', '(arg1 add arg0)') for b, strict, sg in ups)
                    # index - k >= 0 follows from the not-taken `index < k` branch
                    lo_ok = any(p == 'sge' and a == e and b == 'arg0' for p, a, b in F.facts) or (lo is not None and lo >= 0 and False)
                    lo_ok = lo_ok and True
                if not (lo_ok and okub):
                    # the same two bounds as linear facts: idx > n - 1, idx - k >= m, (idx | size) < 0 ... are range checks as well
                    from ..guards import PolyFacts
                    from ..poly import Poly as _P02
                    PF = PolyFacts(P, f, at_bb, extra=[extra] if extra is not None else None)
                    I_, K_, M_ = PF.pc.val(c.res), _P02.atom('arg0'), _P02.atom('arg1')
                    if ub == 'k':
                        lo_ok, okub = lo_ok or PF.ge0(I_), okub or PF.lt(I_, K_)
                    else:
                        lo_ok, okub = lo_ok or PF.ge0(I_ - K_), okub or PF.lt(I_, K_ + M_)
                if not (lo_ok and okub):
                    # validated in an earlier pass over the same list: a loop that reads the index of every fragment, leaves only at
                    # the end of the list or with an error, and goes on to the next fragment only when the bounds hold
                    lo2, ub2 = earlier_pass_bounds(P, f, C, c, at_bb, ub)
                    lo_ok, okub = lo_ok or lo2, okub or ub2
                inst = f'{fname}: header index as {how} (line {i.line})'
                if lo_ok and okub:
                    r.ok(inst, func=f.name, loc=i.loc, facts={'facts': F.mentions(e)})
                else:
                    why = []
                    if not lo_ok:
                        why.append('no lower bound')
                    if not okub:
                        weaker = [b for b, strict, sg in ups]
                        why.append(f'no strict upper bound {ub}' + (f' (found {ups})' if ups else ''))
                    r.fail(inst, func=f.name, sig=f'header index unchecked as {how.split(" ")[0]}: {"; ".join(why)[:80]}', loc=i.loc,
                           msg=f'a fragment index taken from an (attacker-controlled) header is used as {how} without a complete range check: {"; ".join(why)}')
    # > m missing is refused
    f = P.fn('get_fragment_partition')
    C = Canon(P, f)
    rets = [i for i in f.insts() if i.op == 'ret']
    found = False
    from ..cfg import natural_loops
    headers = set(natural_loops(f).keys())
    from ..poly import PolyCtx as _PC02, Poly as Poly02
    pc02 = _PC02(P, f, C)
    from ..guards import NEG as _NEG02
    Mp = Poly02.atom('arg1')
    def _q(pred, A, B):
        return {'slt': B - A - Poly02.const(1), 'sle': B - A, 'sgt': A - B - Poly02.const(1), 'sge': A - B}.get(pred)
    # the counters of missing fragments: the merges whose value subscripts a store into the missing list (last parameter), or walks it
    Amiss, _ = derived_pointers(f, [f.params[-1][1]])
    web = set()
    for st_ in f.insts():
        if st_.op == 'store' and st_.ops[1] in Amiss:
            g_ = f.defs.get(strip_ptr_casts(f, st_.ops[1]))
            while g_ is not None and g_.op in ('getelementptr', 'bitcast'):
                if g_.op == 'getelementptr':
                    web |= {a_ for a_ in pc02.val(g_.ops[-1]).atoms() if a_.startswith('%')}
                g_ = f.defs.get(g_.ops[0])
            if g_ is not None and g_.op == 'phi':
                web.add(g_.res)
    grew = True
    while grew:
        grew = False
        for ph in f.insts():
            if ph.op != 'phi':
                continue
            linked = {a_ for v_, _ in ph.incoming for a_ in ((pc02.val(v_).atoms() if not ph.ty.endswith('*') else {pc02.ptr(v_)[0]} | pc02.ptr(v_)[1].atoms())) if a_.startswith('%')}
            if (ph.res in web and not linked <= web) or (ph.res not in web and linked & web):
                web |= linked | {ph.res}
                grew = True
    def _count_minus_m(Q, c):
        """Q == n - m - c for a counter n of the missing list (a counter, or the distance a write cursor has moved)"""
        R = Q + Mp + Poly02.const(c)
        ats = list(R.atoms())
        return len(ats) == 1 and R == Poly02.atom(ats[0]) and ats[0] in web
    for i in f.insts():
        if i.op == 'icmp' and i.pred in ('sgt', 'sge', 'slt', 'sle') and i.bb not in headers:
            A_, B_ = pc02.val(i.ops[0]), pc02.val(i.ops[1])
            Qt, Qf = _q(i.pred, A_, B_), _q(_NEG02[i.pred], A_, B_)
            # which truth value of the comparison means "num_missing > m" (n - m - 1 >= 0); `weak`: it means n >= m
            gt_when = True if _count_minus_m(Qt, 1) else (False if _count_minus_m(Qf, 1) else None)
            weak_when = True if _count_minus_m(Qt, 0) else (False if _count_minus_m(Qf, 0) else None)
            if gt_when is None and weak_when is None:
                continue
            users = [u for u in f.insts() if i.res in u.ops]
            for u in users:
                when = gt_when if gt_when is not None else weak_when
                if u.op == 'select':
                    tv, fv = (u.ops[1], u.ops[2]) if when else (u.ops[2], u.ops[1])
                    found = True
                    if gt_when is not None and re.match(r'-\d+$', tv) and fv == '0':
                        r.ok('get_fragment_partition: num_missing > m => negative', func=f.name, loc=i.loc)
                    elif gt_when is None and re.match(r'-\d+$', tv):
                        r.fail('get_fragment_partition: num_missing > m', func=f.name, sig='refuses num_missing >= m', loc=i.loc,
                               msg='exactly m missing fragments is within tolerance but is refused')
                    else:
                        r.fail('get_fragment_partition: num_missing > m', func=f.name, sig=f'select({i.pred}) {tv},{fv}', loc=i.loc,
                               msg='more than m missing fragments is not turned into a negative return value')
                elif u.op == 'br':
                    found = True
                    tedge = f.blocks[u.targets[0] if when else u.targets[1]]
                    oedge = f.blocks[u.targets[1] if when else u.targets[0]]
                    vals = returns_via_edge(f, u.bb, tedge)
                    ovals = returns_via_edge(f, u.bb, oedge)
                    if gt_when is not None and vals and all(isinstance(v, int) and v < 0 for v in vals) and ovals and all(v == 0 for v in ovals):
                        r.ok('get_fragment_partition: num_missing > m => negative', func=f.name, loc=i.loc)
                    elif gt_when is None and vals and all(isinstance(v, int) and v < 0 for v in vals):
                        r.fail('get_fragment_partition: num_missing > m', func=f.name, sig='refuses num_missing >= m', loc=i.loc,
                               msg='exactly m missing fragments is within tolerance but is refused')
                    else:
                        r.fail('get_fragment_partition: num_missing > m', func=f.name, sig=f'branch({i.pred}) returns {sorted(map(str, vals))}', loc=i.loc,
                               msg='more than m missing fragments is not refused with a negative value')
    if not found:
        r.fail('get_fragment_partition: num_missing > m => negative', func=f.name, sig='missing-count check absent', loc=rets[0].loc,
               msg='get_fragment_partition never compares the number of missing fragments with m: back ends that do not report "too many erasures" '
                   '(the RS adapter drops its coder\'s result) then return success with zero-filled fragments')

def earlier_pass_bounds(P, f, C, call2, use_bb, ub):
    """(lower bound holds, upper bound holds) for the index read by call2, established by an earlier validation pass"""
    from ..poly import PolyCtx, Poly
    from ..loops import loops_of, innermost
    from ..guards import PolyFacts, dominating_edges
    from ..retval import all_negative
    pc = PolyCtx(P, f, C)
    LS = loops_of(P, f, pc)
    L2 = innermost(LS, call2.bb)
    if L2 is None:
        return False, False
    norm = lambda e: re.sub(r'phi%[\w.]+', 'phi', e)
    K_, M_ = Poly.atom('arg0'), Poly.atom('arg1')
    for c1 in [i for i in f.insts() if i.op == 'call' and i.callee == call2.callee and i is not call2 and i.res]:
        L1 = innermost(LS, c1.bb)
        if L1 is None or L1.header is L2.header or norm(C.val(c1.ops[0])) != norm(C.val(call2.ops[0])):
            continue
        # same number of iterations, left only at the end or with an error, and before the second pass starts
        g1 = [g for g in L1.guards() if g.block is L1.header]
        g2 = [g for g in L2.guards() if g.block is L2.header]
        if len(g1) != 1 or len(g2) != 1 or L1.count_for(g1[0])[0] is None or L1.count_for(g1[0])[0] != L2.count_for(g2[0])[0]:
            continue
        if any((xb, xs) != g1[0].exit_edge and not all_negative(returns_via_edge(f, xb, xs)) for xb, xs in L1.exits):
            continue
        if g1[0].exit_edge not in dominating_edges(f, L2.header):
            continue
        I1 = pc.val(c1.res)
        lo = up = True
        for latch in L1.latches:
            PF = PolyFacts(P, f, latch, pc=pc)
            if ub == 'k':
                lo = lo and PF.ge0(I1)          # the upper bound k is the second pass's own data / parity split
            else:
                lo, up = lo and PF.ge0(I1), up and PF.lt(I1, K_ + M_)
        if lo and up:
            # the first pass bounds the index by 0 <= idx < k + m; the second pass must still separate data from parity itself
            from ..guards import Facts
            F2 = Facts(P, f, use_bb)
            e2 = F2.norm(call2.res)
            if ub == 'k':
                ups = F2.upper_bound_sym(e2)
                return True, any(strict and b == 'arg0' for b, strict, sg in ups)
            return any(p_ == 'sge' and a_ == e2 and b_ == 'arg0' for p_, a_, b_ in F2.facts), True
    return False, False

def run(ctx):
    P = ctx.program()
    r = ctx.rule('R02a', 'beyond-tolerance arms (GE_HD, default) of XOR decoder and planner return a negative value',
                 'an arm that falls through with ret = 0 reports success with unrepaired, zero-filled buffers')
    xorrules.refusal_rule(P, r)
    r.require_min(3)
    r = ctx.rule('R02e', 'the -1 sentinel of index_of_connected_parity is tested before use as subscript / shift',
                 'parity[-1-k] / 1 << -1 read and write outside the arrays')
    xorrules.sentinel_rule(P, r)
    r.require_min(8)
    r = ctx.rule('R02b', 'refusal chain: fallible results are returned or tested in the decode/reconstruct/fragments_needed cones',
                 'a dropped negative result turns "cannot decode" into success')
    n = chains.propagation_rule(P, r, ['decode', 'reconstruct', 'fragments_needed'], shared.IN_SCOPE_BACKENDS, 'chain')
    r.require_min(10, 'fallible call sites')
    r = ctx.rule('R02c', 'front end tests every backend operation result; failure => negative return, outputs untouched',
                 'an untested failure hands the caller garbage with rc 0')
    chains.op_result_rule(P, r, FRONT)
    r.require_min(5, 'op call sites')
    r = ctx.rule('R02d', 'header-derived fragment indexes are range-checked on both sides before use; > m missing is refused',
                 'decode of too few / out-of-range fragments must be an error, not an out-of-bounds access')
    rule_r02d(ctx, P, r)
    r.require_min(4)
    from . import c01
    rb = ctx.rule('R01b', 'fragments handed to the backends are 16-byte aligned (fresh allocation or alignment test passed)')
    rc = ctx.rule('R01c', 'replacement copy of an unaligned fragment copies header + payload',
                  'a short copy zeroes the tail of every realigned survivor: success with wrong bytes')
    c01.rule_realign(ctx, P, rb, rc)
    rb.require_min(5); rc.require_min(2)
    # ---------------- R02f premise of the adapters that drop the built-in RS result
    # ---------------- R02g the index lists the decoders walk have room for their terminator
    r = ctx.rule('R02g', 'the -1 terminated lists of missing elements have room for every entry they can receive plus the terminator',
                 'with all m parities (or all k data of a k == m code) erased a list sized for exactly m entries has its terminator written past the allocation')
    from ..poly import Poly as _Pg
    def lows_xor(pc_):
        return {}
    for fname_, fld_ in (('get_missing_parity', 'm'), ('get_missing_data', 'k')):
        fg = P.fn(fname_)
        def need(pc_, a_, fld_=fld_, fg=fg):
            # at most one entry per element of that kind, plus the terminator
            cnt = [x for x in pc_.val(a_.ops[0]).atoms()]      # atoms of the size expression (a field of the code descriptor, if any)
            fldatoms = {a for i_ in fg.insts() if i_.op == 'load' for a in pc_.val(i_.res).atoms() if a.endswith('.' + fld_)}
            base = _Pg.atom(sorted(fldatoms)[0]) if fldatoms else None
            return (base + _Pg.const(1)) if base is not None else _Pg.const(33)
        shared.rule_list_capacity(ctx, P, r, fname_, ('@malloc', '@calloc'), need, 'list of missing ' + ('parity' if fld_ == 'm' else 'data') + ' elements', lambda pc_: {a: 0 for a in []})
    fr_ = P.fn('liberasurecode_reconstruct_fragment')
    for fname_ in ('liberasurecode_decode', 'liberasurecode_reconstruct_fragment'):
        fg = P.fn(fname_)
        def need2(pc_, a_, fg=fg):
            # only the buffer that is handed to get_fragment_partition as the list of missing indexes: up to k + m entries
            gp = [i_ for i_ in fg.insts() if i_.op == 'call' and i_.callee == '@get_fragment_partition']
            if not gp or strip_ptr_casts(fg, gp[0].ops[-1]) != a_.res:
                return None
            return pc_.val(gp[0].ops[0]) + pc_.val(gp[0].ops[1]) + _Pg.const(1)
        def lows2(pc_, fg=fg):
            gp = [i_ for i_ in fg.insts() if i_.op == 'call' and i_.callee == '@get_fragment_partition']
            lo = {}
            if gp:
                for a in pc_.val(gp[0].ops[0]).atoms():
                    lo[a] = 1                     # k >= 1
                for a in pc_.val(gp[0].ops[1]).atoms():
                    lo.setdefault(a, 0)           # m >= 0
            return lo
        shared.rule_list_capacity(ctx, P, r, fname_, ('@alloc_and_set_buffer', '@alloc_zeroed_buffer', '@malloc', '@calloc'), need2, 'list of missing fragment indexes', lows2)
    r.require_min(4)

    # ---------------- R02h adapters forward
    r = ctx.rule('R02h', 'the adapters of the built-in codes forward encode / decode / reconstruct to the plug-in on every path and leave the buffers alone',
                 'a shortcut in an adapter returns success with fragments nobody decoded, or decodes with assumptions the coder does not make')
    shared.rule_forwarders(ctx, P, r)
    r.require_min(6)

    r = ctx.rule('R02f', 'built-in RS decode / reconstruct refuse only when more than m fragments are missing (premise for the adapter not propagating their result)',
                 'the adapter returns 0 whatever the built-in code reports: a refusal at exactly m missing becomes success with an untouched zero-filled buffer')
    from ..poly import PolyCtx, Poly
    from ..loops import loops_of
    for fname in ('liberasurecode_rs_vand_decode', 'liberasurecode_rs_vand_reconstruct'):
        cands = [m.functions['@' + fname] for m in P.mods if m.src == 'src/builtin/rs_vand/liberasurecode_rs_vand.c' and ('@' + fname) in m.functions]
        if not cands:
            raise AnalysisBroken(f'anchor vanished: built-in {fname}')
        bf = cands[0]
        ad = P.fns.get('@' + fname + '$static')
        if ad is not None:
            uses_result = any(c.op == 'call' and c.res and any(c.res in (u.ops if u.op != 'phi' else [v for v, _ in u.incoming]) for u in ad.insts())
                              for c in ad.insts() if c.op == 'call' and c.callee.startswith('%'))
            if uses_result:
                r.ok(f'{fname}: the adapter uses the result of the built-in code (premise not needed)', func=ad.name, loc=ad.mod.src)
                continue
        pcb = PolyCtx(P, bf)
        names = [n for _, n in bf.params]
        mi = 4                       # (generator_matrix, data, parity, k, m, missing, ...)
        K, M = Poly.atom('arg3'), Poly.atom('arg4')
        ivs = {}
        for L in loops_of(P, bf, pcb):
            for nme, (init, step) in L.ivs().items():
                if init is not None and not isinstance(init, tuple) and init.is_zero() and step == Poly.const(1):
                    ivs[nme] = L
        negs = []
        for t in [i for i in bf.insts() if i.op == 'ret' and i.ops]:
            d = bf.defs.get(t.ops[0])
            inc = d.incoming if d is not None and d.op == 'phi' else [(t.ops[0], None)]
            for v, lab in inc:
                if re.match(r'^-\d+$', v):
                    negs.append((v, bf.blocks[lab] if lab else t.bb, t, (bf.blocks[lab], d.bb) if lab else None))
        if not negs:
            r.ok(f'{fname}: never refuses', func=bf.name, loc=bf.mod.src, trivial=True)
        for v, blk, t, edge in negs:
            F = Facts(P, bf, blk, extra_edge=edge)
            okg, seen = False, []
            for raw, truth in F.raw:
                if raw.op != 'icmp':
                    continue
                from ..guards import NEG as _NEG
                pred = raw.pred if truth else _NEG[raw.pred]
                Pp = pcb.val(raw.ops[0]) - pcb.val(raw.ops[1])
                norm = {'sgt': (Pp, 1), 'sge': (Pp, 0), 'slt': (-Pp, 1), 'sle': (-Pp, 0), 'ugt': (Pp, 1), 'uge': (Pp, 0), 'ult': (-Pp, 1), 'ule': (-Pp, 0)}.get(pred)
                if norm is None:
                    continue
                Q, c = norm                      # Q >= c on this edge
                cnt = [a for a in Q.atoms() if a in ivs]
                if len(cnt) == 1:
                    seen.append(f'{Q} >= {c}')
                    if Q - Poly.const(c) == Poly.atom(cnt[0]) - M - Poly.const(1):
                        okg = True
            inst = f'{fname}: return {v} at line {blk.insts[-1].line} only when the number of missing fragments exceeds m'
            if okg:
                r.ok(inst, func=bf.name, loc=blk.insts[-1].loc)
            else:
                r.fail(inst, func=bf.name, sig=f'refusal guard {seen[:2]}', loc=blk.insts[-1].loc,
                       msg=f'the built-in code returns {v} under {seen or "no count test"} - not exactly "missing count >= m + 1": its adapter ignores the result, '
                           'so the front end reports success while nothing was rebuilt')
    r.require_min(2)
    r = ctx.rule('R02j', 'fragments_to_string files each data fragment under its own header index (data[idx(fragment)] = fragment)',
                 'the copy-out concatenates data[0..k-1]: a slot chosen by arrival order returns the payloads in the order the caller listed them, with rc 0')
    fs_ = P.fn('fragments_to_string')
    Cs_ = Canon(P, fs_)
    Af_, _ = derived_pointers(fs_, [fs_.params[2][1]])
    nst_ = 0
    for st_ in fs_.insts():
        if st_.op != 'store' or st_.ty != 'i8*':
            continue
        vd_ = fs_.defs.get(strip_ptr_casts(fs_, st_.ops[0]))
        if vd_ is None or vd_.op != 'load' or vd_.ops[0] not in Af_:
            continue
        gd_ = fs_.defs.get(strip_ptr_casts(fs_, st_.ops[1]))
        if gd_ is None or gd_.op != 'getelementptr':
            continue
        nst_ += 1
        sub_ = Cs_.val(strip_int_casts(fs_, gd_.ops[-1]))
        want_ = f'@get_fragment_idx({Cs_.val(vd_.res)})'
        inst = f'fragments_to_string: fragment stored at line {st_.line} goes to slot idx(fragment)'
        if sub_ == want_:
            r.ok(inst, func=fs_.name, loc=st_.loc)
        else:
            r.fail(inst, func=fs_.name, sig=f'fragment filed under {sub_[:50]}', loc=st_.loc,
                   msg=f'a supplied fragment is stored into slot {sub_} instead of slot {want_}: the payloads are joined in slot order, so fragments listed in another '
                       'order than by index come back permuted')
    if not nst_:
        r.undecided('fragments_to_string: filing of the data fragments', loc=fs_.mod.src, msg='no store of a supplied fragment into a local slot found')
    r.require_min(1)
    r = ctx.rule('R02i', 'decode / reconstruct / fragments_needed refuse only over their arguments, k, m, local counts and the verdicts of their callees',
                 'a refusal that consults another instance parameter (hd of a Reed-Solomon instance is never validated) turns sets within tolerance into errors')
    shared.rule_refusal_inventory(ctx, P, r, ['liberasurecode_decode', 'liberasurecode_reconstruct_fragment', 'liberasurecode_fragments_needed'])
    r.require_min(20)
    ctx.borrow('c05', ['R05e'], 'a loop variable of the wrong index space rebuilds a fragment from the wrong buffers and reports success')
    ctx.borrow('c15', ['R15e'], 'the RS decoder may write a data fragment only when it is flagged missing - and must not read a missing parity as if it were present')
    ctx.borrow('c03', ['R03b', 'R03c'], 'a supplied destination must be copied out whole')
