"""C01 round trip: structural preconditions only - cursor discipline of split/reassembly (R01a), alignment gate for the SIMD
kernels (R01b), whole-fragment replacement copies (R01c)."""
import re
from .. import callgraph, witness
from ..vflow import Canon, strip_int_casts, strip_ptr_casts, derived_pointers, access_path
from ..cfg import natural_loops, reachable_from, reaches_without
from ..guards import Facts, implied_atoms
from ..ir import INT
from ..build import AnalysisBroken
from . import shared

EXPLANATION = (
    "C01 as stated (decoded bytes equal the input for all data, lengths, erasure sets and permutations) quantifies over runtime "
    "values and is NOT decided. Decided structural preconditions: R01a - in the split loop of prepare_fragments_for_encode and "
    "the reassembly loop of fragments_to_string the bytes copied, the cursor advance and the decrement of the remaining length "
    "are the same SSA value and that value is min(remaining, payload size); R01b - every fragment pointer left in data[]/parity[] "
    "by prepare_fragments_for_decode is freshly allocated (16-byte aligned allocator) or passed is_addr_aligned(.,16); the "
    "allocator's alignment constant is 16 and sizeof(header) is a multiple of 16; R01c - the replacement copy of an unaligned "
    "fragment copies header + payload (allocation size + sizeof(header) == bytes copied). Each is a necessary condition: "
    "non-constant data with a wrong advance, an unaligned buffer reaching _mm_xor_si128, or a truncated copy break the round "
    "trip although the pinned suite (constant buffer, aligned inputs) passes.")

def strip_all_casts(e):
    prev = None
    while prev != e:
        prev = e
        e = re.sub(r'(sext|zext|trunc)\.i\d+\(', '(', e)
        e = re.sub(r'\(([\w*@.%\[\]]+)\)', r'\1', e)
    return e.replace('(', '').replace(')', '')

def min_of(fn, C, n, rem, ):
    """is SSA value n == min(rem, S) for some S (written as any comparison / conditional of the two)?  returns S or None.
    Decided by evaluating the conditional on the three orderings rem < S, rem == S, rem > S."""
    d = fn.defs.get(n)
    if d is None:
        return None
    vals, cond = None, None
    if d.op == 'select':
        c = fn.defs.get(d.ops[0])
        vals = (strip_int_casts(fn, d.ops[1]), strip_int_casts(fn, d.ops[2]))
        cond = c
    elif d.op == 'phi' and len(d.incoming) == 2:
        vals = tuple(strip_int_casts(fn, v) for v, _ in d.incoming)
        # controlling branch: common predecessor of the two incoming blocks
        b0, b1 = fn.blocks[d.incoming[0][1]], fn.blocks[d.incoming[1][1]]
        pred = [p for p in b0.preds if p in b1.preds or p is b1] or [p for p in b1.preds if p is b0]
        if pred:
            t = pred[0].insts[-1]
            if t.op == 'br' and t.ops:
                cond = fn.defs.get(t.ops[0])
                # order values as (true-edge value, false-edge value)
                tl = t.targets[0]
                if fn.blocks[tl] is b1 or (b1.preds and fn.blocks[tl] in [b1]):
                    vals = (vals[1], vals[0])
                elif fn.blocks[tl] is not b0:
                    return None
    if vals is None or cond is None or cond.op != 'icmp':
        return None
    a, b = strip_int_casts(fn, cond.ops[0]), strip_int_casts(fn, cond.ops[1])
    tv, fv = vals
    others = {x for x in (a, b, tv, fv) if x != rem}
    if len(others) != 1 or rem not in (a, b) or rem not in (tv, fv):
        return None
    S = next(iter(others))
    fn._cache['min_signed'] = cond.pred[0] == 's'
    from ..oblig import _eval_icmp
    for rv, sv in ((1, 2), (2, 2), (2, 1), (0, 5), (7, 3)):
        env = {rem: rv, S: sv}
        if a not in env or b not in env or tv not in env or fv not in env:
            return None
        got = env[tv] if _eval_icmp(cond.pred, env[a], env[b], 32) else env[fv]
        if got != min(rv, sv):
            return None
    return S

def min_forms(L, fn, n):
    """n == min(E, S) with E, S polynomial forms (poly.py) - decided like min_of, but the arms and the compared values are
    matched as values, so `remaining` may be an expression (total - consumed) instead of a variable.  -> [(E, S), (S, E)] or []"""
    from ..oblig import _eval_icmp
    d = fn.defs.get(n)
    if d is None:
        return []
    cond = tv = fv = None
    if d.op == 'select':
        cond, tv, fv = fn.defs.get(d.ops[0]), d.ops[1], d.ops[2]
    elif d.op == 'phi' and len(d.incoming) == 2:
        b0, b1 = fn.blocks[d.incoming[0][1]], fn.blocks[d.incoming[1][1]]
        pred = [p for p in b0.preds if p in b1.preds or p is b1] or [p for p in b1.preds if p is b0]
        if pred and pred[0].insts[-1].op == 'br' and pred[0].insts[-1].ops:
            t = pred[0].insts[-1]
            cond = fn.defs.get(t.ops[0])
            tb = fn.blocks[t.targets[0]]
            if tb is b0 or (tb is d.bb and pred[0] is b0):
                tv, fv = d.incoming[0][0], d.incoming[1][0]
            elif tb is b1 or (tb is d.bb and pred[0] is b1):
                tv, fv = d.incoming[1][0], d.incoming[0][0]
    if cond is None or cond.op != 'icmp' or tv is None:
        return []
    pa, pb, ptv, pfv = (L.pc.val(x) for x in (cond.ops[0], cond.ops[1], tv, fv))
    out = []
    for E, S in ((ptv, pfv), (pfv, ptv)):
        if E == S or not ({str(pa), str(pb)} == {str(E), str(S)}):
            continue
        good = True
        for rv, sv in ((1, 2), (2, 2), (2, 1), (0, 5), (7, 3)):
            env = {str(E): rv, str(S): sv}
            got = env[str(ptv)] if _eval_icmp(cond.pred, env[str(pa)], env[str(pb)], 32) else env[str(pfv)]
            good = good and got == min(rv, sv)
        if good:
            out.append((E, S))
    return out

def affine_form(P, f, C, M, n, cursor_side):
    """copy length n = min(T - X, S) with the position = base + X, X = i*S.  -> (ok, message) or None if not this shape"""
    nd = f.defs.get(n)
    if nd is None or nd.op not in ('phi', 'select'):
        return None
    cands = [strip_int_casts(f, v) for v, _ in nd.incoming] if nd.op == 'phi' else [strip_int_casts(f, nd.ops[1]), strip_int_casts(f, nd.ops[2])]
    for R in cands:
        rd = f.defs.get(R)
        if rd is None or rd.op != 'sub':
            continue
        T, X = strip_int_casts(f, rd.ops[0]), strip_int_casts(f, rd.ops[1])
        xd = f.defs.get(X)
        if xd is None or xd.op != 'mul':
            continue
        S = min_of(f, C, n, R)
        if S is None:
            return False, f'bytes copied ({C.val(n)}) is not min(remaining, payload size)'
        signed = f._cache.get('min_signed', True)
        pos = strip_ptr_casts(f, M.ops[1] if cursor_side == 'src' else M.ops[0])
        pd = f.defs.get(pos)
        off = strip_int_casts(f, pd.ops[-1]) if pd is not None and pd.op == 'getelementptr' else None
        if off != X:
            return False, f'position offset {C.val(off) if off else "?"} differs from the consumed amount {C.val(X)}'
        if S not in [strip_int_casts(f, o) for o in xd.ops]:
            return False, f'consumed amount {C.val(X)} is not i * {C.val(S)}'
        F = Facts(P, f, M.bb)
        guarded = any((p in ('ule', 'sle', 'ult', 'slt') and a == F.norm(X) and b == F.norm(T)) or
                      (p in ('uge', 'sge', 'ugt', 'sgt') and a == F.norm(T) and b == F.norm(X)) for p, a, b in F.facts)
        wide = rd.ty in ('i64',) and not signed
        if not signed and not guarded:
            return False, (f'remaining = {C.val(T)} - {C.val(X)} is compared unsigned and nothing keeps i*size <= total: for fragments that '
                           'start beyond the end of the input it wraps and a full payload is copied from past the caller\'s buffer')
        return True, f'copy = min({C.val(T)} - i*{C.val(S)}, {C.val(S)}), signed remaining, from base + i*size'
    return None

def cursor_rule(P, r, fname, cursor_side):
    """split / reassembly loops: in every iteration that copies, n = min(remaining, payload) bytes are copied, the cursor
    (source position when splitting, destination position when reassembling) advances by n and remaining drops by n.
    Stated over polynomial recurrences, so an index, a walking pointer or base + offset are the same thing."""
    from ..poly import PolyCtx, Poly
    from ..loops import loops_of, innermost
    f = P.fn(fname)
    C = Canon(P, f)
    pc = PolyCtx(P, f, C)
    LS = loops_of(P, f, pc)
    found = 0
    for M in [i for i in f.insts() if i.op == 'call' and i.callee.startswith('@llvm.memcpy')]:
        L0 = innermost(LS, M.bb)
        if L0 is None:
            continue
        L = L0.via(M.bb)
        n = strip_int_casts(f, M.ops[2])
        npoly = L.pc.val(n)
        # remaining-length variable: a header phi R whose next value is R - n
        rem = []
        for phi in L.phis:
            if phi.ty.endswith('*'):
                continue
            init, step = L.recurrence(phi)
            if step is not None and (step + npoly).is_zero() and not npoly.is_zero():
                rem.append(phi)
        gen = None
        if not rem:
            # `remaining` as an expression over the loop's variables (total - consumed): it must drop by n per iteration
            phd = {p.res: p for p in L.phis}
            for E, S_ in min_forms(L, f, n):
                dE, known = Poly(), bool(E.atoms() & set(phd))
                for a in sorted(E.atoms() & set(phd)):
                    st_ = L.recurrence(phd[a])[1]
                    if st_ is None:
                        known = False
                        break
                    dE = dE + (E.subst(a, Poly.atom(a) + st_) - E)
                if known and (dE + npoly).is_zero() and not npoly.is_zero() and L.invariant(S_):
                    gen = (E, S_)
        if not rem and gen is None:
            aff = affine_form(P, f, C, M, n, cursor_side)
            if aff is not None:
                found += 1
                ok, msg = aff
                inst = f'{fname}: memcpy at line {M.line} (affine cursor)'
                if ok:
                    r.ok(inst + ': ' + msg, func=f.name, loc=M.loc)
                else:
                    r.fail(inst, func=f.name, sig='affine cursor: ' + msg[:90], loc=M.loc, msg='split/reassembly loop breaks the cursor discipline: ' + msg)
                continue
            # a loop with a copy whose length is tied to no decreasing remaining-length variable
            decs = [phi for phi in L.phis if not phi.ty.endswith('*') and L.recurrence(phi)[1] is not None
                    and any(a.startswith('%') for a in L.recurrence(phi)[1].atoms())]
            if decs:
                found += 1
                R = decs[0]
                r.fail(f'{fname}: memcpy at line {M.line}', func=f.name, sig='cursor discipline: remaining length and copy length disagree', loc=M.loc,
                       msg=f'split/reassembly loop breaks the cursor discipline: remaining length changes by {L.recurrence(R)[1]} per iteration but {npoly} bytes are copied')
            continue
        found += 1
        inst = f'{fname}: memcpy at line {M.line}'
        problems = []
        if rem:
            R = rem[0]
            S = min_of(f, C, n, R.res)
        else:
            S = str(gen[1])
        if S is None:
            problems.append(f'bytes copied ({C.val(n)}) is not min(remaining, payload size)')
        # cursor: position used by the copy, as a function of the header phis; its change over one iteration must be n
        used = M.ops[1] if cursor_side == 'src' else M.ops[0]
        root, off = L.pc.ptr(used)
        delta = Poly()
        moving = False
        phis = {p.res: p for p in L.phis}
        if root in phis:
            init, step = L.recurrence(phis[root])
            if step is None:
                problems.append('the position pointer is not advanced uniformly')
            else:
                delta = delta + step; moving = True
        for a in sorted(off.atoms() & set(phis)):
            init, step = L.recurrence(phis[a])
            if step is None:
                problems.append(f'offset variable {a} is not advanced uniformly')
                continue
            delta = delta + (off.subst(a, Poly.atom(a) + step) - off); moving = True
        side = 'source' if cursor_side == 'src' else 'destination'
        # the offset must be a recurrence: every atom is a header phi or loop-invariant.  `base + i*n` with n = this iteration's
        # copy length is not the sum of the lengths copied so far
        varying = [a for a in off.atoms() if a not in phis and not L.invariant(Poly.atom(a))]
        if varying:
            problems.append(f'the {side} position ({off}) is computed from {varying[0]}, which changes from one iteration to the next: '
                            'it is not the running sum of the bytes copied so far')
        if not moving:
            problems.append(f'the {side} position ({C.val(used)[:60]}) does not advance with the loop')
        elif delta != npoly:
            problems.append(f'the {side} position advances by {delta} per iteration but {npoly} bytes are copied')
        if problems:
            r.fail(inst, func=f.name, sig='cursor discipline: ' + problems[0][:90], loc=M.loc,
                   msg='split/reassembly loop breaks the cursor discipline: ' + '; '.join(problems))
        else:
            r.ok(inst + f': copy = advance = decrement = min(remaining, {C.val(S) if rem else S})', func=f.name, loc=M.loc)
    if not found:
        r.undecided(f'{fname}: copy loop', msg='no loop with a memcpy and a decreasing remaining-length variable was recognised')

def rule_realign(ctx, P, rb, rc):
    f = P.fn('prepare_fragments_for_decode')
    C = Canon(P, f)
    arrays = [(pn, 'data' if n == 0 else 'parity') for n, (pty, pn) in enumerate([p for p in f.params if p[0] == 'i8**'][:2])]
    if len(arrays) != 2:
        raise AnalysisBroken('anchor vanished: prepare_fragments_for_decode(k, m, data, parity, ...)')
    for arr, role in arrays:
        A, _ = derived_pointers(f, [arr])
        elem_loads = [i for i in f.insts() if i.op == 'load' and i.ops[0] in A and i.ty == 'i8*']
        # the alignment test is recognised by what it computes, not by the helper it calls: is_addr_aligned (a static inline
        # helper, inlined by the build step) leaves `(address & 15) == 0` / `address % 16 == 0` on a conditional branch
        def low_bits_of(v):
            """(element load, modulus) if v is (ptrtoint elem) & (m - 1) or (ptrtoint elem) % m"""
            d = f.defs.get(v)
            while d is not None and d.op in ('zext', 'sext', 'trunc'):
                d = f.defs.get(d.ops[0])
            if d is None or d.op not in ('and', 'urem', 'srem'):
                return None
            for x, y in (d.ops, d.ops[::-1]):
                if INT.match(y):
                    src = f.defs.get(x)
                    while src is not None and src.op in ('ptrtoint', 'bitcast', 'zext', 'sext', 'trunc'):
                        src = f.defs.get(src.ops[0])
                    if src is not None and src in elem_loads:
                        return src, (int(y) + 1 if d.op == 'and' else int(y))
            return None
        mine = []
        for b in f.order:
            t = b.insts[-1]
            if t.op == 'br' and len(t.targets) == 2 and t.ops and t.targets[0] != t.targets[1]:
                # the edge on which "aligned" is established (alone or together with other tests, e.g. p != NULL && aligned(p));
                # the other edge is the one that has to replace the buffer
                for edge_truth in (True, False):
                    for d, tv in implied_atoms(f, t.ops[0], edge_truth):
                        if d.pred in ('eq', 'ne') and '0' in d.ops and (d.pred == 'eq') == tv:
                            lb = low_bits_of(d.ops[0] if d.ops[1] == '0' else d.ops[1])
                            if lb is not None:
                                mine.append((d, lb[1], b, f.blocks[t.targets[1 if edge_truth else 0]], f.blocks[t.targets[0 if edge_truth else 1]]))
        inst = f'prepare_fragments_for_decode: {role}[] elements are alignment-checked'
        if not mine:
            r_ = rb.fail(inst, func=f.name, sig=f'{role}[] never alignment-checked', loc=f.mod.src,
                         msg=f'no is_addr_aligned test on {role}[i]: an unaligned caller buffer reaches the 128-bit XOR / GF kernels')
            continue
        c, modulus, b, unal, al = mine[0]
        if modulus % 16 != 0 or modulus & (modulus - 1):
            rb.fail(inst, func=f.name, sig=f'{role}[] checked for alignment {modulus}', loc=c.loc, msg=f'alignment tested is {modulus}, the kernels need 16')
            continue
        br = (b, unal, al)
        b, unal, al = br
        def fresh(v, depth=0):
            # a fresh buffer, possibly merged from the two branches that allocate (`replacement = alloc(); ... data[i] = replacement`)
            d_ = f.defs.get(strip_ptr_casts(f, v))
            if d_ is None or depth > 4:
                return False
            if d_.op == 'call':
                return d_.callee == '@alloc_fragment_buffer'
            if d_.op == 'phi':
                return all(fresh(x_, depth + 1) for x_, _ in d_.incoming)
            if d_.op == 'select':
                return all(fresh(x_, depth + 1) for x_ in d_.ops[1:])
            return False
        def is_replace(i):
            return i.op == 'store' and i.ops[1] in A and fresh(i.ops[0])
        def leaves(i):
            return i.op == 'ret' or (i.bb is al and i.idx == 0)
        esc = reaches_without(f, unal, lambda i: (i.bb is al) or i.op == 'ret' and False, is_replace, 0)
        # esc != None means: the merge block is reachable from the unaligned edge without replacing the pointer
        retpaths = reaches_without(f, unal, lambda i: i.op == 'ret', lambda i: is_replace(i) or i.bb is al, 0)
        if esc is not None:
            rb.fail(inst, func=f.name, sig=f'unaligned {role}[i] kept', loc=c.loc,
                    msg=f'on the not-aligned edge {role}[i] can reach the merge without being replaced by an aligned copy')
        else:
            rb.ok(inst + ': unaligned => replaced by alloc_fragment_buffer copy', func=f.name, loc=c.loc)
        # R01c on the replacement memcpy
        region = reachable_from(unal, avoid_blocks={al})
        mcs = [i for bb in region for i in bb.insts if i.op == 'call' and i.callee.startswith('@llvm.memcpy')]
        inst = f'prepare_fragments_for_decode: {role} replacement copy'
        if not mcs:
            rc.fail(inst, func=f.name, sig=f'{role}: no copy into the aligned buffer', loc=c.loc, msg='the aligned replacement buffer is never filled from the caller\'s fragment')
            continue
        M = mcs[0]
        dstd = f.defs.get(strip_ptr_casts(f, M.ops[0]))
        srcd = f.defs.get(strip_ptr_casts(f, M.ops[1]))
        ln = strip_all_casts(C.val(M.ops[2]))
        okdst = dstd is not None and dstd.op == 'call' and dstd.callee == '@alloc_fragment_buffer'
        oksrc = srcd is not None and srcd in elem_loads
        alloc = strip_all_casts(C.val(dstd.ops[0])) if okdst else None
        if not okdst or not oksrc:
            rc.fail(inst, func=f.name, sig=f'{role}: copy from {C.val(M.ops[1])[:30]} to {C.val(M.ops[0])[:30]}', loc=M.loc,
                    msg='the replacement copy does not go from the caller\'s fragment into the fresh aligned buffer')
        elif alloc == f'{ln} sub 80' or alloc == f'-80 add {ln}':
            rc.ok(inst + f': copies {ln} bytes into a buffer of ({ln} - 80) + header', func=f.name, loc=M.loc)
        elif alloc == ln:
            rc.fail(inst, func=f.name, sig=f'{role}: copy length equals the payload-only allocation size', loc=M.loc,
                    msg=f'{ln} bytes are copied into a buffer allocated with alloc_fragment_buffer({alloc}): the copy is sizeof(header) short of the fragment (last 80 payload bytes stay zero)')
        else:
            rc.fail(inst, func=f.name, sig=f'{role}: copies {ln} into alloc({alloc})', loc=M.loc,
                    msg=f'copy length {ln} and allocation alloc_fragment_buffer({alloc}) do not describe the same fragment (alloc + 80 must equal the copy length)')
    # allocator alignment and header size: judged by what the allocation does (posix_memalign with alignment 16, directly or
    # through a wrapper), not by the name of the wrapper
    from . import shared as _sh
    for an in ('get_aligned_buffer16', 'alloc_fragment_buffer'):
        g = P.fn(an)
        az = _sh.aligned_zero_alloc(P, g)
        if az is not None and az['alignment'] is not None and az['alignment'] % 16 == 0:
            rb.ok(f'{an}: posix_memalign(., {az["alignment"]}, .) ({az["how"]})', func=g.name, loc=az['site'].loc)
        else:
            rb.fail(f'{an} alignment', func=g.name, sig='allocator alignment ' + (str(az['alignment']) if az else 'none'), loc=g.mod.src,
                    msg='fragment buffers are not allocated 16-byte aligned' if an == 'get_aligned_buffer16' else 'fragment buffers do not come from get_aligned_buffer16')
    res = witness.run_witness(ctx.root, ['erasurecode.h'], [('header_multiple_of_16', 'sizeof(fragment_header_t) % 16 == 0')])
    if res['header_multiple_of_16']:
        rb.ok('sizeof(fragment_header_t) % 16 == 0 (payload keeps the buffer alignment)', func='fragment_header_t')
    else:
        rb.fail('header size multiple of 16', func='fragment_header_t', sig='sizeof(header) % 16 != 0', loc='include/erasurecode/erasurecode.h', msg='payload pointers are no longer 16-byte aligned')

def run(ctx):
    P = ctx.program()
    r = ctx.rule('R01a', 'split / reassembly loops: bytes copied = cursor advance = decrement of remaining = min(remaining, payload size)',
                 'with non-constant data a wrong advance places bytes in the wrong fragment; the suite encodes a constant buffer')
    cursor_rule(P, r, 'prepare_fragments_for_encode', 'src')
    cursor_rule(P, r, 'fragments_to_string', 'dst')
    r.require_min(2)

    # ---------------- R01b / R01c
    rb = ctx.rule('R01b', 'every fragment handed to the backends is 16-byte aligned: fresh allocation or is_addr_aligned(., 16) passed',
                  'C01 covers unaligned caller buffers; _mm_xor_si128 through __m128i* faults on them')
    rc = ctx.rule('R01c', 'replacement copy of an unaligned fragment copies header + payload into a buffer of matching size',
                  'a copy short by sizeof(header) zeroes the last 80 payload bytes of every realigned survivor')
    rule_realign(ctx, P, rb, rc)
    rb.require_min(5); rc.require_min(2)
    # ---------------- R01e the "no decode needed" path counts distinct data fragments
    re_ = ctx.rule('R01e', 'fragments_to_string: the data-fragment count that gates the copy-out path is incremented only when an empty slot is filled',
                   'a duplicated fragment counted twice hides a missing one: the fast path then reads the empty slot of the missing fragment')
    fs = P.fn('fragments_to_string')
    Cs = Canon(P, fs)
    from ..cfg import natural_loops as _nl
    # the gate compares the number of counted fragments with k: a counter d that starts at `init` and moves by `step` per counted
    # fragment has counted (d - init) / step of them, so the gate is a comparison of  d - init - step * k  with zero - whether the
    # counter runs from 0 up to k or from k down to 0
    from ..poly import PolyCtx as _PCe, Poly as _Pe
    pce = _PCe(P, fs, Cs)
    Ke = _Pe.atom('arg0')
    gates = []
    for b in fs.order:
        t = b.insts[-1]
        if t.op == 'br' and len(t.targets) == 2 and t.ops:
            c = fs.defs.get(t.ops[0])
            if c is not None and c.op == 'icmp' and not (c.ty or '').endswith('*'):
                D = pce.val(c.ops[0]) - pce.val(c.ops[1])
                phis_ = [a_ for a_ in D.atoms() if a_.startswith('%') and fs.defs.get(a_) is not None and fs.defs[a_].op == 'phi']
                if len(phis_) != 1:
                    continue
                d = fs.defs[phis_[0]]
                # the counter may reach the comparison through merges (after a `break`, behind the `if` that counts): walk the
                # web of merges back to the values that enter it from outside (its start) and the amounts it moves by
                allphi = {x.res: x for x in fs.insts() if x.op == 'phi'}
                web_, todo_ = set(), [d.res]
                inits_, steps_ = [], set()
                while todo_:
                    w_ = todo_.pop()
                    if w_ in web_:
                        continue
                    web_.add(w_)
                    for v_, _l in allphi[w_].incoming:
                        pv_ = pce.val(v_)
                        inner = [a_ for a_ in pv_.atoms() if a_ in allphi]
                        if not inner:
                            inits_.append(pv_)
                        elif len(inner) == 1 and (pv_ - _Pe.atom(inner[0])).is_const():
                            steps_.add((pv_ - _Pe.atom(inner[0])).const_value())
                            todo_.append(inner[0])
                        else:
                            inits_.append(None)
                if not inits_ or any(i_ is None or i_ != inits_[0] for i_ in inits_):
                    continue
                init = inits_[0]
                for step in (1, -1):
                    if not steps_ <= {0, step} or step not in steps_:
                        continue
                    want = _Pe.atom(d.res) - init - Ke * step
                    if (D == want or D == -want) and (d, step) not in [(g_[1], g_[2]) for g_ in gates]:
                        # not the bound of a plain scan over the k slots (`for (j = 0; j < k; j++) if (!data[j]) ...`): that variable
                        # moves on every iteration, it counts nothing
                        from ..loops import loops_of as _lo1e
                        scan = any(d.res in L_.ivs() and c.bb is L_.header for L_ in _lo1e(P, fs, pce))
                        if not scan:
                            gates.append((c, d, step))
    if not gates:
        # no counter: the copy-out may be gated by a scan that finds every one of the k slots filled
        from ..loops import loops_of as _lo1e2
        scans = []
        for L_ in _lo1e2(P, fs, pce):
            hg_ = [g_ for g_ in L_.guards() if g_.block is L_.header]
            if len(hg_) == 1 and L_.count_for(hg_[0])[0] == Ke:
                for b_ in L_.body:
                    t_ = b_.insts[-1]
                    c_ = fs.defs.get(t_.ops[0]) if t_.op == 'br' and t_.ops else None
                    if c_ is not None and c_.op == 'icmp' and 'null' in c_.ops and any(s_ not in L_.body for s_ in b_.succs) and b_ is not L_.header:
                        ld_ = fs.defs.get(strip_ptr_casts(fs, c_.ops[0] if c_.ops[1] == 'null' else c_.ops[1]))
                        if ld_ is not None and ld_.op == 'load':
                            scans.append((L_, c_))
        if scans:
            re_.ok('fragments_to_string: the copy-out is gated by a scan that leaves as soon as one of the k slots is empty (no counter to get wrong)', func=fs.name, loc=scans[0][1].loc)
        else:
            re_.undecided('count gate', loc=fs.mod.src, msg='no comparison of a counter with k found in fragments_to_string')
    for c, cphi, step in gates:
        incs = []
        for i in fs.insts():
            if i.op in ('add', 'sub') and i.res:
                pv = pce.val(i.res)
                if any(pv == _Pe.atom(w_) + _Pe.const(step) for w_ in pv.atoms() if w_.startswith('%') and fs.defs.get(w_) is not None and fs.defs[w_].op == 'phi'):
                    # the moved value flows back into the counter
                    if any(i.res in [v_ for v_, _ in ph.incoming] for ph in fs.insts() if ph.op == 'phi') and \
                       (pv - _Pe.const(step)).atoms() & ({cphi.res} | {v_ for v_, _ in cphi.incoming}):
                        incs.append(i)
        if not incs:
            re_.undecided(f'counter {cphi.res}', loc=c.loc, msg='counter is never moved by one')
        for inc in incs:
            F = Facts(P, fs, inc.bb)
            sts = [i for i in inc.bb.insts if i.op == 'store' and i.ty.endswith('*')]
            ok = any(('eq', '*' + Cs.addr(st.ops[1]), 'null') in F.facts or ('eq', 'null', '*' + Cs.addr(st.ops[1])) in F.facts for st in sts)
            inst = f'fragments_to_string: count at line {inc.line} only under "slot empty", together with filling the slot'
            if ok:
                re_.ok(inst, func=fs.name, loc=inc.loc)
            else:
                re_.fail(inst, func=fs.name, sig='data fragment counted without the empty-slot test', loc=inc.loc,
                         msg='the number of data fragments is incremented for every listed data fragment, not only when its slot was empty: with a duplicate '
                             'and a missing data fragment the count reaches k and the copy-out path dereferences the empty slot')
    re_.require_min(1)

    # ---------------- R01f zero-length objects: the allocation wrappers refuse nothing but negative sizes
    rf_ = ctx.rule('R01f', 'allocation wrappers return NULL only when the underlying allocation failed (or the size is negative): size 0 is served',
                   'an empty object decodes into a 0-byte buffer: a wrapper that refuses size <= 0 turns every empty object into -ENOMEM')
    from ..paths import enumerate_paths as _ep
    ALLOCS = ('@malloc', '@calloc', '@posix_memalign', '@get_aligned_buffer16', '@alloc_zeroed_buffer', '@alloc_and_set_buffer')
    for an in ('get_aligned_buffer16', 'alloc_zeroed_buffer', 'alloc_and_set_buffer', 'alloc_fragment_buffer'):
        af = P.fns.get('@' + an)
        if af is None:
            continue
        bad = None
        np_ = 0
        for pth in _ep(P, af):
            T = [(pr, a, b) for pr, a, b, w, i_ in pth.truths()]
            np_ += 1
            isnull = pth.ret == 'null' or ('eq', pth.ret, 'null') in T
            if not isnull:
                continue
            failed = any(any(a.startswith(x + '(') for x in ALLOCS) and ((pr == 'eq' and b == 'null') or (pr in ('ne', 'sgt', 'slt') and b == '0')) for pr, a, b in T)
            # posix_memalign hands its result out through its first argument: NULL there is the allocator's own answer
            outs = {re.match(r'@posix_memalign\(([^,]+),', a).group(1) for pr, a, b in T if a.startswith('@posix_memalign(')}
            failed = failed or any(pr == 'eq' and b == 'null' and a.startswith('*') and a[1:] in outs for pr, a, b in T)
            negative = any(a == 'arg0' and ((pr == 'slt' and b == '0') or (pr == 'sle' and b == '-1')) for pr, a, b in T)
            if not failed and not negative:
                bad = T
        inst = f'{an}: NULL only after a failed allocation'
        if bad is not None:
            rf_.fail(inst, func=af.name, sig='NULL returned without an allocation failure', loc=af.mod.src,
                     msg=f'{an} returns NULL under {bad[-2:]} - not an allocation failure and not a negative size: a request for 0 bytes (empty object) is refused')
        else:
            rf_.ok(inst, func=af.name, loc=af.mod.src, facts={'paths': np_})
    rf_.require_min(3)

    # ---------------- R01g sizes read from a header: 0 is a size
    rg_ = ctx.rule('R01g', 'prepare_fragments_for_decode refuses header sizes only when they are negative: an empty object (sizes 0) is decoded',
                   'encode accepts a 0-byte object and seals headers with size 0; refusing size 0 on the decode side turns every empty object into a bad-header error')
    from ..oblig import simulate as _sim1
    pf = P.fn('prepare_fragments_for_decode')
    szc = [i for i in pf.insts() if i.op == 'call' and i.callee in ('@get_orig_data_size', '@get_fragment_payload_size') and i.res]
    for c in szc:
        def goes_on(v):
            return any(kind == 'reexec' or (kind == 'ret' and val is not None and val >= 0) or kind == 'limit' for kind, val, tr in _sim1(pf, c, v))
        inst = f'prepare_fragments_for_decode: {c.callee[1:]} == 0 at line {c.line} is accepted'
        if not goes_on(1):
            rg_.undecided(inst, loc=c.loc, msg='no continuing path found for a positive size either')
        elif goes_on(0):
            rg_.ok(inst, func=pf.name, loc=c.loc)
        else:
            rg_.fail(inst, func=pf.name, sig=f'{c.callee[1:]} == 0 refused', loc=c.loc,
                     msg=f'a header whose {c.callee[1:]} is 0 (fragment of an empty object) is refused: every path from this value ends in an error return')
    # ... and for nothing else: a size is compared with zero only (payload sizes exceed the object size whenever encode padded)
    def _size_policy(lf, ops_):
        szs = [e for e in ops_ if '@get_orig_data_size(' in e or '@get_fragment_payload_size(' in e]
        if not szs:
            return None
        other = [e for e in ops_ if e not in szs[:1]]
        if len(szs) == 2 or not other or not INT.match(other[0]) or int(other[0]) not in (0, -1):
            return f'a comparison of {szs[0]} with {other[0] if other else szs[-1]}'
        return None
    shared.rule_refusal_inventory(ctx, P, rg_, ['prepare_fragments_for_decode'], policy=_size_policy,
                                  what='sizes read from a header are refused only when negative; the payload of a fragment is larger than the object whenever the '
                                       'object is shorter than one padded stripe (1-byte objects, k = 1)')
    rg_.require_min(4)

    rk = ctx.rule('R01d', 'coding kernels process every byte of the block (XOR kernel, RS region_xor / region_multiply)',
                  'payload sizes are multiples of 2 or 4 bytes only: a kernel tail for another width leaves the last bytes of parity / rebuilt data stale')
    from .. import cover
    cover.cover_rule(P, rk, 'xor_bufs_and_store', [0], 1, 2)
    cover.cover_rule(P, rk, 'region_xor', [0], 1, 2)
    cover.cover_rule(P, rk, 'region_multiply', [0], 1, 4)
    rk.require_min(3)
    ctx.borrow('c04', ['R04a'], 'w = 16 keeps RS payloads even, so the odd trailing byte branch of region_multiply (8-bit truncation) stays dead')
