"""C12 fragment validation: E10 obligations on the validation predicates, op-table sibling checks, stripe verification."""
import re
from .. import callgraph, oblig, witness
from ..oblig import strip_ext, holds, find_between, const_of
from ..paths import enumerate_paths
from ..vflow import Canon, const_int, strip_int_casts, possible_consts, access_path, fields_in_path
from ..retval import returns_via_edge
from ..cfg import reachable_from
from ..build import AnalysisBroken
from . import shared

EXPLANATION = (
    "Path-obligation checking (every acyclic path of the loop-free predicates is enumerated; atoms are normalised comparisons "
    "over canonical expressions). R12a: every path of liberasurecode_verify_fragment_metadata that returns 'valid' carries an "
    "unsigned 32-bit bound idx < k+m (or a signed one with idx >= 0), backend_id == instance id, and a true result of the "
    "instance's is_compatible_with slot on the fragment's backend_version. R12b: is_invalid_fragment / "
    "is_invalid_fragment_metadata return 'valid' only after instance found, native-order header, version <= LIBERASURECODE_VERSION, "
    "metadata query == 0, metadata verdict == 0 (exact equality), compatibility, chksum_mismatch != 1; every invalid exit "
    "returns the documented non-zero/negative constant. R12c: op tables complete, each is_compatible_with compares with its own "
    "backend's version, ec_backends_supported[i]->id == i. R12d: verify_stripe_metadata returns the first negative verdict at "
    "once and 0 after the loop. NOT decided: behaviour on non-host-order headers beyond C09.")

def is_kpm(e):
    return shared.is_k_plus_m(strip_ext(e))


def rule_validation_pipeline(ctx, P, r):
    g = P.fn('is_invalid_fragment_metadata')
    paths = oblig.split_symbolic_returns(enumerate_paths(P, g))
    valid = [p for p in paths if p.ret == '0']
    for n, p in enumerate(valid):
        T = p.truths()
        def need(name, cond, sig, msg):
            hit = [t for t in T if cond(t)]
            if hit:
                r.ok(f'is_invalid_fragment_metadata valid path #{n}: {name}', loc=hit[0][4].loc, func=g.name)
            else:
                r.fail(f'is_invalid_fragment_metadata valid path #{n}: {name}', func=g.name, sig=sig, loc=g.mod.src, msg=msg)
        need('instance found', lambda t: t[0] == 'ne' and 'get_by_desc' in t[1] + t[2] and 'null' in (t[1], t[2]),
             'instance not tested', 'valid without a found instance')
        vfm = [t for t in T if '@liberasurecode_verify_fragment_metadata(' in t[1] + t[2]]
        inst = f'is_invalid_fragment_metadata valid path #{n}: verify_fragment_metadata(...) == 0'
        if any(t[0] == 'eq' and '0' in (t[1], t[2]) for t in vfm):
            r.ok(inst, loc=vfm[0][4].loc, func=g.name)
        elif vfm:
            r.fail(inst, func=g.name, sig=f'verify_fragment_metadata result tested with {vfm[0][0]}', loc=vfm[0][4].loc,
                   msg=f'the helper reports "invalid" as 1; the test {vfm[0][:3]} lets that through')
        else:
            # the three tests may sit here directly (a shared static helper, inlined by the build step): idx in [0, k+m), equal
            # backend id, compatible backend version - each with the exactness R12a asks of the public helper
            isidx_ = lambda e: bool(re.match(r'^\*arg\d+\.idx$', strip_ext(e)))
            idx_ok = any(pr == 'ult' and isidx_(a) and re.search(r'\.k\b', b) and re.search(r'\.m\b', b) for pr, a, b, w, i in T) or \
                     (any(pr == 'slt' and isidx_(a) and re.search(r'\.k\b', b) and re.search(r'\.m\b', b) for pr, a, b, w, i in T) and
                      any(isidx_(a) and const_of(b) is not None and ((pr == 'sge' and const_of(b) >= 0) or (pr == 'sgt' and const_of(b) >= -1)) for pr, a, b, w, i in T))
            bid_ok = any(pr == 'eq' and ((re.search(r'\.backend_id$', strip_ext(a)) and re.search(r'\.common\.id$', strip_ext(b))) or
                                         (re.search(r'\.backend_id$', strip_ext(b)) and re.search(r'\.common\.id$', strip_ext(a)))) for pr, a, b, w, i in T)
            ver_ok = any(pr == 'ne' and b == '0' and re.search(r'is_compatible_with\)\(\*arg\d+\.backend_version\)$', strip_ext(a)) for pr, a, b, w, i in T)
            if idx_ok and bid_ok and ver_ok:
                r.ok(inst + ' (the index, backend id and version tests are made in place)', loc=g.mod.src, func=g.name)
            else:
                miss = [n_ for n_, ok_ in (('idx < k+m (unsigned, or signed with a lower bound)', idx_ok), ('backend id equal', bid_ok), ('backend version compatible', ver_ok)) if not ok_]
                r.fail(inst, func=g.name, sig='verify_fragment_metadata not consulted', loc=g.mod.src, msg='index/backend checks are skipped: ' + ', '.join(miss))
        need('chksum_mismatch != 1', lambda t: re.match(r'^\*arg\d+\.chksum_mismatch$', strip_ext(t[1])) and
             ((t[0] == 'ne' and t[2] == '1') or (t[0] == 'eq' and t[2] == '0')),
             'chksum_mismatch not tested', 'a fragment with a payload checksum mismatch is accepted')
    for n, p in enumerate([p for p in paths if p.ret != '0']):
        c = const_of(p.ret)
        if c is None or c >= 0:
            r.fail(f'is_invalid_fragment_metadata invalid path #{n}', func=g.name, sig=f'invalid path returns {p.ret}', loc=g.mod.src,
                   msg='an invalid verdict must be a negative constant')
        else:
            r.ok(f'is_invalid_fragment_metadata invalid path #{n} returns {c}', func=g.name, trivial=True)
    h = P.fn('is_invalid_fragment')
    paths = oblig.split_symbolic_returns(enumerate_paths(P, h))
    valid = [p for p in paths if p.ret == '0']
    libver = None
    for n, p in enumerate(valid):
        T = p.truths()
        seq = []
        def pos(cond):
            for i, t in enumerate(T):
                if cond(t):
                    return i
            return None
        checks = [
            ('instance found', lambda t: t[0] == 'ne' and 'get_by_desc' in t[1] + t[2] and 'null' in (t[1], t[2])),
            ('native-order header (get_libec_version == 0)', lambda t: t[0] == 'eq' and (('@get_libec_version(' in t[1] and t[2] == '0') or
                                                                                        (strip_ext(t[1]).endswith('.magic') and const_of(t[2]) == 0x0b0c5ecc))),
            ('version <= LIBERASURECODE_VERSION', lambda t: t[0] in ('ule', 'ult') and (t[1].startswith('*local') or strip_ext(t[1]).endswith('.libec_version'))
                                                            and const_of(t[2]) is not None),
            ('metadata query == 0', lambda t: t[0] == 'eq' and '@liberasurecode_get_fragment_metadata(' in t[1] and t[2] == '0'),
            ('metadata verdict == 0', lambda t: t[0] == 'eq' and '@is_invalid_fragment_metadata(' in t[1] and t[2] == '0'),
        ]
        last = -1
        for name, cond in checks:
            i = pos(cond)
            inst = f'is_invalid_fragment valid path #{n}: {name}'
            if i is None:
                r.fail(inst, func=h.name, sig='missing: ' + name, loc=h.mod.src, msg=f'valid is returned without the test "{name}"')
            elif i < last:
                r.fail(inst, func=h.name, sig='out of order: ' + name, loc=T[i][4].loc, msg=f'"{name}" is evaluated before a test it depends on')
            else:
                r.ok(inst, loc=T[i][4].loc, func=h.name)
                if name.startswith('version'):
                    libver = const_of(T[i][2]) - (1 if T[i][0] == 'ult' else 0)          # v < C + 1 is v <= C
                last = i
    for n, p in enumerate([p for p in paths if p.ret != '0']):
        c = const_of(p.ret)
        if c is None or c == 0:
            r.fail(f'is_invalid_fragment invalid path #{n}', func=h.name, sig=f'invalid path returns {p.ret}', loc=h.mod.src, msg='invalid verdict must be non-zero')
        else:
            r.ok(f'is_invalid_fragment invalid path #{n} returns {c}', func=h.name, trivial=True)
    if libver is not None:
        res = witness.run_witness(ctx.root, ['erasurecode.h', 'erasurecode_version.h'], [('version_constant', f'LIBERASURECODE_VERSION == {libver}')])
        if res['version_constant']:
            r.ok(f'version bound constant {libver} == LIBERASURECODE_VERSION', func=h.name)
        else:
            r.fail('version bound constant', func=h.name, sig=f'version compared with {libver}', loc=h.mod.src, msg='version test does not use LIBERASURECODE_VERSION')

def run(ctx):
    P = ctx.program()
    cg = callgraph.get(P)

    # ---------------- R12a
    r = ctx.rule('R12a', 'verify_fragment_metadata: valid => idx in [0,k+m), backend id equal, backend version compatible',
                 'an index k+m or a foreign backend id must be refused; the suite edits fields without re-sealing so never reaches these tests')
    f = P.fn('liberasurecode_verify_fragment_metadata')
    paths = oblig.split_symbolic_returns(enumerate_paths(P, f))
    valid = [p for p in paths if p.ret == '0']
    invalid = [p for p in paths if p.ret != '0']
    if not valid:
        r.fail('valid path exists', func=f.name, sig='no path returns 0', loc=f.mod.src, msg='the predicate can never accept a fragment')
    isidx = lambda e: bool(re.match(r'^\*arg\d+\.idx$', strip_ext(e)))
    isbid = lambda e: bool(re.match(r'^\*arg\d+\.backend_id$', strip_ext(e)))
    isown = lambda e: bool(re.match(r'^\*arg\d+\.common\.id$', strip_ext(e)))
    for n, p in enumerate(valid):
        T = p.truths()
        # (1) index bound
        cmp_ = find_between(T, isidx, is_kpm)
        lows = [t for t in T if isidx(t[1]) and const_of(t[2]) is not None and t[0] in ('sge', 'sgt')]
        inst = f'valid path #{n}: idx < k+m'
        ok = any(pr == 'ult' and w == 'i32' for pr, a, b, w, i in cmp_)
        ok_signed = any(pr == 'slt' for pr, a, b, w, i in cmp_) and any((pr == 'sge' and const_of(b) >= 0) or (pr == 'sgt' and const_of(b) >= -1) for pr, a, b, w, i in lows)
        loc = (cmp_[0][4].loc if cmp_ else f.mod.src)
        if ok or ok_signed:
            r.ok(inst, loc=loc, func=f.name, facts={'atoms': [str(x[:4]) for x in cmp_]})
        elif cmp_:
            pr = cmp_[0][0]
            why = {'ule': 'idx <= k+m accepts k+m', 'slt': 'signed comparison accepts idx >= 2^31 (no lower bound)',
                   'sle': 'signed and non-strict'}.get(pr, f'comparison {pr} is weaker than idx < k+m')
            r.fail(inst, func=f.name, sig=f'idx bound {pr}.{cmp_[0][3]}', loc=loc, msg=f'index check too weak: {why}')
        else:
            other = [t for t in T if isidx(t[1]) or isidx(t[2])]
            if other:
                r.undecided(inst, loc=other[0][4].loc, msg=f'index compared in an unrecognised form: {other[0][:4]}')
            else:
                r.fail(inst, func=f.name, sig='idx never compared with k+m', loc=f.mod.src, msg='a fragment is accepted without any index range check')
        # (2) backend id
        inst = f'valid path #{n}: backend_id == instance id'
        c2 = find_between(T, isbid, isown)
        if any(pr == 'eq' for pr, *_ in c2):
            r.ok(inst, loc=c2[0][4].loc, func=f.name)
        else:
            r.fail(inst, func=f.name, sig='backend id not compared' if not c2 else f'backend id compared with {c2[0][0]}',
                   loc=(c2[0][4].loc if c2 else f.mod.src), msg='a fragment of a different backend is accepted')
        # (3) compatibility via the instance's own slot
        inst = f'valid path #{n}: is_compatible_with(backend_version) is true'
        c3 = [t for t in T if re.match(r'^\(\*\*arg\d+\.common\.ops\.is_compatible_with\)\(\*arg\d+\.backend_version\)$', strip_ext(t[1])) and t[0] == 'ne' and t[2] == '0']
        if c3:
            r.ok(inst, loc=c3[0][4].loc, func=f.name)
        else:
            r.fail(inst, func=f.name, sig='backend version compatibility not required', loc=f.mod.src,
                   msg='valid is returned without a true result of ops->is_compatible_with(md->backend_version)')
    for n, p in enumerate(invalid):
        c = const_of(p.ret)
        if c is None or c == 0:
            r.fail(f'invalid path #{n} returns non-zero', func=f.name, sig=f'invalid path returns {p.ret}', loc=f.mod.src, msg='an invalid verdict is not a non-zero constant')
        else:
            r.ok(f'invalid path #{n} returns {c}', func=f.name, trivial=True)
    r.require_min(4)

    # ---------------- R12b
    r = ctx.rule('R12b', 'is_invalid_fragment(_metadata): valid only after every check passed with exact tests',
                 'each dropped or weakened test admits a class of foreign/damaged fragments')
    rule_validation_pipeline(ctx, P, r)
    r.require_min(12)

    # ---------------- R12c op tables
    r = ctx.rule('R12c', 'op tables complete; is_compatible_with compares with its own backend version; ec_backends_supported[i]->id == i',
                 'a copy-pasted compatibility function validates another backend\'s fragments')
    shared.rule_op_tables(ctx, P, r)
    r.require_min(20)

    # ---------------- R12d stripe verification
    r = ctx.rule('R12d', 'verify_stripe_metadata returns the first negative verdict immediately and 0 after the loop',
                 'a later good fragment must not mask an earlier bad one')
    s = P.fn('liberasurecode_verify_stripe_metadata')
    calls = [i for i in s.insts() if i.op == 'call' and i.callee == '@is_invalid_fragment_metadata']
    if not calls:
        raise AnalysisBroken('anchor vanished: verify_stripe_metadata does not call is_invalid_fragment_metadata')
    for c in calls:
        reps = oblig.representative_values(s, c.res)
        ctx.extra['R12d_representative_verdicts'] = reps
        for v in reps:
            if v > 0:
                continue
            outs = oblig.simulate(s, c, v)
            inst = f'verdict {v}: ' + ('returned at once' if v < 0 else 'scan continues, 0 after the loop')
            bad = None
            for kind, val, trail in outs:
                if v < 0:
                    if kind == 'reexec':
                        bad = ('scan continues after a negative verdict', 'after a negative verdict the loop goes on; a later fragment overwrites it')
                    elif kind == 'ret' and (val is None or val >= 0):
                        bad = (f'negative verdict returns {val}', f'a path after verdict {v} returns {val}')
                    elif kind == 'limit':
                        bad = None; r.undecided(inst, loc=c.loc, msg='simulation limit'); break
                else:
                    # (a path that goes on to another validation call - the loop behind a peeled first iteration - is the scan
                    # continuing: what is returned after that call is that call's own instance of this rule)
                    others = {c2.bb.label for c2 in calls if c2 is not c}
                    if kind == 'ret' and val is None and any(lb in others for lb in trail[1:]):
                        continue
                    if kind == 'ret' and val != 0:
                        bad = (f'success returns {val}', f'with every verdict 0 the function may return {val}')
            if bad:
                r.fail(inst, func=s.name, sig=bad[0], loc=c.loc, msg=bad[1], facts={'verdict': v})
            else:
                r.ok(inst, func=s.name, loc=c.loc, facts={'outcomes': sorted({(k, vv) for k, vv, _ in outs}, key=str)})
    # every supplied fragment is looked at: the calls together run num_fragments times (one loop, or a loop behind peeled calls)
    from ..poly import Poly as _P12
    tot12 = shared.total_iterations(P, s, [c_ for c_ in calls if shared._loop_of(s, c_.bb) is not None])
    peeled12 = sum(1 for c_ in calls if shared._loop_of(s, c_.bb) is None)
    want12 = _P12.atom('arg2')
    inst = 'verify_stripe_metadata judges all num_fragments supplied fragments'
    if tot12 is not None and tot12 + _P12.const(peeled12) == want12:
        r.ok(inst, func=s.name, loc=calls[0].loc)
    else:
        r.fail(inst, func=s.name, sig=f'stripe verification covers {tot12} + {peeled12} fragments', loc=calls[0].loc,
               msg=f'the validation calls run {tot12} (+ {peeled12} in front of the loop) times, not num_fragments: fragments behind that count are never judged and a bad one among them is accepted')
    r.require_min(3)
    # ---------------- R12e the backend decides which versions it accepts
    r = ctx.rule('R12e', 'the backend_version of fragment metadata is judged only by the backend\'s is_compatible_with operation',
                 'a direct comparison with the instance\'s own version rejects fragments of backends that accept several versions (e.g. the null backend)')
    em = P.mod('src/erasurecode.c')
    compat = set(cg.slot_functions('is_compatible_with').values())
    nver = 0
    for fn in em.functions.values():
        for ld in fn.insts():
            if ld.op != 'load':
                continue
            root, steps = access_path(P, fn, ld.ops[0])
            fl = fields_in_path(steps)
            if not fl or fl[-1] != ('fragment_metadata', 'backend_version'):
                continue
            vals = {ld.res}
            for i2 in fn.insts():
                if i2.op in ('zext', 'sext', 'trunc', 'bitcast') and i2.ops[0] in vals:
                    vals.add(i2.res)
            for u in fn.insts():
                ops = u.ops if u.op != 'phi' else [v for v, _ in u.incoming]
                if not any(o in vals for o in ops) or u.res in vals:
                    continue
                nver += 1
                inst = f'{fn.name}: use of metadata backend_version at line {u.line}'
                if u.op == 'call' and set(cg.callees(fn, u)) & compat:
                    r.ok(inst + ': handed to ops->is_compatible_with', func=fn.name, loc=u.loc)
                elif u.op == 'call' and 'bswap' in u.callee:
                    r.ok(inst + ': byte order conversion', func=fn.name, loc=u.loc, trivial=True)
                elif u.op == 'store' or (u.op == 'call' and u.callee in ('@syslog', '@printf', '@fprintf')):
                    r.ok(inst + ': copied / logged', func=fn.name, loc=u.loc, trivial=True)
                else:
                    r.fail(inst, func=fn.name, sig=f'backend_version consumed by {u.op}', loc=u.loc,
                           msg=f'{fn.name} judges the fragment\'s backend_version itself ({u.op} at line {u.line}) instead of asking ops->is_compatible_with: '
                               'backends that accept more than their own version are overruled')
    r.require_min(2)

    ctx.borrow('c09', ['R09d'], 'helper getters accept only native-order headers: that is what rejects opposite-endian fragments')
    ctx.borrow('c10', ['R10e'], 'a rebuilt fragment validates only if its checksum is taken after the backend wrote the payload')
    ctx.borrow('c09', ['R09b'], 'header acceptance obligations (version gate, checksum test)')
