"""C16 no leak / double free / use after free: per-function ownership typestate plus the cleanup protocols."""
import re
from .. import own, callgraph, oblig, chains
from ..vflow import Canon, strip_int_casts, strip_ptr_casts, derived_pointers, access_path, fields_in_path
from ..guards import Facts
from ..cfg import reachable_from, reaches_without, postdominators, dominates, natural_loops
from ..build import AnalysisBroken
from ..ir import INT
from . import shared

EXPLANATION = (
    "R16a: ownership typestate (owned / null / escaped / freed, refined on null tests and on posix_memalign's result) for every "
    "allocation site of the front end, the built-in codes and the in-scope adapters: no path returns with an owned object, "
    "frees twice or uses after free; summaries returns-owned / frees(param) / captures(param) are computed over the "
    "slot-resolved call graph. R16b: realloc_bm protocol - every fresh buffer stored into data[i] / parity[i] is followed by "
    "setting bit i / k+i of *realloc_bm, and decode/reconstruct free exactly the flagged entries for i<k and i<m on every exit "
    "after prepare_fragments_for_decode. R16c: encode_cleanup frees k data and m parity elements and both arrays. R16d: per "
    "backend, the descriptor fields given an owned value in init are the ones exit frees, plus the descriptor. R16e: single "
    "owner on failure - a callee that frees a parameter on its error path is not followed by a second free of the same object "
    "on the caller's error path. NOT decided: statements over call histories (dangling pointers kept by the caller), heap "
    "state; paths that exist only because malloc returned NULL are analysed like any other (a NULL result owns nothing).")

SCOPE_EXCL = re.compile(r'jerasure|shss|phazrio|alg_sig')

def run_r16a(ctx, P, r, only_fn=None, every_backend=False):
    O = own.get(P)
    n = 0
    for name, fn in sorted(P.fns.items()):
        if (SCOPE_EXCL.search(fn.mod.src) and not every_backend) or (only_fn and name not in only_fn):
            continue
        for site, kind, slot in O.alloc_roots(fn):
            n += 1
            reps = O.analyse_site(fn, site, kind, slot)
            inst = f'{name}: {site.callee if site.callee.startswith("@") else "backend op"} at line {site.line}'
            if not reps:
                r.ok(inst, func=name, loc=site.loc)
                continue
            seen = set()
            for kind_, s, at, detail in reps:
                if (kind_, at.line) in seen:
                    continue
                seen.add((kind_, at.line))
                what = {'leak': 'is still owned when the function returns', 'double-free': f'is freed again by {detail}',
                        'use-after-free': f'is used after being freed ({detail})',
                        'error-with-output': f'is handed to the caller through an output parameter on a path that returns the error {detail}: '
                                             'callers release outputs only after success'}[kind_]
                r.fail(inst, func=name, sig=f'{kind_}: object of {site.callee} line-independent via {at.op} {detail}'.strip(),
                       loc=at.loc, msg=f'the object allocated at line {site.line} ({site.callee}) {what} (reached at line {at.line})')
    return n

SWAPP = {'slt': 'sgt', 'sgt': 'slt', 'sle': 'sge', 'sge': 'sle', 'ult': 'ugt', 'ugt': 'ult', 'ule': 'uge', 'uge': 'ule'}
NEGP = {'slt': 'sge', 'sge': 'slt', 'sgt': 'sle', 'sle': 'sgt', 'ult': 'uge', 'uge': 'ult', 'ugt': 'ule', 'ule': 'ugt'}

def shift_amount_of(fn, C, v):
    """value v = (... | (1 << X)) or (... & (1 << X)): canonical X"""
    st = [v]
    seen = set()
    while st:
        x = strip_int_casts(fn, st.pop())
        if x in seen:
            continue
        seen.add(x)
        d = fn.defs.get(x)
        if d is None:
            continue
        if d.op == 'shl' and d.ops[0] == '1':
            return C.val(strip_int_casts(fn, d.ops[1]))
        if d.op in ('or', 'and', 'sext', 'zext', 'trunc'):
            st += [o for o in d.ops]
    return None

def shift_amount_ssa(fn, v):
    """value v = (... | (1 << X)) or (... & (1 << X)): the SSA operand X"""
    st, seen = [v], set()
    while st:
        x = strip_int_casts(fn, st.pop())
        if x in seen:
            continue
        seen.add(x)
        d = fn.defs.get(x)
        if d is None:
            continue
        if d.op == 'shl' and d.ops[0] == '1':
            return d.ops[1]
        if d.op in ('or', 'and', 'sext', 'zext', 'trunc'):
            st += [o for o in d.ops]
    return None

def pdiv(p, n):
    from ..poly import Poly
    if any(v % n for v in p.values()):
        return None
    return Poly({k: v // n for k, v in p.items()})

def run(ctx):
    P = ctx.program()
    O = own.get(P)
    cg = callgraph.get(P)
    r = ctx.rule('R16a', 'ownership typestate: no leak, double free or use after free on any path of any function in scope',
                 'the suite runs without a leak detector and takes each error exit at most once')
    n = run_r16a(ctx, P, r)
    ctx.extra['allocation_sites'] = n
    ctx.extra['returns_owned'] = sorted(x for x in O.returns_owned if x not in own.BASE_ALLOC and not SCOPE_EXCL.search(P.fns[x].mod.src if x in P.fns else ''))
    r.require_min(60, 'allocation sites')

    # ---------------- R16b
    r = ctx.rule('R16b', 'realloc_bm protocol: fresh buffers are flagged with the right bit; exactly the flagged entries are freed on every exit',
                 'a wrong bit leaks the library\'s copy and frees a buffer the caller owns')
    f = P.fn('prepare_fragments_for_decode')
    C = Canon(P, f)
    arrs = [p[1] for p in f.params if p[0] == 'i8**'][:2]
    bmp = [p[1] for p in f.params if p[0] == 'i64*']
    if len(arrs) != 2 or not bmp:
        raise AnalysisBroken('anchor vanished: prepare_fragments_for_decode signature')
    bm = bmp[-1]
    Ab, _ = derived_pointers(f, [bm])
    from ..poly import PolyCtx as _PCb, Poly as _Pb
    pcb0 = _PCb(P, f, C)
    Kp = pcb0.val(f.params[0][1])
    def slot_alternatives(ptr):
        """the element pointer a buffer is stored through may be chosen between the arrays (`is_parity ? &parity[i-k] : &data[i]`):
        one (choice, root, offset) per alternative"""
        pts, st, seen = [], [ptr], set()
        while st:
            x = st.pop()
            if x in seen:
                continue
            seen.add(x)
            d_ = f.defs.get(x)
            if d_ is None:
                continue
            if d_.op in ('bitcast', 'getelementptr'):
                st.append(d_.ops[0])
            elif d_.op == 'select' or (d_.op == 'phi' and shared._loop_of(f, d_.bb) is None or d_.op == 'phi' and d_.bb is not shared._loop_of(f, d_.bb)[0]):
                pts.append(d_)
                st += (d_.ops[1:] if d_.op == 'select' else [v for v, _ in d_.incoming])
        import itertools as _it
        alts = [[(d_.res, v) for v in (d_.ops[1:] if d_.op == 'select' else [v for v, _ in d_.incoming])] for d_ in pts]
        out = []
        for combo in (_it.product(*alts) if alts else [()]):
            pc_ = _PCb(P, f, C, choice=dict(combo))
            root, off = pc_.ptr(ptr)
            out.append((dict(combo), pc_, root, off))
        return out[:16]
    roots_of = {role: pcb0.ptr(arr)[0] for arr, role in zip(arrs, ('data', 'parity'))}
    for arr, role in zip(arrs, ('data', 'parity')):
        A, _ = derived_pointers(f, [arr])
        def fresh16(v, depth=0):
            d_ = f.defs.get(strip_ptr_casts(f, v))
            if d_ is None or depth > 4:
                return False
            if d_.op == 'call':
                return d_.callee in O.returns_owned
            if d_.op == 'phi':
                return all(fresh16(x_, depth + 1) for x_, _ in d_.incoming)
            return False
        if not any(s.op == 'store' and s.ops[1] in A and fresh16(s.ops[0]) for s in f.insts()):
            r.undecided(f'prepare_fragments_for_decode: fresh {role}[] buffers', loc=f.mod.src, msg=f'no store of a fresh allocation into {role}[] was recognised (anchor lost)')
        for s in f.insts():
            if s.op != 'store' or s.ops[1] not in A:
                continue
            if not fresh16(s.ops[0]):
                continue
            mine = [(ch, pc_, off) for ch, pc_, root, off in slot_alternatives(s.ops[1]) if root == roots_of[role]]
            if not mine:
                continue
            loop = shared._loop_of(f, s.bb)
            if loop is None:
                r.undecided(f'prepare_fragments_for_decode: store at line {s.line}', loc=s.loc, msg='fresh buffer stored outside a loop over the fragments')
                continue
            for ch, pc_, off in mine:
                idx = _PCb.div(off, 8)
                want = idx if role == 'data' else idx + Kp
                def flag_amount(i):
                    x = shift_amount_ssa(f, i.ops[0]) if i.op == 'store' and i.ops[1] in Ab else None
                    return pc_.val(strip_int_casts(f, x)) if x is not None else None
                # the flag store must be passed before the loop goes on / the function returns successfully
                from ..loops import loops_of as _lo16b, innermost as _in16b, same_at_every_iteration as _same16b
                Lb = _in16b(_lo16b(P, f, pc_), s.bb)
                def is_flag(i):
                    fa = flag_amount(i)
                    return fa is not None and (fa == want or _same16b(Lb, fa, want))
                def is_wrong_flag(i):
                    return i.op == 'store' and i.ops[1] in Ab and not is_flag(i)
                # "leaving the iteration" = getting back to the loop header; error returns after a failed allocation do not pass it
                esc = reaches_without(f, s.bb, lambda i: i.bb is loop[0] and i.idx == 0, is_flag, s.idx + 1)
                wrong = reaches_without(f, s.bb, is_wrong_flag, is_flag, s.idx + 1)
                inst = f'prepare_fragments_for_decode: fresh {role}[i] at line {s.line} sets bit {"i" if role == "data" else "k+i"}'
                if esc is None and wrong is None:
                    r.ok(inst, func=f.name, loc=s.loc)
                elif wrong is not None:
                    r.fail(inst, func=f.name, sig=f'{role} buffer flagged with bit {shift_amount_of(f, C, wrong.ops[0])}', loc=wrong.loc,
                           msg=f'the library-allocated {role}[i] (i = {idx}) is recorded in realloc_bm with bit {flag_amount(wrong)} instead of {want}: '
                               'the copy leaks and another (caller-owned) fragment is freed')
                else:
                    r.fail(inst, func=f.name, sig=f'{role} buffer not flagged', loc=s.loc, msg=f'a path leaves the iteration without recording the new {role}[i] in realloc_bm: it is never freed')
    for en in ('liberasurecode_decode', 'liberasurecode_reconstruct_fragment'):
        g = P.fn(en)
        Cg = Canon(P, g)
        prep = [i for i in g.insts() if i.op == 'call' and i.callee == '@prepare_fragments_for_decode']
        if not prep:
            raise AnalysisBroken(f'anchor vanished: {en} does not call prepare_fragments_for_decode')
        pc0 = prep[0]
        arr_vals = {}
        for v, role in ((strip_ptr_casts(g, pc0.ops[2]), 'data'), (strip_ptr_casts(g, pc0.ops[3]), 'parity')):
            Aa, _ = own.aliases(g, [v])
            for x in Aa:
                arr_vals[x] = role
        kv = Cg.val(strip_int_casts(g, pc0.ops[0]))
        k_ssa, m_ssa = strip_int_casts(g, pc0.ops[0]), strip_int_casts(g, pc0.ops[1])
        mv = Cg.val(m_ssa)
        def phi_may_be(name, target, depth=0):
            d = g.defs.get(name)
            if name == target:
                return True
            if d is None or d.op != 'phi' or depth > 4:
                return False
            return any(phi_may_be(strip_int_casts(g, v), target, depth + 1) for v, _ in d.incoming)
        def norm_km(e):
            def rep(mm):
                nm = mm.group(1)
                if phi_may_be(nm, k_ssa):
                    return kv
                if phi_may_be(nm, m_ssa):
                    return mv
                return mm.group(0)
            return re.sub(r'phi(%[\w.]+)', rep, e) if e else e
        from ..poly import PolyCtx, Poly
        from ..loops import loops_of, innermost, affine_in_t
        pc = PolyCtx(P, g, Cg)
        LS = loops_of(P, g, pc)
        roots = {}
        for x, role in arr_vals.items():
            roots[pc.ptr(x)[0]] = role
        def normp(p):
            def ren(a):
                if a.startswith('%'):
                    if phi_may_be(a, k_ssa): return kv
                    if phi_may_be(a, m_ssa): return mv
                return a
            return p.rename(ren)
        K, M = normp(pc.val(k_ssa)), normp(pc.val(m_ssa))
        frees = []
        for i in g.insts():
            if i.op == 'call' and i.callee == '@free':
                d = g.defs.get(strip_ptr_casts(g, i.ops[0]))
                if d is None or d.op != 'load':
                    continue
                LL = innermost(LS, i.bb)
                pt = pc.ptr(d.ops[0])
                if LL is not None:
                    pt = LL.ptr_at_iteration(*pt) or pt
                if pt[0] in roots:
                    frees.append((i, roots[pt[0]], pt[1], LL))
        roles = {ro for _, ro, _, _ in frees}
        for need in ('data', 'parity'):
            if need not in roles:
                r.fail(f'{en}: flagged {need}[] entries are freed', func=g.name, sig=f'no free of {need}[i]', loc=pc0.loc,
                       msg=f'{en} never frees the {need} buffers allocated by prepare_fragments_for_decode')
        for i, role, off, LL in frees:
            inst = f'{en}: free({role}[i]) under bit {"i" if role == "data" else "k+i"}, i < {"k" if role == "data" else "m"}'
            if LL is None:
                r.fail(inst, func=g.name, sig=f'{role}[] freed outside a loop', loc=i.loc, msg=f'{role}[...] is freed outside a loop over the fragments')
                continue
            F = Facts(P, g, i.bb)
            idx = pdiv(off, 8)
            ab = affine_in_t(normp(idx)) if idx is not None else None
            # guard: (realloc_bm & (1 << X)) != 0 with X(t) - index(t) == 0 (data) or k (parity)
            ok, found = False, None
            for raw, truth in F.raw:
                if raw.op == 'icmp' and truth == (raw.pred == 'ne') and '0' in raw.ops:
                    o = raw.ops[0] if raw.ops[1] == '0' else raw.ops[1]
                    X = shift_amount_ssa(g, o)
                    if X is None or ab is None:
                        continue
                    bit = LL.at_iteration(pc.val(X))
                    if bit is None:
                        continue
                    bit = normp(bit)
                    found = str(bit)
                    diff = bit - normp(idx)
                    if (role == 'data' and diff.is_zero()) or (role == 'parity' and diff == K):
                        ok = True
            # range: index 0 .. bound-1, one entry per iteration
            wantb = K if role == 'data' else M
            rng = None
            if ab is not None and ab[1] == Poly.const(1):
                for gd in LL.guards():
                    tr = LL.trip(gd)
                    if gd.block is not LL.header or tr is None:
                        continue
                    # iterations that reach this free: t in [lo, hi) - the loop's own range, narrowed by the tests on the loop
                    # counter that dominate the free (`i < k` / `i >= k` in a loop over all k+m slots); the freed indexes a + t
                    # must be exactly 0 .. bound-1
                    los, his = [Poly()], [normp(tr)]
                    rec = LL.ivs().get(gd.iv)
                    init0 = rec[0] if rec is not None and rec[0] is not None else None
                    if init0 is not None and rec[1] == Poly.const(1):
                        for raw, truth in F.raw:
                            if raw.op != 'icmp' or raw.bb not in LL.body:
                                continue
                            for x_, y_, pr_ in ((raw.ops[0], raw.ops[1], raw.pred), (raw.ops[1], raw.ops[0], SWAPP.get(raw.pred))):
                                if pr_ is None or strip_int_casts(g, x_) != gd.iv:
                                    continue
                                pr2 = pr_ if truth else NEGP.get(pr_)
                                bound_ = normp(pc.val(y_)) - normp(init0)        # in iteration numbers
                                if pr2 in ('slt', 'ult'):
                                    his.append(bound_)
                                elif pr2 in ('sge', 'uge'):
                                    los.append(bound_)
                    # several bounds may dominate (the loop's own and a narrower test): the narrowest is not decidable symbolically,
                    # so a dominating pair is accepted when it makes the freed range exactly 0 .. bound-1 and every other bound is visibly no tighter
                    def nonneg(p_):
                        return all(v_ >= 0 for v_ in p_.values())        # k, m and counts are non-negative quantities
                    for lo in los:
                        for hi in his:
                            if (normp(ab[0]) + lo).is_zero() and (normp(ab[0]) + hi) == wantb and \
                               all(nonneg(lo - l2) for l2 in los) and all(nonneg(h2 - hi) for h2 in his):
                                rng = gd
            if ok and rng is not None:
                # every exit after prepare passes the loop header, or the edge on which realloc_bm == 0 (nothing flagged)
                zero_edges = set()
                for bb in g.order:
                    tt = bb.insts[-1]
                    if tt.op == 'br' and len(tt.targets) == 2 and tt.ops:
                        cc = g.defs.get(tt.ops[0])
                        if cc is not None and cc.op == 'icmp' and cc.pred in ('ne', 'eq') and '0' in cc.ops:
                            o = cc.ops[0] if cc.ops[1] == '0' else cc.ops[1]
                            od = g.defs.get(o)
                            if od is not None and od.op == 'load' and strip_ptr_casts(g, od.ops[0]) == strip_ptr_casts(g, pc0.ops[-1]):
                                zero_edges.add((bb, g.blocks[tt.targets[1] if cc.pred == 'ne' else tt.targets[0]]))
                R = reachable_from(pc0.bb, avoid_edges=zero_edges, avoid_blocks={LL.header})
                if not any(bb.insts[-1].op == 'ret' for bb in R):
                    r.ok(inst, func=g.name, loc=i.loc)
                else:
                    r.fail(inst, func=g.name, sig=f'free loop for {role} can be skipped', loc=i.loc, msg=f'an exit after prepare_fragments_for_decode bypasses the loop that frees flagged {role} buffers')
            else:
                trips = [str(normp(LL.trip(gd))) for gd in LL.guards() if LL.trip(gd) is not None]
                r.fail(inst, func=g.name, sig=f'free of {role}[i] guarded by bit {found}, index {idx}, iterations {trips}', loc=i.loc,
                       msg=f'{role}[{normp(idx) if idx is not None else "?"}] is freed under bit {found} over {trips} iterations: must be bit '
                           f'{"index" if role == "data" else "index + k"} for index 0 .. {wantb}-1')
    r.require_min(6)

    # ---------------- R16i payload views are not owners
    r = ctx.rule('R16i', 'the payload pointer arrays built by get_data_ptr_array_from_fragments are views: none of their entries is ever handed to a deallocator',
                 'they point into fragments owned by the caller or tracked by realloc_bm: releasing one through the view frees a buffer that the exit path (or the caller) frees again')
    nv = 0
    for fname in ('liberasurecode_decode', 'liberasurecode_reconstruct_fragment'):
        vf = P.fn(fname)
        views = {strip_ptr_casts(vf, c_.ops[0]) for c_ in vf.insts() if c_.op == 'call' and c_.callee == '@get_data_ptr_array_from_fragments'}
        if not views:
            raise AnalysisBroken(f'anchor vanished: {fname} builds no payload pointer arrays')
        Av, _ = derived_pointers(vf, sorted(views))
        # pointers into the view arrays may be chosen between them (`is_data ? &data_segments[i] : &parity_segments[i - k]`)
        grew = True
        while grew:
            grew = False
            for i in vf.insts():
                if i.res and i.res not in Av and i.op in ('select', 'phi', 'getelementptr', 'bitcast'):
                    ops_ = i.ops[1:] if i.op == 'select' else ([v for v, _ in i.incoming] if i.op == 'phi' else i.ops[:1])
                    if any(o in Av for o in ops_):
                        Av.add(i.res); grew = True
        elems = {i.res for i in vf.insts() if i.op == 'load' and i.ops[0] in Av and i.ty == 'i8*'}
        Ev, _ = derived_pointers(vf, sorted(elems)) if elems else (set(), None)
        nv += len(views)
        bad = None
        for c_ in vf.insts():
            if c_.op != 'call' or not c_.callee:
                continue
            frees = c_.callee in ('@free', '@free_fragment_buffer', '@check_and_free_buffer', '@realloc')
            if frees and any(isinstance(o, str) and strip_ptr_casts(vf, o) in Ev | elems for o in c_.ops):
                bad = c_
                break
        inst = f'{fname}: entries of the {len(views)} payload pointer arrays are never released'
        if bad is None:
            r.ok(inst, func=vf.name, loc=vf.mod.src)
        else:
            r.fail(inst, func=vf.name, sig=f'{bad.callee[1:]} on an entry of a payload pointer array', loc=bad.loc,
                   msg=f'{fname} hands an entry of a payload pointer array to {bad.callee[1:]} (line {bad.line}): the fragment it points into is owned by the caller or '
                       'released under its realloc_bm bit on the way out - it is freed twice')
    r.require_min(2)

    # ---------------- R16c
    r = ctx.rule('R16c', 'encode_cleanup frees k data and m parity fragments and both arrays; decode_cleanup frees its argument',
                 'the cleanup calls must release everything the corresponding call returned, for every shape')
    g = P.fn('liberasurecode_encode_cleanup')
    Cg = Canon(P, g)
    for pi, role, fld in ((1, 'data', 'k'), (2, 'parity', 'm')):
        A, _ = derived_pointers(g, [g.params[pi][1]])
        elem = arr = None
        for i in g.insts():
            if i.op == 'call' and i.callee == '@free':
                a = strip_ptr_casts(g, i.ops[0])
                d = g.defs.get(a)
                if a in A and (d is None or d.op != 'load'):
                    arr = i
                elif d is not None and d.op == 'load' and d.ops[0] in A:
                    elem = (i, d)
        inst = f'encode_cleanup: {role} elements (i < {fld}) and the array are freed'
        if elem is None or arr is None:
            r.fail(inst, func=g.name, sig=f'{role}: ' + ('elements' if elem is None else 'array') + ' not freed', loc=g.mod.src,
                   msg=f'encode_cleanup does not free the {role} ' + ('fragments' if elem is None else 'pointer array'))
            continue
        i, d = elem
        # the freed elements are array[t] for t = 0 .. count-1 where count is the instance's k (data) / m (parity): the loop itself must
        # run that many times - a guard `i < m` inside a loop that runs k times frees only min(k, m) of them
        from ..poly import PolyCtx as _PC16, Poly as _Po16
        from ..loops import loops_of as _lo16, innermost as _in16, affine_in_t as _af16
        pcc = _PC16(P, g, Cg)
        Lc = _in16(_lo16(P, g, pcc), i.bb)
        okc, seen_tr = False, []
        if Lc is not None:
            pt = Lc.ptr_at_iteration(*pcc.ptr(d.ops[0]))
            ab = _af16(pt[1]) if pt is not None else None
            T_, rot_ = Lc.runs()
            seen_tr.append(str(T_))
            if T_ is not None and rot_ and (Lc.entry_lower_bound(T_) or 0) < 1:
                seen_tr.append('at least once, whatever the count')
                T_ = None
            # the freed elements are array[a/8 + (b/8)*t] for t in [0, T): going up from 0, or down from T-1
            if T_ is not None and len(T_) == 1 and list(T_.values()) == [1] and re.search(r'\.uargs\.%s$' % fld, list(T_)[0][0]) and ab is not None and \
               ((ab[0].is_zero() and ab[1] == _Po16.const(8)) or (ab[1] == _Po16.const(-8) and (ab[0] - (T_ - _Po16.const(1)) * 8).is_zero())):
                okc = True
        if okc:
            r.ok(inst, func=g.name, loc=i.loc)
        else:
            r.fail(inst, func=g.name, sig=f'{role} loop runs {seen_tr}', loc=i.loc, msg=f'the loop that frees the {role} fragments runs {seen_tr} times, expected exactly {fld} iterations over {role}[0 .. {fld}-1]')
    dcl = P.fn('liberasurecode_decode_cleanup')
    if any(i.op == 'call' and i.callee == '@free' and strip_ptr_casts(dcl, i.ops[0]) == dcl.params[1][1] for i in dcl.insts()):
        r.ok('decode_cleanup frees the decoded buffer', func=dcl.name, loc=dcl.mod.src)
    else:
        r.fail('decode_cleanup', func=dcl.name, sig='argument not freed', loc=dcl.mod.src, msg='decode_cleanup does not free the buffer decode returned')
    r.require_min(3)

    # ---------------- R16d
    r = ctx.rule('R16d', 'backend exit releases what init acquired (owned descriptor fields + the descriptor)',
                 'an exit that forgets a field leaks it on every destroy')
    shared.rule_exit_mirrors_init(ctx, P, r)
    r.require_min(5)

    # ---------------- R16h fields of a freshly malloc'ed descriptor are written before they are read
    r = ctx.rule('R16h', 'backend init: a member of the malloc\'ed descriptor is read (freed, called, compared) only after it was stored on that path',
                 'an error exit that frees desc->member before the member was ever assigned frees an indeterminate pointer (a stale one when the chunk is recycled)')
    inits16 = set(cg.slot_functions('init').values()) | {'@isa_l_common_init'}
    n16 = 0
    for iname in sorted(inits16):
        fi = P.fns.get(iname)
        if fi is None or re.search(r'jerasure|shss|phazrio', fi.mod.src):
            continue
        for al in [i for i in fi.insts() if i.op == 'call' and i.callee == '@malloc' and i.res]:
            A16, _ = derived_pointers(fi, [al.res])
            cleared = [i for i in fi.insts() if i.op == 'call' and (i.callee or '').startswith('@llvm.memset') and strip_ptr_casts(fi, i.ops[0]) in (al.res,) ]
            def fld(ptr):
                root, steps = access_path(P, fi, ptr)
                fl = fields_in_path(steps)
                return tuple(fl) if fl and strip_ptr_casts(fi, root) in A16 | {al.res} or (fl and root in A16) else None
            for ld in [i for i in fi.insts() if i.op == 'load' and i.ops[0] in A16]:
                fp = fld(ld.ops[0])
                if not fp:
                    continue
                n16 += 1
                def writes(i_, fp=fp):
                    if i_.op == 'store' and i_.ops[1] in A16 and fld(i_.ops[1]) == fp:
                        return True
                    # a write at a computed offset into the object (table-driven member assignment) may be this member
                    dst_ = i_.ops[1] if i_.op == 'store' else (i_.ops[0] if i_.op == 'call' and (i_.callee or '').startswith('@llvm.memcpy') else None)
                    if dst_ is not None and dst_ in A16:
                        gd_ = fi.defs.get(strip_ptr_casts(fi, dst_))
                        if gd_ is not None and gd_.op == 'getelementptr' and gd_.gep_base_ty == 'i8' and not INT.match(gd_.ops[-1]):
                            return True
                    return any(i_ is c_ for c_ in cleared)
                esc = reaches_without(fi, al.bb, lambda i_: i_ is ld, writes, al.idx + 1)
                if esc is not None:
                    # a loop with a constant, positive trip count that lies before the read runs its body at least once: a write in a
                    # block every iteration passes has happened (the zero-iteration path of the CFG is infeasible)
                    from ..poly import PolyCtx as _PC16h
                    from ..loops import loops_of as _lo16h
                    from ..cfg import dominators as _dm16h, dominates as _dom16h
                    idom_ = _dm16h(fi)
                    for L_ in _lo16h(P, fi, _PC16h(P, fi)):
                        hg_ = [g_ for g_ in L_.guards() if g_.block is L_.header]
                        T_ = L_.trip(hg_[0]) if len(hg_) == 1 else None
                        tv_ = T_.const_value() if T_ is not None else None
                        if tv_ is None or tv_ < 1 or ld.bb in L_.body or not _dom16h(idom_, L_.header, ld.bb):
                            continue
                        latches = [b_ for b_ in L_.body if L_.header in b_.succs]
                        for w_ in [i_ for b_ in L_.body for i_ in b_.insts if writes(i_)]:
                            if all(w_.bb is lb_ or _dom16h(idom_, w_.bb, lb_) for lb_ in latches):
                                esc = None
                inst = f'{iname}: read of {".".join(x[1] for x in fp)} at line {ld.line}'
                if esc is None:
                    r.ok(inst + ' follows a store on every path', func=fi.name, loc=ld.loc, trivial=True)
                else:
                    r.fail(inst, func=fi.name, sig=f'descriptor member {fp[-1][1]} read before it is written', loc=ld.loc,
                           msg=f'{iname} reads {".".join(x[1] for x in fp)} of the descriptor it has just malloc\'ed on a path on which the member was never assigned: '
                               'the value is whatever the heap chunk held (free() of it corrupts the heap)')
    if not n16:
        r.undecided('descriptor member reads in init', loc='src/backends', msg='no member of a malloc\'ed descriptor is read in any init')
    r.require_min(5)

    # ---------------- R16e
    r = ctx.rule('R16e', 'single owner on failure: a callee that frees a parameter on its error path is not followed by a second free',
                 'double free / use after free on an error path no test takes')
    shared.rule_single_owner(ctx, P, r)
    r.require_min(20, 'front-end call sites with pointer arguments')
    # ---------------- R16g create: a successful backend init is undone when the instance is refused afterwards
    r = ctx.rule('R16g', 'create: once the backend init succeeded, every path that does not register the instance calls the backend exit operation',
                 'a refusal added after init that only closes the library and frees the instance leaks the backend descriptor (and its tables / matrix)')
    cfn = P.fn('liberasurecode_instance_create')
    inits = [i for i in cfn.insts() if i.op == 'call' and i.callee.startswith('%') and set(cg.callees(cfn, i)) & set(cg.slot_functions('init').values())]
    regs = [i for i in cfn.insts() if i.op == 'call' and i.callee == '@liberasurecode_backend_instance_register']
    exits_ = [i for i in cfn.insts() if i.op == 'call' and i.callee.startswith('%') and set(cg.callees(cfn, i)) & set(cg.slot_functions('exit').values())]
    if not inits or not regs:
        raise AnalysisBroken('anchor vanished: create lacks init / register')
    from ..nullcheck import nonnull_edges as _nne
    A_, _x = derived_pointers(cfn, [inits[0].res])
    # the init result is stored into instance->desc.backend_desc and tested there: accept tests on the reloaded field too
    cand = set(A_)
    for ld in cfn.insts():
        if ld.op == 'load':
            root, steps = access_path(P, cfn, ld.ops[0])
            if fields_in_path(steps)[-1:] == [('ec_backend_desc', 'backend_desc')]:
                cand.add(ld.res)
    ok_edges = _nne(cfn, cand)
    if not ok_edges:
        r.undecided('create: success edge of init', loc=inits[0].loc, msg='no null test on the result of the backend init')
    for (sb, db) in ok_edges:
        esc = reaches_without(cfn, db, lambda i: i.op == 'ret', lambda i: i in regs or i in exits_, 0)
        inst = 'liberasurecode_instance_create: after a successful init the instance is registered or the backend exit is called'
        if esc is None:
            r.ok(inst, func=cfn.name, loc=inits[0].loc)
        else:
            r.fail(inst, func=cfn.name, sig='return after a successful init without register or exit', loc=esc.loc,
                   msg='a path returns after the backend init succeeded without registering the instance and without calling ops->exit: the backend descriptor '
                       'allocated by init (tables, matrix, table references) is lost')
    r.require_min(1)

    # ---------------- R16f outputs on error returns
    r = ctx.rule('R16f', 'a function that returns an error hands no allocation to the caller through an output parameter',
                 'callers release outputs only after success: a buffer returned together with an error code is lost')
    from ..chains import OUT_OF_SCOPE as _OOS
    nout = 0
    for name, fn in sorted(P.fns.items()):
        if _OOS.search(fn.mod.src) or SCOPE_EXCL.search(fn.mod.src) or fn.retty.strip() != 'i32':
            continue
        outp = {pn for pty, pn in fn.params if pty.endswith('**')}
        if not outp:
            continue
        owned = {i.res for i in fn.insts() if i.op == 'call' and i.res and any(c in O.returns_owned for c in cg.callees(fn, i))}
        if not owned:
            continue
        rets = [i for i in fn.insts() if i.op == 'ret' and i.ops]
        for st in [i for i in fn.insts() if i.op == 'store' and strip_ptr_casts(fn, i.ops[1]) in outp]:
            if not rets or rets[0].bb not in reachable_from(st.bb):
                continue
            # expand the stored value and the returned value together along the same incoming edges
            leaves, seen = [], set()
            def joint(v, rv, blk, edge, depth=0):
                key = (v, rv, blk.label)
                if key in seen or depth > 12:
                    return
                seen.add(key)
                dv, dr = fn.defs.get(strip_ptr_casts(fn, v)), fn.defs.get(rv)
                pv = dv if dv is not None and dv.op == 'phi' else None
                pr = dr if dr is not None and dr.op == 'phi' else None
                if pv is not None and pr is not None and pv.bb is pr.bb:
                    for (a, la), (b_, lb) in zip(sorted(pv.incoming, key=lambda x: x[1]), sorted(pr.incoming, key=lambda x: x[1])):
                        joint(a, b_, fn.blocks[la], (fn.blocks[la], pv.bb), depth + 1)
                elif pr is not None and (pv is None or pv.bb is not pr.bb) and not (pv is not None and pr.bb in reachable_from(pv.bb) and pv.bb is not pr.bb and False):
                    for b_, lb in pr.incoming:
                        joint(v, b_, fn.blocks[lb], (fn.blocks[lb], pr.bb), depth + 1)
                elif pv is not None:
                    for a, la in pv.incoming:
                        joint(a, rv, fn.blocks[la], (fn.blocks[la], pv.bb), depth + 1)
                else:
                    leaves.append((strip_ptr_casts(fn, v), rv, blk, edge))
            joint(st.ops[0], rets[0].ops[0], st.bb, None)
            nout += 1
            bad = None
            after = reachable_from(st.bb)
            direct = fn.defs.get(strip_ptr_casts(fn, st.ops[0])) is not None and fn.defs[strip_ptr_casts(fn, st.ops[0])].op != 'phi'
            for v, rv, blk, edge in leaves:
                if direct and blk is not st.bb and blk not in after:
                    continue                          # the stored value is fixed: this return value arises before the store is reached
                if v in owned and re.match(r'^-\d+$', rv or ''):
                    F = Facts(P, fn, blk, extra_edge=edge)
                    cv = F.norm(v)
                    if not F.is_null(cv):
                        bad = (v, rv, blk)
            inst = f'{name}: output stored at line {st.line}'
            if bad:
                r.fail(inst, func=name, sig=f'allocation handed out together with error {bad[1]}', loc=bad[2].insts[-1].loc,
                       msg=f'on the path through line {bad[2].insts[-1].line} the function returns {bad[1]} and still stores the buffer allocated at line '
                           f'{fn.defs[bad[0]].line} into its output parameter: the caller does not free outputs of a failed call')
            else:
                r.ok(inst + ': an allocation is handed out only together with a non-negative return value', func=name, loc=st.loc, facts={'combinations': len(leaves)})
    r.require_min(2)

    ctx.borrow('c14', ['R14f'], 'the shared GF tables are a counted resource: an unbalanced reference frees them under a live instance or leaks them')
