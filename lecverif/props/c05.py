"""C05 flat-XOR tables and decoder structure."""
import re, itertools
from .. import xorrules, tables, callgraph
from ..build import AnalysisBroken
from ..vflow import access_path, fields_in_path, strip_ptr_casts, strip_int_casts, derived_pointers, Canon
from ..ir import INT

EXPLANATION = (
    "The 38 flat-XOR codes are constant initialisers; they are read from the IR of the current tree and decided exhaustively. "
    "R05c: every (k,m,hd) of the box spanned by the guard constants (plus INT_MIN/INT_MAX) is constant-propagated through "
    "init_xor_hd_code with loads resolved in the pointer-table initialisers: the accepted set, the table each accepted shape "
    "receives, array bounds and lengths are exact. R05a: parity- and data-side bitmaps are transposes, no stray bits. R05b: "
    "for every accepted table every erasure set smaller than hd leaves generator columns of rank k over GF(2) (thorough: up to "
    "m, exact first undecodable size). R05d: peelability facts the decoders' unreachable branches rely on. R05e: index-space "
    "typing (DATA / PAR_REL / PAR_ABS) of every index value in xor_code.c/xor_hd_code.c against subscript, +-k and shift sinks. "
    "R05f: all three switches over failure_pattern_t have an arm per enumerator, the classifier's transition function equals "
    "the one derived from the enumerator names, each decoder arm calls the matching data decoder and re-encodes parity under "
    "decode_parity. R02a/R02e: beyond-tolerance arms return errors; -1 sentinels are tested before use. NOT decided: "
    "correctness of the peel decoders as algorithms, xor_bufs_and_store arithmetic, 'for every payload length'.")

def written_globals(mod):
    """{global: first instruction of the unit that writes (into) it}"""
    w = mod.__dict__.get('_written_globals')
    if w is None:
        w = {}
        for fn in mod.functions.values():
            for i in fn.insts():
                dst = i.ops[1] if i.op == 'store' else (i.ops[0] if i.op == 'call' and (i.callee or '').startswith(('@llvm.memcpy', '@llvm.memset', '@llvm.memmove')) else None)
                if dst is None:
                    continue
                v, n_ = dst, 0
                while n_ < 12:
                    n_ += 1
                    d = fn.defs.get(v)
                    if d is None or d.op not in ('bitcast', 'getelementptr'):
                        break
                    v = d.ops[0]
                if isinstance(v, str):
                    m_ = re.search(r'(@[\w.$]+)', v) if not v.startswith('%') else None
                    if m_:
                        w.setdefault(m_.group(1), i)
        mod._written_globals = w
    return w

def rule_tables_constant(ctx, P):
    """R05k: what the descriptor's table members point to is constant data"""
    from ..oblig import _is_constant_global
    r = ctx.rule('R05k', 'the equation tables a flat-XOR descriptor points to (parity_bms, data_bms) are constant data: the members receive addresses inside globals nothing ever writes',
                 'a table kept in writable (static) memory is shared by every descriptor: creating a second instance of another shape rewrites the equations the first one decodes with')
    n = 0
    for u in xorrules.XOR_UNITS:
        for fn in P.mod(u).functions.values():
            for st in fn.insts():
                if st.op != 'store':
                    continue
                fl = fields_in_path(access_path(P, fn, st.ops[1])[1])
                if not fl or fl[-1] not in (('xor_code_s', 'parity_bms'), ('xor_code_s', 'data_bms')):
                    continue
                n += 1
                bad, seen, stack = None, set(), [st.ops[0]]
                while stack and bad is None:
                    v = stack.pop()
                    if v in seen or v == 'null':
                        continue
                    seen.add(v)
                    d = fn.defs.get(v)
                    if d is None:
                        root = access_path(P, fn, v)[0]
                        if isinstance(root, str) and root.startswith('@'):
                            if not _is_constant_global(fn, root) and written_globals(fn.mod).get(root):
                                bad = f'{root} (written at line {written_globals(fn.mod)[root].line})'
                        else:
                            bad = str(v)[:40]
                    elif d.op in ('bitcast', 'getelementptr'):
                        stack.append(d.ops[0])
                    elif d.op == 'load':
                        stack.append(d.ops[0])          # an entry of a (constant) table of tables
                    elif d.op == 'select':
                        stack += d.ops[1:]
                    elif d.op == 'phi':
                        stack += [x for x, _ in d.incoming]
                    else:
                        bad = f'{d.op} at line {d.line}'
                inst = f'{fn.name}: store into {fl[-1][1]} at line {st.line}'
                if bad is None:
                    r.ok(inst + ': an address inside constant tables', func=fn.name, loc=st.loc)
                else:
                    r.fail(inst, func=fn.name, sig=f'{fl[-1][1]} := {bad}', loc=st.loc,
                           msg=f'the descriptor member {fl[-1][1]} receives {bad}, which is not constant data: the equations of one descriptor can then be changed by '
                               'whatever writes that memory later (another create)')
    r.require_min(2)

def rule_whitelist(ctx, P):
    rule_tables_constant(ctx, P)
    mod = P.mod('src/builtin/xor_codes/xor_hd_code.c')
    acc, box = xorrules.accepted_shapes(P)
    ctx.extra['whitelist_box'] = box
    ctx.extra['accepted_shapes'] = len(acc)

    # ---------------- R05c
    r = ctx.rule('R05c', 'whitelist <=> tables: every accepted (k,m,hd) gets in-bounds, non-null tables of lengths (m,k); k+m <= 32',
                 'an accepted shape without a table dereferences NULL / reads past the pointer tables at first use')
    entries = xorrules.all_table_entries(P, mod)
    used = set()
    shapes = {}
    for (k, m, hd), a in sorted(acc.items()):
        inst = f'shape (k={k}, m={m}, hd={hd})'
        loc = 'src/builtin/xor_codes/xor_hd_code.c'
        if a['oob']:
            ins, (g, path) = a['oob'][0]
            r.fail(inst, func='@init_xor_hd_code', sig=f'({k},{m},{hd}) indexes {g}{list(path)} out of bounds', loc=ins.loc,
                   msg=f'accepted shape ({k},{m},{hd}) reads {g} at index {list(path)}, outside the declared array')
            continue
        Pt, Dt = xorrules.table_ints(P, mod, a['parity']), xorrules.table_ints(P, mod, a['data'])
        if Pt is None or Dt is None:
            r.fail(inst, func='@init_xor_hd_code', sig=f'({k},{m},{hd}) has no table', loc=loc,
                   msg=f'accepted shape ({k},{m},{hd}) resolves to parity table {a["parity"]} / data table {a["data"]}: NULL or not a table')
            continue
        if (a['k'], a['m'], a['hd']) != (k, m, hd):
            r.fail(inst, func='@init_xor_hd_code', sig=f'descriptor stores {(a["k"], a["m"], a["hd"])}', loc=loc, msg='descriptor fields do not hold the requested shape')
            continue
        if len(Pt) != m or len(Dt) != k:
            r.fail(inst, func='@init_xor_hd_code', sig=f'({k},{m},{hd}) table lengths ({len(Pt)},{len(Dt)})', loc=loc,
                   msg=f'shape ({k},{m},{hd}) is wired to {a["parity"][1]} / {a["data"][1]} with {len(Pt)} parity and {len(Dt)} data entries')
            continue
        if k + m > 32 or k < 1 or m < 1:
            r.fail(inst, func='@init_xor_hd_code', sig=f'({k},{m},{hd}) outside 1<=k, 1<=m, k+m<=32', loc=loc, msg='shape exceeds the 32-bit bitmap representation')
            continue
        shapes[(k, m, hd)] = (Pt, Dt, a['parity'][1], a['data'][1])
        used.add(a['parity'][1]); used.add(a['data'][1])
        r.ok(inst + f' -> {a["parity"][1]}', func='@init_xor_hd_code', loc=loc)
    unreachable = sorted({v[1] for v in entries.values() if v and v[1] not in used})
    for g in unreachable:
        r.info(f'table {g} is not reachable through the whitelist', msg='a registered table no accepted shape uses')
    ctx.extra['unreachable_tables'] = unreachable
    r.require_min(38, 'accepted shapes')
    return shapes


def run(ctx):
    P = ctx.program()
    mod = P.mod('src/builtin/xor_codes/xor_hd_code.c')
    shapes = rule_whitelist(ctx, P)

    # ---------------- R05a / R05b / R05d
    ra = ctx.rule('R05a', 'parity-side and data-side bitmaps describe the same equations (transposes, no stray bits)',
                  'the planners read data_bms, the coders read parity_bms: a one-bit disagreement mis-plans specific erasure sets')
    rb = ctx.rule('R05b', 'minimum distance >= hd: every erasure set smaller than hd leaves rank k (exhaustive GF(2) check)',
                  'a table of smaller distance silently loses data for some tolerated erasure set')
    rd = ctx.rule('R05d', 'peelability: the decoders\' "cannot happen" branches are dead for every tolerated erasure set',
                  'otherwise decode_two/three_data return errors (or leak) for tolerated patterns')
    nsets = 0
    for (k, m, hd), (Pt, Dt, pg, dg) in sorted(shapes.items()):
        inst = f'({k},{m},{hd}) {pg}'
        bad = tables.transpose_consistent(Pt, Dt, k, m)
        stray = [j for j in range(m) if Pt[j] >> k] + [i for i in range(k) if Dt[i] >> m]
        if bad or stray:
            i, j = bad[0] if bad else (None, None)
            ra.fail(inst, func=pg, sig=f'({k},{m},{hd}) transpose mismatch at data {i}, parity {j}' if bad else f'({k},{m},{hd}) stray bits',
                    loc='include/xor_codes/xor_hd_code_defs.h',
                    msg=(f'{pg}[{j}] and {dg}[{i}] disagree on whether data {i} is in parity equation {j}' if bad else f'bits beyond k/m set in entries {stray}') +
                        f' ({len(bad)} disagreeing positions)')
        else:
            ra.ok(inst, func=pg, loc='include/xor_codes/xor_hd_code_defs.h', facts={'parity_bms': Pt, 'data_bms': Dt})
        upto = (hd - 1) if ctx.tier == 'quick' else m
        e, E = tables.first_undecodable(Pt, k, m, upto)
        nsets += tables.count_sets(k + m, min(upto, (e or upto)))
        if e is not None and e < hd:
            rb.fail(inst, func=pg, sig=f'({k},{m},{hd}) distance {e}', loc='include/xor_codes/xor_hd_code_defs.h',
                    msg=f'erasure set {list(E)} of size {e} < hd={hd} is not recoverable: minimum distance is {e}')
        else:
            rb.ok(inst + (f': first undecodable size {e}' if e else f': all sets up to size {upto} decodable'), func=pg,
                  loc='include/xor_codes/xor_hd_code_defs.h', facts={'checked_up_to': upto, 'first_undecodable': e, 'witness': list(E) if E else None})
        badp = tables.peelable(Pt, Dt, k, m, hd)
        if badp:
            rd.fail(inst, func=pg, sig=f'({k},{m},{hd}) unpeelable {list(badp[0])}', loc='include/xor_codes/xor_hd_code_defs.h',
                    msg=f'erasure set {list(badp[0])} within tolerance cannot be peeled by the 1/2/3-data decoders ({len(badp)} such sets)')
        else:
            rd.ok(inst, func=pg, loc='include/xor_codes/xor_hd_code_defs.h')
    ctx.extra['erasure_sets_checked'] = nsets
    ra.require_min(38); rb.require_min(38); rd.require_min(38)

    # ---------------- R05e
    r = ctx.rule('R05e', 'index spaces: DATA / parity-relative / parity-absolute values reach only matching sinks',
                 'an absolute parity index used as bit position or subscript addresses the wrong fragment')
    total = xorrules.index_space_rule(P, r)
    ctx.extra['index_values_typed'] = total
    r.require_min(12, 'functions with typed index values')

    # ---------------- R05f
    r = ctx.rule('R05f', 'failure-pattern machine: exhaustive switches, transition function from enumerator names, decoder arms',
                 'a wrong transition or arm decodes a tolerated pattern with the wrong routine')
    xorrules.machine_rule(P, r)
    r.require_min(25)

    # ---------------- R02a / R02e
    r = ctx.rule('R02a', 'beyond-tolerance arms (GE_HD, default) of decoder and planner return a negative value')
    xorrules.refusal_rule(P, r)
    r.require_min(3)
    r = ctx.rule('R02e', 'the -1 sentinel of index_of_connected_parity is tested before use as subscript / shift')
    xorrules.sentinel_rule(P, r)
    r.require_min(8)

    r = ctx.rule('R05g', 'XOR kernel: wide loop + byte tail cover every byte of the block',
                 'payloads are multiples of 4 bytes only: a tail loop on wider words drops the last bytes of parity and of rebuilt data')
    from .. import cover
    cover.cover_rule(P, r, 'xor_bufs_and_store', [0], 1, 2)
    # the copy that seeds a rebuilt element with its parity: one copy of exactly `size` bytes, or stores that tile [0, size)
    from ..vflow import Canon, strip_ptr_casts, strip_int_casts
    fm = P.fn('fast_memcpy')
    Cfm = Canon(P, fm)
    mcs = [i for i in fm.insts() if i.op == 'call' and (i.callee or '').startswith('@llvm.memcpy')]
    sts = [i for i in fm.insts() if i.op == 'store']
    whole = [i for i in mcs if strip_ptr_casts(fm, i.ops[0]) == fm.params[0][1] and strip_ptr_casts(fm, i.ops[1]) == fm.params[1][1]
             and Cfm.val(strip_int_casts(fm, i.ops[2])) == Cfm.val(fm.params[2][1])]
    if whole and not sts and len(mcs) == 1:
        r.ok('fast_memcpy: one copy of exactly size bytes from src to dst', func=fm.name, loc=whole[0].loc)
    elif sts and not mcs:
        cover.cover_rule(P, r, 'fast_memcpy', [1], 0, 2)
    else:
        r.fail('fast_memcpy copies size bytes', func=fm.name, sig='fast_memcpy: copy not recognised as whole', loc=fm.mod.src,
               msg='fast_memcpy is neither one memcpy(dst, src, size) nor a set of loops that tile [0, size): bytes of the rebuilt element may stay unset')
    r.require_min(2)
    if ctx.flavour == 'configured':
        # the property names both build flavours: the kernel of the portable build (no -m*/-DINTEL_* flags) is decided on every run too
        rp = ctx.rule('R05g.portable', 'XOR kernel of the portable build flavour (no SSE2): wide loop + byte tail cover every byte of the block',
                      'the #else half of the kernel is not compiled by the configured build and not run by the suite')
        cover.cover_rule(ctx.program('portable'), rp, 'xor_bufs_and_store', [0], 1, 2)
        rp.require_min(1)
    r = ctx.rule('R05h', 'xor_reconstruct_one falls back to the full decoder with the complete erasure list',
                 'a decoder that does not know which parities are erased solves with a zero-filled placeholder')
    xorrules.reconstruct_fallback_rule(P, r)
    r.require_min(2)
    r = ctx.rule('R05m', 'flat-XOR code: a fragment-array subscript formed by a subtraction subtracts k (absolute parity index -> parity-relative), nothing else',
                 'parity[index - m] is some other slot (or none) whenever k != m: the wrong buffer is read or cleared')
    nm5 = 0
    for u5 in xorrules.XOR_UNITS:
        for fn5 in P.mod(u5).functions.values():
            bufs5 = {n_ for t_, n_ in fn5.params if t_ == 'i8**'}
            if not bufs5:
                continue
            A5, _ = derived_pointers(fn5, sorted(bufs5))
            for g5 in fn5.insts():
                if g5.op != 'getelementptr' or g5.ops[0] not in A5 or INT.match(g5.ops[-1]):
                    continue
                d5 = fn5.defs.get(strip_int_casts(fn5, g5.ops[-1]))
                if d5 is None or d5.op != 'sub':
                    continue
                nm5 += 1
                sd5 = fn5.defs.get(strip_int_casts(fn5, d5.ops[1]))
                fl5 = fields_in_path(access_path(P, fn5, sd5.ops[0])[1]) if sd5 is not None and sd5.op == 'load' else []
                inst = f'{fn5.name}: subscript (x - y) at line {g5.line}'
                if fl5 and fl5[-1] == ('xor_code_s', 'k'):
                    r.ok(inst + ': y is k', func=fn5.name, loc=g5.loc)
                else:
                    r.fail(inst, func=fn5.name, sig=f'fragment subscript subtracts {fl5[-1][1] if fl5 else "a value other than k"}', loc=g5.loc,
                           msg=f'{fn5.name} forms a fragment-array subscript by subtracting {("code_desc->" + fl5[-1][1]) if fl5 else Canon(P, fn5).val(d5.ops[1])[:40]} from an index: '
                               'the only conversion between the index spaces is "absolute parity index - k"')
    r.require_min(3)
    r = ctx.rule('R05l', 'flat-XOR encoders XOR whole fragments: xor_bufs_and_store(data[i], parity[j], blocksize) with the buffers and the length of the request',
                 'parity must be the XOR of its equation over every byte: a strip-wise encoder with its own offsets and lengths leaves bytes out for some payload lengths')
    nl5 = 0
    for ename in ('xor_code_encode', 'selective_encode'):
        ef5 = P.fn(ename)
        names5 = [n_ for _, n_ in ef5.params]
        Ad5, _ = derived_pointers(ef5, [names5[1]])
        Ap5, _ = derived_pointers(ef5, [names5[2]])
        bs5 = names5[-1]
        for c5 in [i for i in ef5.insts() if i.op == 'call' and i.callee == '@xor_bufs_and_store']:
            nl5 += 1
            s5, d5 = ef5.defs.get(strip_ptr_casts(ef5, c5.ops[0])), ef5.defs.get(strip_ptr_casts(ef5, c5.ops[1]))
            ok5 = (s5 is not None and s5.op == 'load' and s5.ops[0] in Ad5 and d5 is not None and d5.op == 'load' and d5.ops[0] in Ap5
                   and strip_int_casts(ef5, c5.ops[2]) == bs5)
            inst = f'{ename}: xor_bufs_and_store at line {c5.line}'
            if ok5:
                r.ok(inst + ': (data[i], parity[j], blocksize)', func=ef5.name, loc=c5.loc)
            else:
                C5 = Canon(P, ef5)
                r.fail(inst, func=ef5.name, sig=f'xor kernel called with ({C5.val(c5.ops[0])[:30]}, {C5.val(c5.ops[1])[:30]}, {C5.val(c5.ops[2])[:30]})', loc=c5.loc,
                       msg=f'{ename} calls the XOR kernel with source {C5.val(c5.ops[0])}, destination {C5.val(c5.ops[1])} and length {C5.val(c5.ops[2])} instead of a data '
                           'fragment, a parity fragment and the blocksize of the request: the bytes covered are no longer the whole payload by construction')
    r.require_min(2)
    r = ctx.rule('R05j', 'xor_reconstruct_one rebuilds a data element from the very equation index_of_connected_parity selected',
                 'the selector is the only place that checks that no other member of the equation is lost: any other equation may contain a second erased element')
    xr = P.fn('xor_reconstruct_one')
    from ..poly import PolyCtx as _PC5j, Poly as _P5j
    from ..cfg import dominators as _dm5j
    from ..guards import dominating_edges as _de5j
    pc5 = _PC5j(P, xr)
    sels = [i for i in xr.insts() if i.op == 'call' and i.callee == '@index_of_connected_parity' and i.res]
    if not sels:
        raise AnalysisBroken('anchor vanished: xor_reconstruct_one does not call index_of_connected_parity')
    Kat = [a_ for l_ in xr.insts() if l_.op == 'load' and fields_in_path(access_path(P, xr, l_.ops[0])[1])[-1:] == [('xor_code_s', 'k')] for a_ in pc5.val(l_.res).atoms()]
    want5 = (pc5.val(sels[0].res) - _P5j.atom(Kat[0])) if Kat else None
    nj = 0
    for g_ in xr.insts():
        if g_.op != 'getelementptr' or INT.match(g_.ops[-1]):
            continue
        root_, steps_ = access_path(P, xr, g_.ops[0])
        fl_ = fields_in_path(steps_)
        is_bms = bool(fl_) and fl_[-1] == ('xor_code_s', 'parity_bms')
        bd_ = xr.defs.get(strip_ptr_casts(xr, g_.ops[0]))
        if bd_ is not None and bd_.op == 'load':
            fl2_ = fields_in_path(access_path(P, xr, bd_.ops[0])[1])
            is_bms = is_bms or (bool(fl2_) and fl2_[-1] == ('xor_code_s', 'parity_bms'))
        is_par = strip_ptr_casts(xr, g_.ops[0]) == xr.params[2][1]
        if not (is_bms or is_par):
            continue
        # only where the selector's answer was accepted (>= 0)
        from ..guards import lower_bound_at as _lb5j
        lo_ = _lb5j(P, xr, sels[0].res, g_.bb)
        if lo_ is None or lo_ < 0:
            continue
        nj += 1
        got = pc5.val(g_.ops[-1])
        inst = f'xor_reconstruct_one: {"parity_bms" if is_bms else "parity"}[...] at line {g_.line} is subscripted with the selected parity'
        if want5 is not None and got == want5:
            r.ok(inst, func=xr.name, loc=g_.loc)
        else:
            r.fail(inst, func=xr.name, sig=f'equation subscript {str(got)[:50]}', loc=g_.loc,
                   msg=f'after index_of_connected_parity chose an equation, {"its bitmap" if is_bms else "the parity buffer"} is taken at subscript {got} instead of '
                       f'{want5} (the selected parity minus k): an equation nobody checked for further erased members')
    r.require_min(2)
    r = ctx.rule('R05i', 'bitmaps assembled from an index list in a loop accumulate (|=), they are not overwritten',
                 'with "=" only the last listed element is rebuilt / counted: success with stale buffers for two or more erasures')
    from . import shared as _sh
    _sh.rule_bitmap_accumulation(ctx, P, r)
    r.require_min(1)
    r = ctx.rule('R15f', 'backend decode / reconstruct operations do not write through the erasure list they are given',
                 'decoders that use the caller\'s list as a work queue return it truncated: the front end then skips the rebuilt fragments')
    from . import shared as _sh2
    _sh2.rule_missing_list_readonly(ctx, P, r)
    r.require_min(4)
