"""C05 flat-XOR tables and decoder structure."""
import re, itertools
from .. import xorrules, tables, callgraph
from ..build import AnalysisBroken

EXPLANATION = (
    "The 38 flat-XOR codes are constant initialisers; they are read from the IR of the current tree and decided exhaustively. "
    "R05c: every (k,m,hd) of the box spanned by the guard constants (plus INT_MIN/INT_MAX) is constant-propagated through "
    "init_xor_hd_code with loads resolved in the pointer-table initialisers: the accepted set, the table each accepted shape "
    "receives, array bounds and lengths are exact. R05a: parity- and data-side bitmaps are transposes, no stray bits. R05b: "
    "for every accepted table every erasure set smaller than hd leaves generator columns of rank k over GF(2) (thorough: up to "
    "m, exact first undecodable size). R05d: peelability facts the decoders' unreachable branches rely on. R05e: index-space "
    "typing (DATA / PAR_REL / PAR_ABS) of every index value in xor_code.c/xor_hd_code.c against subscript, +-k and shift sinks. "
    "R05f: all three switches over failure_pattern_t have an arm per enumerator, the classifier's transition function equals "
    "the one derived from the enumerator names, each decoder arm calls the matching data decoder and re-encodes parity under "
    "decode_parity. R02a/R02e: beyond-tolerance arms return errors; -1 sentinels are tested before use. NOT decided: "
    "correctness of the peel decoders as algorithms, xor_bufs_and_store arithmetic, 'for every payload length'.")

def rule_whitelist(ctx, P):
    mod = P.mod('src/builtin/xor_codes/xor_hd_code.c')
    acc, box = xorrules.accepted_shapes(P)
    ctx.extra['whitelist_box'] = box
    ctx.extra['accepted_shapes'] = len(acc)

    # ---------------- R05c
    r = ctx.rule('R05c', 'whitelist <=> tables: every accepted (k,m,hd) gets in-bounds, non-null tables of lengths (m,k); k+m <= 32',
                 'an accepted shape without a table dereferences NULL / reads past the pointer tables at first use')
    entries = xorrules.all_table_entries(P, mod)
    used = set()
    shapes = {}
    for (k, m, hd), a in sorted(acc.items()):
        inst = f'shape (k={k}, m={m}, hd={hd})'
        loc = 'src/builtin/xor_codes/xor_hd_code.c'
        if a['oob']:
            ins, (g, path) = a['oob'][0]
            r.fail(inst, func='@init_xor_hd_code', sig=f'({k},{m},{hd}) indexes {g}{list(path)} out of bounds', loc=ins.loc,
                   msg=f'accepted shape ({k},{m},{hd}) reads {g} at index {list(path)}, outside the declared array')
            continue
        Pt, Dt = xorrules.table_ints(P, mod, a['parity']), xorrules.table_ints(P, mod, a['data'])
        if Pt is None or Dt is None:
            r.fail(inst, func='@init_xor_hd_code', sig=f'({k},{m},{hd}) has no table', loc=loc,
                   msg=f'accepted shape ({k},{m},{hd}) resolves to parity table {a["parity"]} / data table {a["data"]}: NULL or not a table')
            continue
        if (a['k'], a['m'], a['hd']) != (k, m, hd):
            r.fail(inst, func='@init_xor_hd_code', sig=f'descriptor stores {(a["k"], a["m"], a["hd"])}', loc=loc, msg='descriptor fields do not hold the requested shape')
            continue
        if len(Pt) != m or len(Dt) != k:
            r.fail(inst, func='@init_xor_hd_code', sig=f'({k},{m},{hd}) table lengths ({len(Pt)},{len(Dt)})', loc=loc,
                   msg=f'shape ({k},{m},{hd}) is wired to {a["parity"][1]} / {a["data"][1]} with {len(Pt)} parity and {len(Dt)} data entries')
            continue
        if k + m > 32 or k < 1 or m < 1:
            r.fail(inst, func='@init_xor_hd_code', sig=f'({k},{m},{hd}) outside 1<=k, 1<=m, k+m<=32', loc=loc, msg='shape exceeds the 32-bit bitmap representation')
            continue
        shapes[(k, m, hd)] = (Pt, Dt, a['parity'][1], a['data'][1])
        used.add(a['parity'][1]); used.add(a['data'][1])
        r.ok(inst + f' -> {a["parity"][1]}', func='@init_xor_hd_code', loc=loc)
    unreachable = sorted({v[1] for v in entries.values() if v and v[1] not in used})
    for g in unreachable:
        r.info(f'table {g} is not reachable through the whitelist', msg='a registered table no accepted shape uses')
    ctx.extra['unreachable_tables'] = unreachable
    r.require_min(38, 'accepted shapes')
    return shapes


def run(ctx):
    P = ctx.program()
    mod = P.mod('src/builtin/xor_codes/xor_hd_code.c')
    shapes = rule_whitelist(ctx, P)

    # ---------------- R05a / R05b / R05d
    ra = ctx.rule('R05a', 'parity-side and data-side bitmaps describe the same equations (transposes, no stray bits)',
                  'the planners read data_bms, the coders read parity_bms: a one-bit disagreement mis-plans specific erasure sets')
    rb = ctx.rule('R05b', 'minimum distance >= hd: every erasure set smaller than hd leaves rank k (exhaustive GF(2) check)',
                  'a table of smaller distance silently loses data for some tolerated erasure set')
    rd = ctx.rule('R05d', 'peelability: the decoders\' "cannot happen" branches are dead for every tolerated erasure set',
                  'otherwise decode_two/three_data return errors (or leak) for tolerated patterns')
    nsets = 0
    for (k, m, hd), (Pt, Dt, pg, dg) in sorted(shapes.items()):
        inst = f'({k},{m},{hd}) {pg}'
        bad = tables.transpose_consistent(Pt, Dt, k, m)
        stray = [j for j in range(m) if Pt[j] >> k] + [i for i in range(k) if Dt[i] >> m]
        if bad or stray:
            i, j = bad[0] if bad else (None, None)
            ra.fail(inst, func=pg, sig=f'({k},{m},{hd}) transpose mismatch at data {i}, parity {j}' if bad else f'({k},{m},{hd}) stray bits',
                    loc='include/xor_codes/xor_hd_code_defs.h',
                    msg=(f'{pg}[{j}] and {dg}[{i}] disagree on whether data {i} is in parity equation {j}' if bad else f'bits beyond k/m set in entries {stray}') +
                        f' ({len(bad)} disagreeing positions)')
        else:
            ra.ok(inst, func=pg, loc='include/xor_codes/xor_hd_code_defs.h', facts={'parity_bms': Pt, 'data_bms': Dt})
        upto = (hd - 1) if ctx.tier == 'quick' else m
        e, E = tables.first_undecodable(Pt, k, m, upto)
        nsets += tables.count_sets(k + m, min(upto, (e or upto)))
        if e is not None and e < hd:
            rb.fail(inst, func=pg, sig=f'({k},{m},{hd}) distance {e}', loc='include/xor_codes/xor_hd_code_defs.h',
                    msg=f'erasure set {list(E)} of size {e} < hd={hd} is not recoverable: minimum distance is {e}')
        else:
            rb.ok(inst + (f': first undecodable size {e}' if e else f': all sets up to size {upto} decodable'), func=pg,
                  loc='include/xor_codes/xor_hd_code_defs.h', facts={'checked_up_to': upto, 'first_undecodable': e, 'witness': list(E) if E else None})
        badp = tables.peelable(Pt, Dt, k, m, hd)
        if badp:
            rd.fail(inst, func=pg, sig=f'({k},{m},{hd}) unpeelable {list(badp[0])}', loc='include/xor_codes/xor_hd_code_defs.h',
                    msg=f'erasure set {list(badp[0])} within tolerance cannot be peeled by the 1/2/3-data decoders ({len(badp)} such sets)')
        else:
            rd.ok(inst, func=pg, loc='include/xor_codes/xor_hd_code_defs.h')
    ctx.extra['erasure_sets_checked'] = nsets
    ra.require_min(38); rb.require_min(38); rd.require_min(38)

    # ---------------- R05e
    r = ctx.rule('R05e', 'index spaces: DATA / parity-relative / parity-absolute values reach only matching sinks',
                 'an absolute parity index used as bit position or subscript addresses the wrong fragment')
    total = xorrules.index_space_rule(P, r)
    ctx.extra['index_values_typed'] = total
    r.require_min(12, 'functions with typed index values')

    # ---------------- R05f
    r = ctx.rule('R05f', 'failure-pattern machine: exhaustive switches, transition function from enumerator names, decoder arms',
                 'a wrong transition or arm decodes a tolerated pattern with the wrong routine')
    xorrules.machine_rule(P, r)
    r.require_min(25)

    # ---------------- R02a / R02e
    r = ctx.rule('R02a', 'beyond-tolerance arms (GE_HD, default) of decoder and planner return a negative value')
    xorrules.refusal_rule(P, r)
    r.require_min(3)
    r = ctx.rule('R02e', 'the -1 sentinel of index_of_connected_parity is tested before use as subscript / shift')
    xorrules.sentinel_rule(P, r)
    r.require_min(8)

    r = ctx.rule('R05g', 'XOR kernel: wide loop + byte tail cover every byte of the block',
                 'payloads are multiples of 4 bytes only: a tail loop on wider words drops the last bytes of parity and of rebuilt data')
    from .. import cover
    cover.cover_rule(P, r, 'xor_bufs_and_store', [0], 1, 2)
    # the copy that seeds a rebuilt element with its parity: one copy of exactly `size` bytes, or stores that tile [0, size)
    from ..vflow import Canon, strip_ptr_casts, strip_int_casts
    fm = P.fn('fast_memcpy')
    Cfm = Canon(P, fm)
    mcs = [i for i in fm.insts() if i.op == 'call' and (i.callee or '').startswith('@llvm.memcpy')]
    sts = [i for i in fm.insts() if i.op == 'store']
    whole = [i for i in mcs if strip_ptr_casts(fm, i.ops[0]) == fm.params[0][1] and strip_ptr_casts(fm, i.ops[1]) == fm.params[1][1]
             and Cfm.val(strip_int_casts(fm, i.ops[2])) == Cfm.val(fm.params[2][1])]
    if whole and not sts and len(mcs) == 1:
        r.ok('fast_memcpy: one copy of exactly size bytes from src to dst', func=fm.name, loc=whole[0].loc)
    elif sts and not mcs:
        cover.cover_rule(P, r, 'fast_memcpy', [1], 0, 2)
    else:
        r.fail('fast_memcpy copies size bytes', func=fm.name, sig='fast_memcpy: copy not recognised as whole', loc=fm.mod.src,
               msg='fast_memcpy is neither one memcpy(dst, src, size) nor a set of loops that tile [0, size): bytes of the rebuilt element may stay unset')
    r.require_min(2)
    if ctx.flavour == 'configured':
        # the property names both build flavours: the kernel of the portable build (no -m*/-DINTEL_* flags) is decided on every run too
        rp = ctx.rule('R05g.portable', 'XOR kernel of the portable build flavour (no SSE2): wide loop + byte tail cover every byte of the block',
                      'the #else half of the kernel is not compiled by the configured build and not run by the suite')
        cover.cover_rule(ctx.program('portable'), rp, 'xor_bufs_and_store', [0], 1, 2)
        rp.require_min(1)
    r = ctx.rule('R05h', 'xor_reconstruct_one falls back to the full decoder with the complete erasure list',
                 'a decoder that does not know which parities are erased solves with a zero-filled placeholder')
    xorrules.reconstruct_fallback_rule(P, r)
    r.require_min(2)
    r = ctx.rule('R05i', 'bitmaps assembled from an index list in a loop accumulate (|=), they are not overwritten',
                 'with "=" only the last listed element is rebuilt / counted: success with stale buffers for two or more erasures')
    from . import shared as _sh
    _sh.rule_bitmap_accumulation(ctx, P, r)
    r.require_min(1)
    r = ctx.rule('R15f', 'backend decode / reconstruct operations do not write through the erasure list they are given',
                 'decoders that use the caller\'s list as a work queue return it truncated: the front end then skips the rebuilt fragments')
    from . import shared as _sh2
    _sh2.rule_missing_list_readonly(ctx, P, r)
    r.require_min(4)
