"""C19 ISA-L adapters (never executed by the pinned suite): structural clauses only."""
import re
from .. import callgraph, chains, own
from ..vflow import Canon, strip_int_casts, strip_ptr_casts, access_path, fields_in_path, derived_pointers
from ..guards import Facts, dominating_edges
from ..cfg import reachable_from, reaches_without, natural_loops, dominators, dominates
from ..retval import returns_via_edge, all_negative
from ..build import AnalysisBroken
from . import shared, c16, c06

EXPLANATION = (
    "The ISA-L adapters run zero times in the pinned suite (libisal is absent); everything here is decided from their IR with "
    "documented contracts for the five external primitives. R19a: the results of gf_invert_matrix and of "
    "isa_l_get_decode_matrix are tested in decode and reconstruct and the failing edges return a negative value through the "
    "common frees without reaching ec_init_tables / ec_encode_data. R19c (sibling agreement): the loop that selects generator "
    "rows and the loops that select source buffers take index i exactly when bit i of the missing bitmap is clear, in "
    "ascending order from 0, capped at k. R19d: each dlsym'ed primitive is null-tested before the descriptor can be returned. "
    "R19f: in get_inverse_rows both column cursors are loop-carried counters advanced on their own branch (the row selector "
    "for missing data advances). R19e: isa_l_min_fragments satisfies the planner rules of C06. R16a/R16d: ownership typestate "
    "of isa_l_common.c and exit-mirrors-init. R12c/R08a/R13d: op tables complete, reported element size equals the word size "
    "in use, word size guarded. NOT decided: numerical correctness of decode-matrix selection, inverse-row synthesis and "
    "table expansion; anything inside ISA-L.")

UNIT = 'src/backends/isa-l/isa_l_common.c'

def unwrap_casts(e):
    """remove (s|z)ext / trunc wrappers textually, keeping the wrapped expression"""
    while True:
        m = re.search(r'(sext|zext|trunc)\.i\d+\(', e)
        if not m:
            return e
        i = m.end() - 1
        depth = 0
        for j in range(i, len(e)):
            if e[j] == '(':
                depth += 1
            elif e[j] == ')':
                depth -= 1
                if depth == 0:
                    break
        e = e[:m.start()] + e[i + 1:j] + e[j + 1:]

def run(ctx):
    P = ctx.program()
    cg = callgraph.get(P)
    m = P.mod(UNIT)

    # ---------------- R19a
    r = ctx.rule('R19a', 'inversion failure / too few survivors => negative return through the frees, no table expansion or encode',
                 'a singular selection must be an error, not output computed from an uninitialised inverse')
    for fname in ('isa_l_decode', 'isa_l_reconstruct'):
        f = P.fn(fname)
        C = Canon(P, f)
        inv = [i for i in f.insts() if i.op == 'call' and 'ext:gf_invert_matrix' in cg.callees(f, i)]
        dm = [i for i in f.insts() if i.op == 'call' and i.callee == '@isa_l_get_decode_matrix']
        prim = lambda i: i.op == 'call' and set(cg.callees(f, i)) & {'ext:ec_encode_data', 'ext:ec_init_tables'}
        if not inv or not dm:
            raise AnalysisBroken(f'anchor vanished: {fname} lacks inversion / decode matrix selection')
        # the status result of the inversion is followed by value: whatever the test looks like (< 0, != 0, >= 0 with a flag ...),
        # a negative status must end in a negative return without reaching table expansion / encode
        from ..oblig import simulate as _sim
        primcalls = {i.callee for i in f.insts() if prim(i)}
        call = inv[0]
        inst = f'{fname}: failure of gf_invert_matrix'
        problem = None
        for v in (-1, -7):
            for kind, val, trail in _sim(f, call, v, stop_calls=primcalls):
                if kind == 'event':
                    problem = (f'gf_invert_matrix failure reaches {"/".join(sorted(cg.callees(f, val)))}', val.loc,
                               f'after gf_invert_matrix failed ({v}) the code still reaches {sorted(cg.callees(f, val))}')
                elif kind == 'ret' and (val is None or val >= 0):
                    problem = problem or (f'gf_invert_matrix failure returns {val}', call.loc, f'when gf_invert_matrix returns {v} the function returns {val} (not a negative value)')
                elif kind == 'limit':
                    problem = problem or ('undecided', call.loc, 'step limit')
        if problem is None:
            r.ok(inst + ' => negative return, primitives not called', func=f.name, loc=call.loc)
        elif problem[0] == 'undecided':
            r.undecided(inst, loc=call.loc, msg=problem[2])
        else:
            r.fail(inst, func=f.name, sig=problem[0], loc=problem[1], msg=problem[2])
        for call, what in ((dm[0], 'isa_l_get_decode_matrix'),):
            edge = None
            for b in f.order:
                t = b.insts[-1]
                if t.op == 'br' and len(t.targets) == 2 and t.ops:
                    c = f.defs.get(t.ops[0])
                    if c is not None and c.op == 'icmp' and call.res in [strip_int_casts(f, o) for o in c.ops]:
                        if what == 'gf_invert_matrix' and c.pred == 'slt' and c.ops[1] == '0':
                            edge = (b, f.blocks[t.targets[0]])
                        elif what == 'gf_invert_matrix' and c.pred == 'ne' and '0' in c.ops:
                            edge = (b, f.blocks[t.targets[0]])
                        elif what != 'gf_invert_matrix' and 'null' in c.ops:
                            edge = (b, f.blocks[t.targets[0] if c.pred == 'eq' else t.targets[1]])
            inst = f'{fname}: failure of {what}'
            if edge is None:
                r.fail(inst, func=f.name, sig=f'{what} result not tested', loc=call.loc, msg=f'the result of {what} is not tested for failure')
                continue
            vals = returns_via_edge(f, *edge)
            leak = reaches_without(f, edge[1], prim, lambda i: False)
            if leak is not None:
                r.fail(inst, func=f.name, sig=f'{what} failure reaches {"/".join(sorted(cg.callees(f, leak)))}', loc=leak.loc,
                       msg=f'after {what} failed the code still reaches {sorted(cg.callees(f, leak))}')
            elif not all_negative(vals):
                r.fail(inst, func=f.name, sig=f'{what} failure returns {sorted(map(str, vals))}', loc=edge[0].insts[-1].loc, msg=f'failure of {what} returns {sorted(map(str, vals))}')
            else:
                r.ok(inst + ' => negative return, primitives not called', func=f.name, loc=edge[0].insts[-1].loc)
    r.require_min(4)

    # ---------------- R19c selection agreement
    r = ctx.rule('R19c', 'row selection and buffer selection agree: take index i iff bit i of the missing bitmap is clear, ascending, capped at k',
                 'rows of the decode matrix and the buffers multiplied with it must be the same k survivors in the same order')
    sel = []
    for fname, dstkind in (('isa_l_get_decode_matrix', 'matrix'), ('isa_l_decode', 'available'), ('isa_l_reconstruct', 'available')):
        f = P.fn(fname)
        C = Canon(P, f)
        # destination object: malloc'ed decode_matrix / available_fragments
        found = None
        for h, body in natural_loops(f).items():
            for b in body:
                for s in b.insts:
                    if s.op == 'call' and (s.callee or '').startswith('@llvm.memcpy'):
                        sdst = s.ops[0]                 # a row copied with memcpy is a selection as well
                    elif s.op == 'store':
                        sdst = s.ops[1]
                    else:
                        continue
                    root, steps = access_path(P, f, sdst)
                    rd = f.defs.get(root) if isinstance(root, str) else None
                    if rd is not None and rd.op in ('phi', 'select'):
                        # filled through a walking pointer (`*cur++ = x`): the object the pointer walks
                        from ..poly import PolyCtx as _PC19c
                        pr_ = _PC19c(P, f, C).ptr(sdst)[0]
                        cands_ = [x_ for x_ in f.insts() if x_.op == 'call' and x_.callee == '@malloc' and x_.res and C.val(x_.res) == pr_]
                        rd = cands_[0] if cands_ else rd
                    if rd is None or rd.op != 'call' or rd.callee != '@malloc':
                        continue
                    F = Facts(P, f, s.bb)
                    bit = None
                    for p, a, bb_ in F.facts:
                        a = unwrap_casts(a)
                        mm = re.match(r'^\((?:\(1 shl (.+?)\) and (.+)|(.+) and \(1 shl (.+?)\))\)$', a)
                        if mm and bb_ == '0' and p in ('eq', 'ne'):
                            idx = mm.group(1) or mm.group(4)
                            bm = mm.group(2) or mm.group(3)
                            bit = (p, re.sub(r'(sext|zext)\.i\d+\((.*)\)', r'\2', idx), bm)
                    def is_list_bitmap(bm):
                        if '@convert_list_to_bitmap' in bm:
                            return True
                        # the bitmap may be computed by the callers and handed in: every call site must pass the converted list
                        pm = re.match(r'^arg(\d+)$', unwrap_casts(bm))
                        if pm and f.linkage == 'internal':
                            sites = cg.callers_of(f.name)
                            return bool(sites) and all('@convert_list_to_bitmap' in Canon(P, g_).val(c_.ops[int(pm.group(1))]) for g_, c_ in sites)
                        return False
                    # a loop may fill two lists (the survivors under a clear bit, the buffers to rebuild under a set bit):
                    # the selection of survivors is the store under the clear bit
                    if bit and is_list_bitmap(bit[2]) and (found is None or (found[1][0] != 'eq' and bit[0] == 'eq')):
                        found = (s, bit, F)
        inst = f'{fname}: selection loop'
        if not found:
            r.fail(inst, func=f.name, sig='no store guarded by the missing bitmap', loc=f.mod.src, msg='no selection guarded by (missing_bm & (1 << i)) was found')
            continue
        s, bit, F = found
        take_clear = bit[0] == 'eq'
        ivd = f.defs.get(bit[1].replace('phi', '')) if bit[1].startswith('phi') else None
        asc = ivd is not None and ivd.op == 'phi' and any(v == '0' for v, _ in ivd.incoming) and \
            any((f.defs.get(v) is not None and f.defs[v].op == 'add' and '1' in f.defs[v].ops) for v, _ in ivd.incoming)
        cap = any((p in ('slt', 'ne') and re.match(r'^phi', a) and (b_ in ('arg0',) or re.search(r'\.k$', b_))) for p, a, b_ in F.facts)
        if not cap:
            # the cap as a guard of the loop on the cursor the store goes through (an index or a walking pointer compared with its end)
            from ..poly import PolyCtx as _PC19c2
            from ..loops import loops_of as _lo19c, innermost as _in19c
            pc_ = _PC19c2(P, f, C)
            Ls_ = _in19c(_lo19c(P, f, pc_), s.bb)
            if Ls_ is not None:
                off_ = Ls_.pc.ptr(s.ops[1])[1]
                from ..guards import NEG as _NEG19
                for raw_, tr_ in F.raw:
                    if raw_.op != 'icmp':
                        continue
                    pd_ = raw_.pred if tr_ else _NEG19[raw_.pred]
                    if (raw_.ty or '').endswith('*'):
                        (r1_, o1_), (r2_, o2_) = Ls_.pc.ptr(raw_.ops[0]), Ls_.pc.ptr(raw_.ops[1])
                        if r1_ != r2_:
                            continue
                    else:
                        o1_, o2_ = Ls_.pc.val(raw_.ops[0]), Ls_.pc.val(raw_.ops[1])
                    for lo_, hi_, p2_ in ((o1_, o2_, pd_), (o2_, o1_, {'ult': 'ugt', 'slt': 'sgt', 'ugt': 'ult', 'sgt': 'slt'}.get(pd_, pd_))):
                        cur_ = [a_ for a_ in lo_.atoms() if a_ in off_.atoms() and a_.startswith('%')]
                        if p2_ in ('ne', 'ult', 'slt') and len(cur_) == 1 and len(lo_) == 1 and len(hi_) == 1:
                            c_ = lo_[(cur_[0],)] if (cur_[0],) in lo_ else None
                            ka_ = list(hi_)[0]
                            if c_ and len(ka_) == 1 and hi_[ka_] == c_ and (ka_[0] == 'arg0' or re.search(r'\.k$', ka_[0])):
                                cap = True
                for gd_ in Ls_.guards():
                    ats_ = list(gd_.bound.atoms())
                    if gd_.iv in off_.atoms() and gd_.pred in ('slt', 'ult', 'ne') and len(ats_) == 1 and gd_.bound == Poly.atom(ats_[0]) and \
                       (ats_[0] == 'arg0' or re.search(r'\.k$', ats_[0])):
                        cap = True
        sel.append((fname, take_clear, asc, cap))
        if take_clear and asc and cap:
            r.ok(inst + ': takes i iff bit i clear, ascending from 0, capped at k', func=f.name, loc=s.loc)
        else:
            why = []
            if not take_clear: why.append('takes the index when the bit is SET')
            if not asc: why.append('index does not ascend from 0 by 1')
            if not cap: why.append('no cap at k')
            r.fail(inst, func=f.name, sig='selection: ' + '; '.join(why), loc=s.loc, msg='; '.join(why) + ' - row selection and buffer selection disagree')
    r.require_min(3)

    # ---------------- R19d dlsym results
    r = ctx.rule('R19d', 'every dlsym\'ed ISA-L primitive is null-tested before the descriptor can be returned',
                 'a missing symbol must fail create, not crash at first use')
    f = P.fn('isa_l_common_init')
    retblocks = shared.nonnull_return_blocks(f)
    idom = dominators(f)
    syms = [i for i in f.insts() if i.op == 'call' and i.callee == '@dlsym']
    for sc in syms:
        # field that receives it
        fld = None
        held = {sc.res}
        for i in sc.bb.insts[sc.idx:]:
            if i.op == 'store':
                root, steps = access_path(P, f, i.ops[1])
                fl = fields_in_path(steps)
                if fl and fl[-1][0] == 'isa_l_descriptor':
                    fld = fl[-1]; held.add(strip_ptr_casts(f, i.ops[0])); break
        if fld is None:
            # the result may be parked first (a local handle array) and copied into the descriptor later: follow the value
            A_, _s = derived_pointers(f, [sc.res])
            held |= set(A_)
            for i in f.insts():
                if i.op == 'store' and strip_ptr_casts(f, i.ops[0]) in held:
                    root, steps = access_path(P, f, i.ops[1])
                    fl = fields_in_path(steps)
                    if fl and fl[-1][0] == 'isa_l_descriptor':
                        fld = fl[-1]; break
        inst = f'isa_l_common_init: dlsym -> {fld[1] if fld else "?"}'
        if fld is None:
            r.undecided(inst, loc=sc.loc, msg='dlsym result does not reach the descriptor')
            continue
        tested = False
        for b in f.order:
            t = b.insts[-1]
            if t.op == 'br' and len(t.targets) == 2 and t.ops and (b is sc.bb or dominates(idom, sc.bb, b)):
                c = f.defs.get(t.ops[0])
                if c is not None and c.op == 'icmp' and 'null' in c.ops:
                    o = c.ops[0] if c.ops[1] == 'null' else c.ops[1]
                    od = f.defs.get(o)
                    same = strip_ptr_casts(f, o) in held
                    if od is not None and od.op == 'load' and not same:
                        _, st2 = access_path(P, f, od.ops[0])
                        same = fields_in_path(st2)[-1:] == [fld]
                    if same:
                        if True:
                            nulldst = f.blocks[t.targets[0] if c.pred == 'eq' else t.targets[1]]
                            if not any(rb in reachable_from(nulldst) for rb in retblocks):
                                tested = True
        if tested:
            r.ok(inst + ': NULL => init fails', func=f.name, loc=sc.loc)
        else:
            r.fail(inst, func=f.name, sig=f'{fld[1]} not null-checked', loc=sc.loc, msg=f'the symbol stored in {fld[1]} is not tested: a library without it crashes on first use')
    r.require_min(5)

    # ---------------- R19g every helper sees the operation's own erasure list
    r = ctx.rule('R19g', 'decode / reconstruct hand their own missing-index list to every helper that selects rows or builds inverse rows',
                 'survivor selection, inverse and inverse rows must describe the same erasure set: a shortened private list yields rows for the wrong survivors')
    for fname in ('isa_l_decode', 'isa_l_reconstruct'):
        f = P.fn(fname)
        C = Canon(P, f)
        mine = [n for ty, n in f.params if ty == 'i32*']
        if not mine:
            raise AnalysisBroken(f'anchor vanished: {fname} has no missing-index list parameter')
        ml = mine[0]
        for c in [i for i in f.insts() if i.op == 'call' and i.callee in ('@isa_l_get_decode_matrix', '@get_inverse_rows', '@convert_list_to_bitmap', '@get_num_missing_elements')]:
            g = P.fns.get(c.callee)
            lists = [ai for ai, (ty, n) in enumerate(g.params) if ty == 'i32*'] if g is not None else []
            if not lists and g is not None:
                # the helper takes the bitmap of the list instead of the list: the bitmap must be the one of the operation's own list
                for ai, o in enumerate(c.ops[:len(g.params)]):
                    od = f.defs.get(strip_int_casts(f, o))
                    if od is not None and od.op == 'call' and od.callee == '@convert_list_to_bitmap':
                        inst = f'{fname}: {c.callee[1:]} at line {c.line} receives the bitmap of the missing-index list of the operation'
                        if strip_ptr_casts(f, od.ops[0]) == ml:
                            r.ok(inst, func=f.name, loc=c.loc)
                        else:
                            r.fail(inst, func=f.name, sig=f'{c.callee[1:]} given bitmap of {C.val(od.ops[0])[:40]}', loc=c.loc,
                                   msg=f'{c.callee[1:]} is called with the bitmap of {C.val(od.ops[0])} instead of the missing-index list of {fname}: the helpers no longer agree on the erasure set')
            for ai in lists[-1:]:
                inst = f'{fname}: {c.callee[1:]} at line {c.line} receives the missing-index list of the operation'
                if strip_ptr_casts(f, c.ops[ai]) == ml:
                    r.ok(inst, func=f.name, loc=c.loc)
                else:
                    r.fail(inst, func=f.name, sig=f'{c.callee[1:]} given {C.val(c.ops[ai])[:40]}', loc=c.loc,
                           msg=f'{c.callee[1:]} is called with {C.val(c.ops[ai])} instead of the missing-index list of {fname}: the helpers no longer agree on the erasure set')
    r.require_min(6)

    # ---------------- R19f cursors of get_inverse_rows
    r = ctx.rule('R19f', 'get_inverse_rows: both column cursors advance on their own branch; the missing-data row selector is the advancing cursor',
                 'a cursor that stays 0 combines every missing column with the first missing row (wrong parity rebuild for >= 2 missing data)')
    g = P.fn('get_inverse_rows')
    Cg = Canon(P, g)
    # the row combination `to_row[i] ^= gf_mul(val, from_row[i])` is recognised by the call through the gf_mul parameter (the helper
    # mult_and_xor_row is file-local and inlined by the build step, so it does not matter whether the source has it as a function)
    fparams = {n for ty, n in g.params if ty.rstrip().endswith(')*')}
    def is_gf_mul(callee):
        if callee in fparams:
            return True
        d_ = g.defs.get(callee)
        if d_ is not None and d_.op == 'load':
            fl_ = fields_in_path(access_path(P, g, d_.ops[0])[1])
            return bool(fl_) and fl_[-1] == ('isa_l_descriptor', 'gf_mul')
        return False
    calls = [i for i in g.insts() if i.op == 'call' and i.callee and i.callee.startswith('%') and is_gf_mul(i.callee)]
    if not calls:
        raise AnalysisBroken('anchor vanished: get_inverse_rows does not call its gf_mul parameter')
    from ..poly import PolyCtx, Poly
    from ..loops import loops_of, innermost
    pcg = PolyCtx(P, g, Cg)
    LSg = loops_of(P, g, pcg)
    column_loop = [None]
    def _cursor_check_with(L0, rr, ptr_operand, at_block, inst, what, loc):
        """the offset of ptr_operand uses exactly one counter of the innermost loop that starts at 0 and is incremented by one in
        the iterations that pass at_block (and only there is irrelevant: the other branch has its own counter)"""
        enclosing = sorted([l_ for l_ in LSg if at_block in l_.body], key=lambda l_: len(l_.body))
        if L0 is None or L0 not in enclosing:
            rr.fail(inst, func=g.name, sig=f'{what} outside the column loop', loc=loc, msg=f'{what} is not inside the loop over the columns')
            return
        L = L0.via(at_block)
        root, off = L.pc.ptr(ptr_operand)
        # counters / walking pointers of the loops inside the column loop (the row combination) are expressed through their start values
        for Li in enclosing[:enclosing.index(L0)]:
            pit = Li.ptr_at_iteration(root, off)
            if pit is not None:
                root, off = pit
        cands = []
        for phi in L.phis:
            if phi.res in off.atoms():
                init, step = L.recurrence(phi)
                cands.append((phi, init, step))
        walking = [(p, i0, st) for p, i0, st in cands if st is not None and st == Poly.const(1) and i0 is not None and not isinstance(i0, tuple) and i0.is_zero()]
        # the cursor may be kept as a row pointer / byte offset instead of a row number: it then starts at offset 0 and advances
        # by one row (k elements, the bound of the column loop) per column of its kind
        hb = [gd.bound for gd in L0.guards() if gd.block is L0.header]
        for p_, i0, st in cands:
            if st is None or i0 is None:
                continue
            i0p = i0[1] if isinstance(i0, tuple) else i0
            cf, _rest = off.coeff_of(p_.res)
            if cf is None or not i0p.is_zero():
                continue
            if any(cf * st == kb for kb in hb) and (p_, i0, st) not in walking:
                walking.append((p_, i0, st))
        # the cursor may carry the row start with it (`avail = out_off; ... row[avail++] ^= c`): it then starts where the row
        # combination of the other branch puts its destination row, and advances by one
        if not walking:
            row_starts = []
            for xs_ in xor_stores:
                if xs_.bb not in L0.body or not any(from_call(o) for o in g.defs[strip_int_casts(g, xs_.ops[0])].ops):
                    continue
                Lx_ = innermost(LSg, xs_.bb)
                rt_, of_ = (Lx_.pc if Lx_ is not None else pcg).ptr(xs_.ops[1])
                if Lx_ is not None and Lx_ is not L0:
                    pit_ = Lx_.ptr_at_iteration(rt_, of_)
                    if pit_ is not None:
                        from ..loops import T as _T19
                        rt_, of_ = pit_[0], pit_[1].subst(_T19, Poly())
                row_starts.append((rt_, of_))
            for p_, i0, st in cands:
                if st is None or i0 is None or st != Poly.const(1):
                    continue
                i0p = i0[1] if isinstance(i0, tuple) else i0
                cf, rest_ = off.coeff_of(p_.res)
                if cf == Poly.const(1) and rest_ is not None and rest_.is_zero() and L0.invariant(i0p) and any(rt_ == root and of_ == i0p for rt_, of_ in row_starts):
                    walking.append((p_, i0, st))
        # the column index j itself (bounded by k in the header) is not a cursor of its own branch
        hg = {gd.iv for gd in L0.guards() if gd.block is L0.header}
        own = [w for w in walking if w[0].res not in hg]
        if own:
            rr.ok(inst + f': counter {own[0][0].res} starts at 0 and advances by one in this branch', func=g.name, loc=loc, facts={'offset': str(off)})
        elif cands and all(st is not None and st.is_zero() for p_, _, st in cands if p_.res not in hg) and any(p.res not in hg for p, _, _ in cands):
            rr.fail(inst, func=g.name, sig=f'{what}: cursor not advanced in its branch', loc=loc,
                   msg=f'{what} is indexed by a cursor that is not incremented where it is used (offset {off}): every column of this kind lands on the first row/column')
        else:
            rr.fail(inst, func=g.name, sig=f'{what}: offset {str(off)[:50]} has no walking counter', loc=loc,
                   msg=f'{what} has offset {off}: not indexed by a counter that starts at 0 and advances by one with each column of its kind')
    def cursor_check(ptr_operand, at_block, inst, what, loc):
        """try the loop that holds both kinds of columns first; when the two kinds are handled in separate passes (loop fission) each
        use has its own column loop: any enclosing loop in which the offset has a counter that starts at 0 and advances by one"""
        from .c06 import _Buffered
        enclosing = sorted([l_ for l_ in LSg if at_block in l_.body], key=lambda l_: len(l_.body))
        cands = ([column_loop[0]] if column_loop[0] in enclosing else []) + [l_ for l_ in enclosing if l_ is not column_loop[0]]
        first = None
        for L0 in cands:
            buf = _Buffered()
            _cursor_check_with(L0, buf, ptr_operand, at_block, inst, what, loc)
            first = first or buf
            if not buf.fails():
                buf.replay(r)
                return
        if first is None:
            r.fail(inst, func=g.name, sig=f'{what} outside the column loop', loc=loc, msg=f'{what} is not inside the loop over the columns')
        else:
            first.replay(r)

    def from_call(v):
        d_ = g.defs.get(strip_int_casts(g, v))
        return d_ is not None and d_.op == 'call'
    xor_stores = [i for i in g.insts() if i.op == 'store' and g.defs.get(strip_int_casts(g, i.ops[0])) is not None and g.defs[strip_int_casts(g, i.ops[0])].op == 'xor']
    dest_roots = {pcg.ptr(i.ops[1])[0] for i in xor_stores} | {Lx.pc.ptr(i.ops[1])[0] for i in xor_stores for Lx in LSg if i.bb in Lx.body}
    # the column loop: the closest loop that holds both the row combination (gf_mul) and the plain xor of an available column
    plain = [i for i in xor_stores if not any(from_call(o) for o in g.defs[strip_int_casts(g, i.ops[0])].ops)]
    both = sorted([Lx for Lx in LSg if any(c_.bb in Lx.body for c_ in calls) and any(i.bb in Lx.body for i in plain)], key=lambda Lx: len(Lx.body))
    column_loop[0] = both[0] if both else None
    nsel = 0
    for c in calls:
        for a in c.ops:
            d_ = g.defs.get(strip_int_casts(g, a))
            if d_ is not None and d_.op == 'load':
                Lc = innermost(LSg, c.bb)
                rt = (Lc.pc if Lc is not None else pcg).ptr(d_.ops[0])[0]
                if rt in dest_roots:
                    nsel += 1
                    cursor_check(d_.ops[0], c.bb, 'missing-data row selector (the row multiplied through gf_mul)', 'the inverse row selected for a missing data column', c.loc)
    if not nsel:
        r.undecided('missing-data row selector', loc=calls[0].loc, msg='no gf_mul argument is read from the inverse-row buffer')
    # available cursor: xor-store index (l*k) + cursor
    xs = [i for i in xor_stores if not any(from_call(o) for o in g.defs[strip_int_casts(g, i.ops[0])].ops)
          and any(i.bb in Lx.body and any(cc.bb in Lx.body for cc in calls) for Lx in LSg)]
    if not xs:
        r.fail('available-column cursor', func=g.name, sig='no xor-store for available columns', loc=g.mod.src, msg='no store of the form row[cursor] ^= coefficient in the column loop')
    for s_ in xs[:1]:
        cursor_check(s_.ops[1], s_.bb, 'available-column cursor', 'the destination column for an available data column', s_.loc)
    r.require_min(2)

    # ---------------- R19i contracts of the ISA-L calls on the encode side
    r = ctx.rule('R19i', 'encode hands ec_encode_data the whole block and the caller\'s arrays; init expands the tables of the m coding rows (matrix + k*k)',
                 'parity must be computed for every byte of every parity fragment from the coding rows of the generator: a strip-wise call with private cursors, or tables '
                 'expanded from the wrong rows, gives parity that decodes to other data')
    from ..poly import PolyCtx as _PC19i, Poly as _P19i
    def prim_calls(fn, member):
        out = []
        for c_ in fn.insts():
            if c_.op == 'call' and (c_.callee or '').startswith('%'):
                d_ = fn.defs.get(c_.callee)
                if d_ is not None and d_.op == 'load':
                    fl_ = fields_in_path(access_path(P, fn, d_.ops[0])[1])
                    if fl_ and fl_[-1] == ('isa_l_descriptor', member):
                        out.append(c_)
        return out
    fe = P.fn('isa_l_encode')
    ec = prim_calls(fe, 'ec_encode_data')
    if len(ec) != 1:
        r.fail('isa_l_encode: one ec_encode_data call', func=fe.name, sig=f'{len(ec)} ec_encode_data calls in encode', loc=fe.mod.src,
               msg=f'isa_l_encode calls ec_encode_data {len(ec)} times: the stripe is encoded by one call over the whole block')
    for c_ in ec[:1]:
        pn = [n_ for _, n_ in fe.params]
        got = [strip_int_casts(fe, c_.ops[0]), strip_ptr_casts(fe, c_.ops[4]), strip_ptr_casts(fe, c_.ops[5])]
        want = [pn[3], pn[1], pn[2]]
        inst = 'isa_l_encode: ec_encode_data(blocksize, k, m, tables, data, parity) gets the block length and the arrays of the request'
        if got == want:
            r.ok(inst, func=fe.name, loc=c_.loc)
        else:
            Ce = Canon(P, fe)
            r.fail(inst, func=fe.name, sig='ec_encode_data(' + ', '.join(Ce.val(x)[:24] for x in got) + ')', loc=c_.loc,
                   msg=f'isa_l_encode calls ec_encode_data with length {Ce.val(got[0])}, sources {Ce.val(got[1])} and destinations {Ce.val(got[2])} instead of its own '
                       'blocksize, data and parity arguments: pieces of the fragments are encoded through private cursors')
    fi = P.fn('isa_l_common_init')
    pci = _PC19i(P, fi)
    it = prim_calls(fi, 'ec_init_tables')
    if not it:
        r.undecided('isa_l_common_init: ec_init_tables call', loc=fi.mod.src, msg='no call through the ec_init_tables member found')
    for c_ in it:
        kk = pci.val(c_.ops[0])
        root_, off_ = pci.ptr(c_.ops[2])
        inst = 'isa_l_common_init: ec_init_tables(k, m, matrix + k*k, tables)'
        if off_ == kk * kk and not kk.is_zero():
            r.ok(inst, func=fi.name, loc=c_.loc)
        else:
            r.fail(inst, func=fi.name, sig=f'tables expanded from matrix + {str(off_)[:50]}', loc=c_.loc,
                   msg=f'the encode tables are expanded from the generator at offset {off_} instead of k*k = {kk * kk} (the first coding row, behind the k x k identity)')
    r.require_min(2)

    # ---------------- R19h rows are only accumulated into
    r = ctx.rule('R19h', 'get_inverse_rows: inside the row-building loops the rows are only XOR-accumulated (no copy / overwrite of a row)',
                 'a row already holds the contributions of earlier columns: replacing it (memcpy for a coefficient of 1) discards them and the rebuilt parity is wrong')
    from ..loops import loops_of as _lo19
    LS19 = _lo19(P, g, pcg)
    # the loop over the columns of a missing parity row (and the row combination nested in it); the rows of missing data are plain
    # copies of inverse rows, written by an earlier loop
    inloop = set(column_loop[0].body) if column_loop[0] is not None else set()
    roots19 = {r_ for r_ in dest_roots if r_}
    nw19, bad19 = 0, None
    for i in g.insts():
        if i.bb not in inloop:
            continue
        if i.op == 'store':
            Li = innermost(LS19, i.bb)
            rt = (Li.pc if Li is not None else pcg).ptr(i.ops[1])[0]
            if rt in roots19:
                nw19 += 1
                vd = g.defs.get(strip_int_casts(g, i.ops[0]))
                acc = vd is not None and vd.op == 'xor' and any(
                    (g.defs.get(strip_int_casts(g, o)) is not None and g.defs[strip_int_casts(g, o)].op == 'load' and g.defs[strip_int_casts(g, o)].ops[0] == i.ops[1]) for o in vd.ops)
                if not acc:
                    bad19 = bad19 or (i, 'a store that does not combine with the previous content')
        elif i.op == 'call' and (i.callee or '').startswith(('@llvm.memcpy', '@llvm.memset', '@llvm.memmove')):
            Li = innermost(LS19, i.bb)
            rt = (Li.pc if Li is not None else pcg).ptr(i.ops[0])[0]
            if rt in roots19:
                nw19 += 1
                bad19 = bad19 or (i, i.callee[1:].split('.')[1])
    if bad19:
        r.fail('inverse rows are accumulated', func=g.name, sig=f'row overwritten by {bad19[1][:40]}', loc=bad19[0].loc,
               msg=f'inside the loops of get_inverse_rows a row of the result is written by {bad19[1]} (line {bad19[0].line}) instead of being XOR-ed into: '
                   'what earlier columns contributed to that row is lost')
    elif nw19:
        r.ok(f'{nw19} writes into the rows inside the loops, all of the form row[x] ^= ...', func=g.name, loc=g.mod.src)
    else:
        r.undecided('inverse rows are accumulated', loc=g.mod.src, msg='no write into the rows found inside the loops')
    r.require_min(1)

    # ---------------- shared rules on this unit
    r = ctx.rule('R16a', 'ownership typestate of isa_l_common.c: no leak / double free on any path')
    c16.run_r16a(ctx, P, r, only_fn=set(m.functions))
    r.require_min(10)
    r = ctx.rule('R16d', 'isa_l_exit releases what isa_l_common_init acquired')
    shared.rule_exit_mirrors_init(ctx, P, r)
    r.require_min(5)
    r = ctx.rule('R02b', 'ISA-L cones: fallible results are returned or tested')
    chains.propagation_rule(P, r, ['decode', 'reconstruct', 'fragments_needed', 'encode'], ('@backend_isa_l_rs_vand', '@backend_isa_l_rs_cauchy'), 'chain')
    r.require_min(2)
    rc = ctx.rule('R06c', 'isa_l_min_fragments: both lists influence the output')
    rd = ctx.rule('R06d', 'isa_l_min_fragments: terminator and return structure')
    c06.rule_planners(ctx, P, rc, rd, ('@backend_isa_l_rs_vand',))
    rc.require_min(2); rd.require_min(4)
    r = ctx.rule('R06m', 'isa_l_min_fragments: the first k indexes that are neither requested nor excluded; an error iff fewer than k remain',
                 'the ISA-L planner must give the same guarantee as the built-in codes, also for overlapping / duplicated lists')
    c06.rule_rs_planner_values(ctx, P, r, ('@backend_isa_l_rs_vand', '@backend_isa_l_rs_cauchy'))
    r.require_min(1)
    r = ctx.rule('R13d', 'ISA-L word size is a positive multiple of 8 before use; element size equals it (R08a under C08)')
    shared.rule_isal_w(ctx, P, r)
    r.require_min(1)
    r = ctx.rule('R12c', 'op tables complete and self-consistent')
    shared.rule_op_tables(ctx, P, r)
    r.require_min(20)

    r = ctx.rule('R06f', 'bitmaps built from index lists are consumed only through single-bit tests',
                 'convert_list_to_bitmap sign-extends at index 31: a population count or whole-word comparison miscounts stripes that use fragment 31')
    shared.rule_list_bitmaps(ctx, P, r)
    r.require_min(1)
