"""C13 invalid arguments and configurations: null checks dominate dereferences (R13a), descriptor look-ups are tested
(R13b), ranges (R13c), create-time shapes (R13d)."""
import re
from .. import api, callgraph, nullcheck, effects
from ..vflow import Canon, derived_pointers, strip_int_casts, strip_ptr_casts, access_path, fields_in_path
from ..guards import Facts, dominating_edges
from ..retval import returns_via_edge, all_negative, all_nonzero_const
from ..build import AnalysisBroken
from ..ir import INT
from . import shared

EXPLANATION = (
    "Static rules over every public entry point (the prototypes of erasurecode.h, 16 today) of the current tree. R13a: for "
    "every pointer parameter, every dereference - in the function, in its shared cleanup blocks, or in a callee that "
    "dereferences the corresponding parameter unchecked (interprocedural summaries, external contracts) - is dominated by "
    "an edge on which the parameter is non-null, and the null edge can only return negative constants. R13b: every result "
    "of the descriptor look-up is null-tested before use and the null edge returns an error. R13c: destination index, "
    "fragment length and fragment count carry dominating range checks at the first consumer. R13d: the conditions that "
    "dominate the instance allocation imply k>=1, m>=0, k+m<=32, id<EC_BACKENDS_MAX; the RS back end additionally m>=1, "
    "ISA-L a whole-byte word size >= 8; R13e every front-end division has a divisor built from k and w/8 only. "
    "NOT decided: absence of every arithmetic/memory fault on accepted instances (needs value ranges of all sizes).")

LOOKUP = '@liberasurecode_backend_instance_get_by_desc'
# null is tolerated by design (frozen, one reason each); the dereference obligation still applies
NULL_TOLERATED = {
    '@liberasurecode_encode_cleanup': 'cleanup API: NULL arrays are accepted like free(NULL); the suite asserts rc == 0',
    '@is_invalid_fragment': 'boolean verdict API: 1 means invalid, there is no negative code',
}
# the descriptor allocator probes the registry for a *free* value: a null look-up result is its success case (see R14a)
LOOKUP_PROBES = {'@liberasurecode_backend_alloc_desc'}

def rule_lookups(ctx, P, r):
    NC = nullcheck.NullCheck(P)
    P.fn(LOOKUP)
    # the public look-up and any helper it merely wraps
    lookups = {LOOKUP}
    lf = P.fn(LOOKUP)
    for i in lf.insts():
        if i.op == 'call' and i.callee in P.fns and i.res:
            rets = [x for x in lf.insts() if x.op == 'ret']
            if rets and rets[0].ops and rets[0].ops[0] == i.res:
                lookups.add(i.callee)
    for f in P.fns.values():
        for ins in f.insts():
            if ins.op == 'call' and ins.callee in lookups and ins.res and f.name not in LOOKUP_PROBES and f.name not in lookups:
                bad, nsites = NC.unchecked(f, [ins.res])
                inst = f'{f.name}: look-up at line {ins.line}'
                if bad:
                    b0, how = bad[0]
                    r.fail(inst, func=f.name, sig='look-up result used unchecked', loc=b0.loc,
                           msg=f'result of the descriptor look-up is dereferenced without a dominating null test ({how})')
                    continue
                A, _ = derived_pointers(f, [ins.res])
                ne = nullcheck.null_edges(f, A)
                if nsites and not ne:
                    r.fail(inst, func=f.name, sig='look-up result never tested', loc=ins.loc, msg='no null test on the look-up result')
                    continue
                okret = True
                for (s, d) in ne:
                    vals = returns_via_edge(f, s, d)
                    want_neg = f.name != '@is_invalid_fragment'
                    if not (all_negative(vals) if want_neg else all_nonzero_const(vals)):
                        okret = False
                        r.fail(inst, func=f.name, sig='unknown descriptor not refused', loc=s.insts[-1].loc,
                               msg=f'on the unknown-descriptor edge the function may return {sorted(map(str, vals))}')
                if okret:
                    r.ok(inst, func=f.name, loc=ins.loc, facts={'deref_sites': nsites})

def _below_nonnull_prefix(P, fn, idx, block):
    """idx < n holds at `block`, where n is the exit value of a scan `n = 0; while (ec_backends_supported[n] != NULL) n++`:
    every entry below n was seen non-NULL by that scan"""
    from ..cfg import dominators, dominates
    from ..nullcheck import nonnull_edges
    F = Facts(P, fn, block)
    idom = None
    for bound, strict, _ in F.upper_bound_sym(F.norm(idx)):
        if not strict:
            continue
        for d in fn.insts():
            if d.op != 'phi' or not d.ty.startswith('i') or F.norm(d.res) != bound or len(d.incoming) != 2:
                continue
            init = [v for v, _ in d.incoming if INT.match(v)]
            step = [(v, lab) for v, lab in d.incoming if not INT.match(v)]
            if init != ['0'] or len(step) != 1:
                continue
            sd = fn.defs.get(step[0][0])
            if sd is None or sd.op != 'add' or sorted(strip_int_casts(fn, o) for o in sd.ops) != sorted(['1', d.res]):
                continue
            # the latch is entered only over an edge on which table[n] is known non-NULL
            entries = [l for l in fn.insts() if l.op == 'load' and (fn.defs.get(l.ops[0]) is not None) and fn.defs[l.ops[0]].op == 'getelementptr'
                       and fn.defs[l.ops[0]].ops[0] == '@ec_backends_supported' and strip_int_casts(fn, fn.defs[l.ops[0]].ops[-1]) == d.res]
            idom = idom or dominators(fn)
            latch = fn.blocks[step[0][1]]
            for l in entries:
                A, _ = derived_pointers(fn, [l.res])
                for (sb, db) in nonnull_edges(fn, A):
                    if len(db.preds) == 1 and (db is latch or dominates(idom, db, latch)):
                        return True
    return False

def run(ctx):
    P = ctx.program()
    cg = callgraph.get(P)
    pub = api.public_api(ctx.root)
    NC = nullcheck.NullCheck(P)

    # ---------------- R13a
    r = ctx.rule('R13a', 'pointer parameters of public entry points: null test dominates every dereference; null => negative return',
                 'a NULL argument must be refused with an error, never dereferenced (also not in the shared out: cleanup)')
    for a in pub:
        f = P.fn(a['name'])
        for pi, (pty, pn) in enumerate(f.params):
            if not pty.endswith('*'):
                continue
            cname = a['params'][pi][0] if pi < len(a['params']) else f'#{pi}'
            bad, nsites = NC.unchecked(f, [pn])
            inst = f'{a["name"]}({cname})'
            if nsites == 0:
                r.ok(inst + ': never dereferenced', func=f.name, trivial=True)
                continue
            if bad:
                ins, how = bad[0]
                r.fail(inst, func=f.name, sig=f'param {cname} dereferenced unchecked: {how.split(" ")[0]}', loc=ins.loc,
                       msg=f'{cname} can be dereferenced while NULL ({how}); {len(bad)} of {nsites} dereference sites lack a dominating null test',
                       facts={'sites': [(i.loc, h) for i, h in bad[:6]]})
                continue
            # null edge must return a negative constant
            A, _ = derived_pointers(f, [pn])
            ne = nullcheck.null_edges(f, A)
            badret = None
            for (s, d) in ne:
                vals = returns_via_edge(f, s, d)
                if f.name in NULL_TOLERATED:
                    if not all(isinstance(v, int) for v in vals):
                        badret = (s, vals)
                elif not all_negative(vals):
                    badret = (s, vals)
            if badret:
                s, vals = badret
                r.fail(inst, func=f.name, sig=f'null {cname} does not return an error', loc=s.insts[-1].loc,
                       msg=f'on the edge where {cname} is NULL the function may return {sorted(map(str, vals))} (needs a negative code)')
            else:
                r.ok(inst, func=f.name, loc=f'{f.mod.src}:{list(f.insts())[0].line}', facts={'deref_sites': nsites, 'null_edges': len(ne)})
    r.require_min(15, 'pointer parameters')

    # ---------------- R13b
    r = ctx.rule('R13b', 'descriptor look-up result is null-tested before use; unknown descriptor => error',
                 'a destroyed/unknown descriptor must be refused by every entry point')
    rule_lookups(ctx, P, r)
    r.require_min(11, 'descriptor look-ups')

    # ---------------- R13c ranges
    r = ctx.rule('R13c', 'destination index, fragment length and fragment count are range-checked before the first consumer',
                 'out-of-range values index arrays / read short buffers')
    shared.rule_dest_range(ctx, P, r)
    shared.rule_fragment_len(ctx, P, r)
    shared.rule_num_fragments(ctx, P, r)
    r.require_min(5)

    # ---------------- R13d shapes
    r = ctx.rule('R13d', 'create-time shape checks: k>=1, m>=0, k+m<=32, id<EC_BACKENDS_MAX; RS m>=1; ISA-L w whole bytes >= 8',
                 'an accepted shape outside these bounds divides by zero or over-reads matrices')
    shared.rule_create_shapes(ctx, P, r)
    r.require_min(6)

    # ---------------- R13i the table of supported backends is indexed below EC_BACKENDS_MAX
    r = ctx.rule('R13i', 'an entry of ec_backends_supported[] is dereferenced only for an index below EC_BACKENDS_MAX (or after a NULL test of the entry)',
                 'the table has EC_BACKENDS_MAX entries and a NULL terminator: index EC_BACKENDS_MAX reads the terminator and dereferences NULL')
    from ..guards import upper_bound_at as _ub13
    ids13 = {}
    for m_ in P.mods:
        ids13.update(m_.enumerators('EC_BACKENDS_MAX'))
    bmax = ids13.get('EC_BACKENDS_MAX')
    if bmax is None:
        raise AnalysisBroken('anchor vanished: enumerator EC_BACKENDS_MAX')
    NC13 = nullcheck.NullCheck(P)
    n13 = 0
    for fn in P.fns.values():
        if not fn.mod.src.startswith('src/erasurecode'):
            continue
        for ld in fn.insts():
            if ld.op != 'load' or not ld.ty or not ld.ty.endswith('*'):
                continue
            gp_ = fn.defs.get(ld.ops[0])
            if gp_ is None or gp_.op != 'getelementptr' or gp_.ops[0] != '@ec_backends_supported' or INT.match(gp_.ops[-1]):
                continue
            n13 += 1
            idx = strip_int_casts(fn, gp_.ops[-1])
            bad, nsites = NC13.unchecked(fn, [ld.res])
            # the address of a member handed to a callee (`entry->common.name` as a %s argument) is a use of the entry as well
            A13, _ = derived_pointers(fn, [ld.res])
            offs = {g_.res for g_ in fn.insts() if g_.op == 'getelementptr' and g_.ops[0] in A13}
            O13, _ = derived_pointers(fn, list(offs)) if offs else (set(), None)
            from ..nullcheck import nonnull_edges as _nne13
            guarded = set()
            for (sb, db) in _nne13(fn, A13):
                from ..cfg import reachable_from as _rf13
                guarded |= _rf13(db)
            for u in fn.insts():
                ops_ = u.ops if u.op != 'phi' else [x for x, _ in u.incoming]
                if u.op in ('call', 'phi') and any(isinstance(o, str) and o in O13 for o in ops_) and not (u.callee or '').startswith('@llvm.dbg') and u.bb not in guarded:
                    bad = list(bad) + [(u, 'member address handed on')]
            inst = f'{fn.name}: ec_backends_supported[index] at line {ld.line}'
            # the slot itself must exist: 0 <= index <= EC_BACKENDS_MAX (the terminator) in the unsigned reading the subscript gets
            Fi = Facts(P, fn, ld.bb)
            ei = Fi.norm(idx)
            ub_u = [int(b_) - (1 if pr_ == 'ult' else 0) for pr_, a_, b_ in Fi.facts if a_ == ei and INT.match(b_) and pr_ in ('ult', 'ule', 'eq')] + \
                   [int(a_) - (1 if pr_ == 'ugt' else 0) for pr_, a_, b_ in Fi.facts if b_ == ei and INT.match(a_) and pr_ in ('ugt', 'uge')]
            ub_s = _ub13(P, fn, idx, ld.bb)
            from ..guards import lower_bound_at as _lb13
            lo_s = _lb13(P, fn, idx, ld.bb)
            idd = fn.defs.get(idx)
            counts_up = idd is not None and idd.op == 'phi' and all(
                (INT.match(v_) and int(v_) >= 0) or (fn.defs.get(v_) is not None and fn.defs[v_].op == 'add' and idx in fn.defs[v_].ops and '1' in fn.defs[v_].ops) for v_, _ in idd.incoming)
            in_table = (ub_u and min(ub_u) <= bmax) or (ub_s is not None and ub_s <= bmax and ((lo_s is not None and lo_s >= 0) or counts_up)) or \
                       (counts_up and (_below_nonnull_prefix(P, fn, idx, ld.bb) or not bad))
            if not in_table:
                r.fail(inst + ' exists', func=fn.name, sig=f'backend table subscript unbounded (unsigned <= {min(ub_u) if ub_u else None}, signed <= {ub_s}, >= {lo_s})', loc=ld.loc,
                       msg=f'ec_backends_supported[index] is read at line {ld.line} with an index that is not confined to 0 .. {bmax}: known bounds are unsigned <= '
                           f'{min(ub_u) if ub_u else "nothing"}, signed <= {ub_s}, >= {lo_s} - an id with the top bit set passes a signed test and indexes far outside the table')
                continue
            if not bad:
                r.ok(inst + (': entry tested for NULL before use' if nsites else ': entry not dereferenced here'), func=fn.name, loc=ld.loc)
                continue
            ubs = [_ub13(P, fn, idx, ld.bb)]        # what is known about the index where the entry is fetched
            if ubs[0] is None and _below_nonnull_prefix(P, fn, idx, ld.bb):
                r.ok(inst + ': index below the length of the non-NULL prefix counted by a scan of the same table', func=fn.name, loc=ld.loc)
                continue
            if all(u is not None and u <= bmax - 1 for u in ubs):
                r.ok(inst + f': index <= {bmax - 1} where the entry is dereferenced', func=fn.name, loc=ld.loc)
            else:
                r.fail(inst, func=fn.name, sig=f'backend table entry dereferenced with index bound {ubs}', loc=bad[0][0].loc,
                       msg=f'ec_backends_supported[index] is used at line {bad[0][0].line or ld.line} although the index is only known to be <= {ubs[0]} '
                           f'(needs <= {bmax - 1}): index {bmax} selects the NULL terminator')
    if not n13:
        r.undecided('backend table subscripts', loc='src/erasurecode.c', msg='no variable subscript of ec_backends_supported found')
    r.require_min(2)

    # ---------------- R13j counts are signed
    r = ctx.rule('R13j', 'decode / reconstruct: a loop bounded by the caller\'s fragment count compares it as a signed value (or only after the count is known to be non-negative)',
                 'a negative count widened to size_t is about 2^64: the loop walks off the end of the caller\'s array instead of not running')
    from ..poly import PolyCtx as _PC13j, Poly as _P13j
    from ..loops import loops_of as _lo13j
    from ..guards import PolyFacts as _PF13j
    nj13 = 0
    for fname in ('liberasurecode_decode', 'liberasurecode_reconstruct_fragment'):
        fj, cpj = shared.param_by_name(ctx, P, fname, 'num_fragments')
        pcj = _PC13j(P, fj)
        want_atom = f'arg{cpj}'
        for Lj in _lo13j(P, fj, pcj):
            for (xb, xs) in Lj.exits:
                tt = xb.insts[-1]
                cj = fj.defs.get(tt.ops[0]) if tt.op == 'br' and tt.ops else None
                from ..guards import implied_atoms as _ia13j
                for at_, tv_ in (_ia13j(fj, tt.ops[0], True) + _ia13j(fj, tt.ops[0], False)) if cj is not None else []:
                    if (at_.ty or '').endswith('*'):
                        continue
                    sides = [pcj.val(o) for o in at_.ops[:2]]
                    if not any(want_atom in p_.atoms() for p_ in sides):
                        continue
                    nj13 += 1
                    inst = f'{fname}: loop bound on num_fragments at line {at_.line}'
                    if at_.pred[0] != 'u':
                        r.ok(inst + ' is a signed comparison', func=fj.name, loc=at_.loc)
                        continue
                    PF = _PF13j(P, fj, Lj.header, pc=pcj)
                    for ka in {a_ for q_ in PF.ge for a_ in q_.atoms() if a_.endswith('.uargs.k')}:
                        PF.ge.append(_P13j.atom(ka) - _P13j.const(1))          # every instance has k >= 1 (R13d)
                    if PF.ge0(_P13j.atom(want_atom)):
                        r.ok(inst + ': unsigned, but the count is known to be non-negative there', func=fj.name, loc=at_.loc)
                    else:
                        r.fail(inst, func=fj.name, sig='fragment count compared as an unsigned value', loc=at_.loc,
                               msg=f'{fname} bounds a loop over the caller\'s fragments with an unsigned comparison against num_fragments (line {at_.line}) and nothing '
                                   'before it rules out a negative count: -1 becomes 2^64 - 1 iterations over an array of num_fragments pointers')
    r.require_min(2)

    # ---------------- R13k shift counts stay below the width
    r = ctx.rule('R13k', 'no 32-bit shift by the number of fragments: a shift count built as the sum of two count parameters (k + m, up to 32) is out of range for the widest stripe',
                 '(1U << (k + m)) - 1 is the mask of all fragments only up to 31 fragments: at k + m == 32 the shift is undefined (0 on x86-64) and the mask is empty')
    from ..chains import OUT_OF_SCOPE as _OOS13k
    nk13 = 0
    for fn in P.fns.values():
        if not fn.order or _OOS13k.search(fn.mod.src):
            continue
        pck = None
        for sh in fn.insts():
            if sh.op not in ('shl', 'lshr', 'ashr') or sh.ty != 'i32' or INT.match(sh.ops[1]):
                continue
            pck = pck or _PC13j(P, fn)
            amt = pck.val(sh.ops[1])
            nk13 += 1
            ats = sorted(amt.atoms())
            if len(amt) == 2 and len(ats) == 2 and all(re.match(r'^arg\d+$', a_) for a_ in ats) and all(v_ == 1 for v_ in amt.values()) and \
               all(fn.params[int(a_[3:])][0] == 'i32' for a_ in ats):
                r.fail(f'{fn.name}: shift count at line {sh.line}', func=fn.name, sig=f'32-bit shift by {amt}', loc=sh.loc,
                       msg=f'{fn.name} shifts a 32-bit value by {amt}, the sum of two count parameters: for a stripe of 32 fragments (the widest the library accepts) '
                           'the count equals the width of the operand')
    r.ok(f'{nk13} variable 32-bit shifts in scope, none by the sum of two count parameters', func='<all units>', loc='src')
    r.require_min(1)

    # ---------------- R13e divisors
    r = ctx.rule('R13e', 'front-end divisions: divisor built only from k and the byte word size',
                 'a zero divisor is a SIGFPE on an accepted instance')
    shared.rule_divisors(ctx, P, r)
    r.require_min(3)

    # ---------------- R05c XOR shape whitelist (shared with C05)
    from . import c05
    c05.rule_whitelist(ctx, P)
    ctx.borrow('c16', ['R16a'], 'a refused create keeps nothing allocated')
    # ---------------- R13g output parameters are never read before the call itself wrote them
    r = ctx.rule('R13g', 'a public entry point reads *output-parameter only after it stored to it on every path to that read',
                 'a refused call that frees / dereferences what the caller\'s output variable held on entry touches memory the library was never given')
    from ..cfg import dominators as _dm, dominates as _dom
    from .. import api as _api
    pubs = {'@' + a['name'] for a in _api.public_api(ctx.root)}
    nro = 0
    for name in sorted(pubs):
        fn = P.fns.get(name)
        if fn is None:
            continue
        idom = _dm(fn)
        for pi, (pty, pn) in enumerate(fn.params):
            if not (pty.endswith('**') or pty in ('i64*', 'i32*') and pn in ()):
                continue
            if pty != 'i8***' and not pty.endswith('**'):
                continue
            # only pure outputs: parameters the function stores to
            stores = [i for i in fn.insts() if i.op == 'store' and strip_ptr_casts(fn, i.ops[1]) == pn]
            loads = [i for i in fn.insts() if i.op == 'load' and strip_ptr_casts(fn, i.ops[0]) == pn]
            if not stores or not loads or pty not in ('i8***', 'i8**'):
                continue
            for ld in loads:
                nro += 1
                ok = any((st.bb is ld.bb and st.idx < ld.idx) or (st.bb is not ld.bb and _dom(idom, st.bb, ld.bb)) for st in stores)
                inst = f'{name}: read of *{pn} (output parameter {pi}) at line {ld.line}'
                if ok:
                    r.ok(inst + ' is dominated by a store of the function itself', func=name, loc=ld.loc)
                else:
                    r.fail(inst, func=name, sig=f'output parameter {pi} read before it is written', loc=ld.loc,
                           msg=f'{name} reads *{pn} at line {ld.line} on a path on which it has not stored to it: the value is whatever the caller\'s variable held '
                               '(a stale pointer from an earlier call, or garbage) and is handed to the cleanup / free code')
    r.require_min(2)

