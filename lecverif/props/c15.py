"""C15 purity: inputs untouched (R15a/b/e), deterministic padding (R15c), no hidden state (R15d)."""
import re
from .. import callgraph, effects, api, own
from ..vflow import Canon, strip_int_casts, strip_ptr_casts, access_path, fields_in_path, derived_pointers, const_int
from ..guards import Facts
from ..cfg import reaches_without, reachable_from
from ..build import AnalysisBroken
from . import shared, c09

EXPLANATION = (
    "R15a: the validation entry points and the metadata query have no write effect on the fragment (transitive effect "
    "analysis), and encode has none on orig_data. R15b: prepare_fragments_for_decode never frees or writes through a pointer "
    "loaded from data[]/parity[] (unaligned inputs are copied, originals kept); frees of array elements in decode/reconstruct "
    "are guarded by realloc_bm (R16b). R15e: the built-in RS decoder writes only into fragments flagged missing - every "
    "region write to data[x] / parity[y] is control-dependent on _missing[x] / _missing[k+y]; reconstruct writes only the "
    "destination. R15c: every fragment buffer comes from get_aligned_buffer16, whose memset(buf, 0, size) uses the allocation "
    "size and post-dominates the successful allocation, so padding is deterministic. R15d: no function reachable from encode, "
    "decode, reconstruct, the queries or validation stores to a global or function-local static (whole-cone effect analysis, "
    "in-scope backends), and the only environment variable read is LIBERASURECODE_WRITE_LEGACY_CRC. NOT decided: in-bounds "
    "reads; write-freedom of the XOR/ISA-L decoders with respect to caller fragments in general (only index reasoning separates "
    "caller buffers from library buffers there); determinism across threads beyond R15d/C18.")

OPS_ENTRIES = ('liberasurecode_encode', 'liberasurecode_decode', 'liberasurecode_reconstruct_fragment', 'liberasurecode_fragments_needed',
               'liberasurecode_get_fragment_metadata', 'is_invalid_fragment', 'liberasurecode_verify_stripe_metadata',
               'liberasurecode_get_aligned_data_size', 'liberasurecode_get_minimum_encode_size', 'liberasurecode_get_fragment_size',
               'liberasurecode_encode_cleanup', 'liberasurecode_decode_cleanup')

def rule_zero_fill(ctx, P):
    # ---------------- R15c
    r = ctx.rule('R15c', 'fragment buffers are zero-filled over their whole allocation size',
                 'padding bytes feed parity and checksums: uninitialised padding makes output depend on heap history')
    from . import shared as _sh
    for an in ('get_aligned_buffer16', 'alloc_fragment_buffer'):
        g = P.fn(an)
        az = _sh.aligned_zero_alloc(P, g)
        other = [i for i in g.insts() if i.op == 'call' and i.callee in ('@malloc', '@calloc', '@realloc')]
        if az is None:
            if an == 'get_aligned_buffer16':
                raise AnalysisBroken('anchor vanished: get_aligned_buffer16 does not allocate')
            r.fail('alloc_fragment_buffer allocator', func=g.name, sig='other allocator', loc=g.mod.src, msg='fragment buffers do not (only) come from the zero-filling allocator')
        elif other:
            r.fail(f'{an} allocator', func=g.name, sig='other allocator', loc=other[0].loc, msg='fragment buffers do not (only) come from the zero-filling allocator')
        elif az['zeroed']:
            r.ok(f'{an}: memset(buf, 0, size) with the allocation size on every successful path ({az["how"]})', func=g.name, loc=az['site'].loc)
        else:
            r.fail(f'{an} zero fill', func=g.name, sig='buffer not cleared over its allocation size', loc=az['site'].loc,
                   msg='the buffer is not cleared over its full size on every path')
    # every producer of fragment buffers on the encode/decode paths uses alloc_fragment_buffer
    for fname in ('prepare_fragments_for_encode', 'prepare_fragments_for_decode'):
        h = P.fn(fname)
        direct = [i for i in h.insts() if i.op == 'call' and i.callee in ('@malloc', '@calloc', '@posix_memalign')]
        if direct:
            r.fail(f'{fname}: fragment buffers', func=h.name, sig=f'direct {direct[0].callee}', loc=direct[0].loc, msg=f'{fname} allocates with {direct[0].callee} instead of alloc_fragment_buffer')
        else:
            r.ok(f'{fname}: buffers come from alloc_fragment_buffer', func=h.name, loc=h.mod.src)
    r.require_min(4)


def run(ctx):
    P = ctx.program()
    cg = callgraph.get(P)
    E = effects.get(P)
    O = own.get(P)

    # ---------------- R15a
    r = ctx.rule('R15a', 'read-only inputs: validation / metadata query do not write the fragment; encode does not write orig_data',
                 'callers keep fragments on read-only mappings and reuse them after a failed validation')
    targets = [('is_invalid_fragment_header', 0), ('liberasurecode_get_fragment_metadata', 0), ('is_invalid_fragment', 1),
               ('liberasurecode_verify_stripe_metadata', 1), ('liberasurecode_encode', 1), ('prepare_fragments_for_encode', 3)]
    for fname, pi in targets:
        g = P.fn(fname)
        wit = E.writes_through('@' + fname, pi, deep=True)
        inst = f'{fname}(param {pi}) has no write effect'
        if wit:
            r.fail(inst, func=g.name, sig=f'writes through param {pi}: {wit[0][2][:60]}', loc=wit[0][1], msg=f'{fname} may write to its input: {wit[0][2]} at {wit[0][1]}')
        else:
            r.ok(inst, func=g.name, loc=g.mod.src)
    r.require_min(6)

    # ---------------- R15b
    r = ctx.rule('R15h', 'decode / reconstruct / fragments_needed never store into the arrays the caller passes as input (the fragment list, the index lists)',
                 'the list of fragments is the caller\'s: compacting it in place loses pointers the caller still has to free and faults on a read-only list')
    for fname, pnames in (('liberasurecode_decode', ('available_fragments',)), ('liberasurecode_reconstruct_fragment', ('available_fragments',)),
                          ('liberasurecode_fragments_needed', ('fragments_to_reconstruct', 'fragments_to_exclude'))):
        for pname in pnames:
            fx, pix = shared.param_by_name(ctx, P, fname, pname)
            Ax, _ = derived_pointers(fx, [fx.params[pix][1]])
            # direct element pointers only: what the elements point to is covered by R15a / R09c
            wr = [i for i in fx.insts() if (i.op == 'store' and i.ops[1] in Ax) or
                  (i.op == 'call' and (i.callee or '').startswith(('@llvm.memcpy', '@llvm.memset', '@llvm.memmove')) and i.ops[0] in Ax)]
            inst = f'{fname}: no store into {pname}[]'
            if wr:
                r.fail(inst, func=fx.name, sig=f'store into the input array {pname}', loc=wr[0].loc,
                       msg=f'{fname} writes into the caller\'s {pname} array (line {wr[0].line}): an input is modified')
            else:
                r.ok(inst, func=fx.name, loc=fx.mod.src)
    r.require_min(4)
    r = ctx.rule('R15b', 'prepare_fragments_for_decode never frees or writes through caller fragments; it only replaces array slots',
                 'the caller still owns (and later frees / reuses) the buffers it passed in')
    f = P.fn('prepare_fragments_for_decode')
    C = Canon(P, f)
    for arr in [p[1] for p in f.params if p[0] == 'i8**'][:2]:
        A, _ = derived_pointers(f, [arr])
        elems = {i.res for i in f.insts() if i.op == 'load' and i.ops[0] in A and i.ty == 'i8*'}
        EA, _ = derived_pointers(f, list(elems), through_phi=True)
        bad = []
        for i in f.insts():
            if i.op == 'store' and i.ops[1] in EA:
                bad.append((i, 'store through a caller fragment'))
            elif i.op == 'call':
                for ai, a in enumerate(i.ops):
                    if a in EA:
                        for cal in cg.callees(f, i):
                            if ai in O.frees.get(cal, ()):
                                bad.append((i, f'{cal} frees it'))
                            elif E.writes_through(cal, ai, deep=False):
                                bad.append((i, f'{cal} writes through it'))
        inst = f'prepare_fragments_for_decode: elements of {C.val(arr)} are only read'
        if bad:
            i, why = bad[0]
            r.fail(inst, func=f.name, sig=why[:80], loc=i.loc, msg=f'a fragment pointer taken from the caller\'s array is modified: {why}')
        else:
            r.ok(inst, func=f.name, loc=f.mod.src, facts={'element_loads': len(elems)})
    r.require_min(2)

    # ---------------- R15e RS decoder writes only missing fragments
    r = ctx.rule('R15e', 'built-in RS decode writes data[x] / parity[y] only under _missing[x] / _missing[k+y]; reconstruct writes only the destination',
                 'a survivor passed in aligned is handed to the backend uncopied: writing it corrupts the caller\'s fragment')
    for fname in ('liberasurecode_rs_vand_decode', 'liberasurecode_rs_vand_reconstruct'):
        cands = [m.functions.get('@' + fname) for m in P.mods if m.src == 'src/builtin/rs_vand/liberasurecode_rs_vand.c']
        cands = [x for x in cands if x is not None]
        if not cands:
            raise AnalysisBroken(f'anchor vanished: built-in {fname}')
        g = cands[0]
        Cg = Canon(P, g)
        data, parity, kp = g.params[1][1], g.params[2][1], 'arg3'
        from ..poly import PolyCtx
        pcg = PolyCtx(P, g, Cg)
        Kp = pcg.val(g.params[3][1])
        n = 0
        for c in g.insts():
            if c.op != 'call':
                continue
            for ai, a in enumerate(c.ops):
                d = g.defs.get(strip_ptr_casts(g, a)) if isinstance(a, str) else None
                if d is None or d.op != 'load':
                    continue
                gp = g.defs.get(d.ops[0])
                if gp is None or gp.op != 'getelementptr' or strip_ptr_casts(g, gp.ops[0]) not in (data, parity):
                    continue
                writes = any(E.writes_through(cal, ai, deep=False) for cal in cg.callees(g, c))
                if not writes:
                    continue
                n += 1
                role = 'data' if strip_ptr_casts(g, gp.ops[0]) == data else 'parity'
                # element index and flag index as polynomial forms: independent of how the arrays / the flag array are walked or re-based
                eroot, eoff = pcg.ptr(d.ops[0])
                idxp = PolyCtx.div(eoff, 8)
                idx = str(idxp)
                F = Facts(P, g, c.bb)
                flagidx = []
                for raw, truth in F.raw:
                    if raw.op == 'icmp' and '0' in raw.ops and ((raw.pred == 'ne') == truth) and raw.pred in ('eq', 'ne'):
                        ld = g.defs.get(strip_int_casts(g, raw.ops[0] if raw.ops[1] == '0' else raw.ops[1]))
                        if ld is not None and ld.op == 'load':
                            froot, foff = pcg.ptr(ld.ops[0])
                            if froot.startswith('@malloc('):
                                flagidx.append(PolyCtx.div(foff, 4))
                inst = f'{fname}: write to {role}[{idx}] at line {c.line}'
                if fname.endswith('_reconstruct'):
                    destp = pcg.val(g.params[6][1])
                    ok = (role == 'data' and idxp == destp) or (role == 'parity' and idxp == destp - Kp)
                    if ok:
                        r.ok(inst + ': the destination', func=g.name, loc=c.loc)
                    else:
                        r.fail(inst, func=g.name, sig=f'reconstruct writes {role}[{idx}]', loc=c.loc, msg=f'reconstruct writes {role}[{idx}], not the destination fragment')
                    continue
                want = idxp if role == 'data' else idxp + Kp
                if any(z == want for z in flagidx):
                    r.ok(inst + f' under _missing[{want}]', func=g.name, loc=c.loc)
                else:
                    shown = [str(z) for z in flagidx]
                    r.fail(inst, func=g.name, sig=f'{role}[{idx}] written under _missing{shown}', loc=c.loc,
                           msg=f'{role}[{idx}] is (re)computed when _missing{shown} is set: the flag tested is not the one of the fragment written, '
                               'so a supplied fragment can be overwritten')
        if n == 0:
            r.undecided(f'{fname}: region writes', msg='no write through data[]/parity[] elements found')
    r.require_min(3)

    rule_zero_fill(ctx, P)

    # ---------------- R15d
    r = ctx.rule('R15d', 'no global / static is written from the operation cones; the only getenv is LIBERASURECODE_WRITE_LEGACY_CRC',
                 'hidden state makes encode output depend on call history and breaks thread safety')
    roots = ['@' + n for n in OPS_ENTRIES]
    for n in roots:
        P.fn(n)
    cone = set()
    st = list(roots)
    while st:
        n = st.pop()
        if n in cone or n not in P.fns:
            continue
        if re.search(r'jerasure|shss|phazrio|alg_sig', P.fns[n].mod.src):
            continue
        cone.add(n)
        g = P.fns[n]
        for i in g.insts():
            if i.op == 'call':
                st += cg.callees(g, i)
    # locks are shared state by design: exclude the lock objects themselves
    nacc = 0
    for n in sorted(cone):
        g = P.fns[n]
        for ins, glob, kind in E.global_accesses(g):
            nacc += 1
            if kind == 'store' and 'rwlock' not in glob and 'mutex' not in glob:
                r.fail(f'{n} writes {glob}', func=n, sig=f'store to {glob}', loc=ins.loc, msg=f'{n} (reachable from the operation entry points) writes the global/static {glob}')
        for i in g.insts():
            if i.op == 'call' and i.callee == '@getenv':
                Cg2 = Canon(P, g)
                nm = Cg2.val(i.ops[0])
                if nm == '"LIBERASURECODE_WRITE_LEGACY_CRC"':
                    r.ok(f'{n}: getenv({nm})', func=n, loc=i.loc)
                else:
                    r.fail(f'{n}: getenv', func=n, sig=f'getenv({nm})', loc=i.loc, msg=f'{n} reads environment variable {nm}: output depends on undocumented state')
    ctx.extra['cone_functions'] = len(cone)
    ctx.extra['global_accesses_in_cone'] = nacc
    if not any(i['status'] == 'fail' for i in r.instances):
        r.ok(f'{len(cone)} functions in the operation cones: {nacc} global accesses, none is a store', func='<cone>', loc='')
    r.require_min(3)
    from . import c01
    r = ctx.rule('R01a', 'encode reads orig_data only through the split loop: bytes copied = advance = decrement = min(remaining, payload size)',
                 'a copy length that ignores the remaining length reads past the caller\'s buffer and makes output depend on adjacent memory')
    c01.cursor_rule(P, r, 'prepare_fragments_for_encode', 'src')
    r.require_min(1)
    ctx.borrow('c03', ['R03b', 'R03c'], 'a supplied destination fragment is an input: it is copied out, never rewritten')
    ctx.borrow('c14', ['R14f'], 'encode on one instance must not depend on other instances having been created or destroyed: the shared GF tables are reference counted')
    r = ctx.rule('R15f', 'backend decode / reconstruct operations do not write through the erasure list they are given',
                 'decoders that use the caller\'s list as a work queue return it truncated: the front end then skips the rebuilt fragments')
    from . import shared as _sh2
    _sh2.rule_missing_list_readonly(ctx, P, r)
    r.require_min(4)
    ctx.borrow('c11', ['R11c'], 'the payload CRC must be taken over the byte-order-corrected size, or the query reads far past the fragment')
    r = ctx.rule('R15g', 'XOR decode / reconstruct write only buffers of missing elements or local scratch',
                 'a supplied parity used as a bounce buffer is modified (and restored) behind the caller\'s back: read-only mappings fault, concurrent readers see garbage')
    from .. import xorrules as _xr
    _xr.write_targets_rule(P, r)
    r.require_min(8)

