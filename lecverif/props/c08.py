"""C08 size queries: one word size (R08a), one helper (R08b), minimum = aligned(1) (R08c), round-up identity (R08d)."""
import re
from .. import callgraph, symex, api
from ..vflow import Canon, strip_int_casts, strip_ptr_casts, access_path, fields_in_path, const_int
from ..build import AnalysisBroken
from . import shared

EXPLANATION = (
    "R08a (sibling cross-check per backend): the value returned by the function in the element_size slot and the word size "
    "the backend's init leaves in args.w (which the encoder aligns to) denote the same quantity - the same constant, or the "
    "same descriptor field whose only store receives the value also stored to / loaded from args.w. R08b: "
    "liberasurecode_get_fragment_size and prepare_fragments_for_encode both compute the payload size as "
    "get_aligned_data_size(instance, len) / k and add ops->get_backend_metadata_size(desc, that quotient). R08c: "
    "get_minimum_encode_size returns the aligned size of the constant 1 unchanged. R08d: the round-up expressions of the "
    "internal helper and of the public aligned-size query are extracted from the IR as expression trees over (len, alignment) "
    "and evaluated on a grid covering every residue class (alignment 1..128, len 0..4*alignment+2 and large values): equal to "
    "ceil(len/a)*a, and the alignment operand is k * (word size / 8). R13b for unknown descriptors is decided under C13. NOT "
    "decided: 32-bit truncation for lengths beyond INT_MAX; the identity beyond the grid is argued from the expression class "
    "(+,-,*,/,% by one alignment operand), not proved.")

def rule_roundup(ctx, P):
    cg = callgraph.get(P)
    # ---------------- R08d
    r = ctx.rule('R08d', 'round-up expressions equal ceil(len / a) * a on a grid covering every residue class; a = k * (w/8)',
                 'an off-by-one in the rounding changes payload sizes exactly at multiples of the alignment')
    # the two functions are evaluated as value functions (constant propagation through their IR, no library code runs) on a grid
    # of instance shapes and lengths: k in 1..12, w in {8,16,32}, every residue class of len modulo the alignment plus large
    # values.  Expected: the smallest multiple of a that is >= len, a = k * (w/8) (k * w * sizeof(long) * 128 for Jerasure Cauchy
    # in the internal helper).  Independent of how the rounding is written.
    from ..consteval import ConstEval, Undecidable
    I_ARGS, I_COMMON, I_DESC = P.field_index('ec_backend', 'args'), P.field_index('ec_backend', 'common'), P.field_index('ec_backend', 'desc')
    I_UARGS = P.field_index('ec_backend_args', 'uargs')
    I_K, I_W = P.field_index('ec_args', 'k'), P.field_index('ec_args', 'w')
    I_ID = P.field_index('ec_backend_common', 'id')
    ids = {}
    for m_ in P.mods:
        ids.update(m_.enumerators('EC_BACKEND_'))
    cauchy = ids.get('EC_BACKEND_JERASURE_RS_CAUCHY')
    plain = [v for n_, v in sorted(ids.items()) if v != cauchy and n_ not in ('EC_BACKENDS_MAX',)][:3]
    if cauchy is None or not plain:
        raise AnalysisBroken('anchor vanished: backend id enumerators')
    def instance(k, w, bid):
        return {'inst': {(I_ARGS, I_UARGS, I_K): k, (I_ARGS, I_UARGS, I_W): w, (I_COMMON, I_ID): bid}}
    def lens(a):
        return list(range(0, 4 * a + 3)) + [1000000, 1 << 20, (1 << 20) + 1]
    for fname in ('get_aligned_data_size', 'liberasurecode_get_aligned_data_size'):
        f = P.fn(fname)
        CE = ConstEval(P, f.mod)
        public = fname.startswith('liberasurecode_')
        bad, nev = None, 0
        try:
            for bid in plain + ([] if public else [cauchy]):
                for k in (1, 2, 3, 4, 5, 7, 10, 12):
                    for w in (8, 16, 32):
                        a = k * w * 8 * 128 if bid == cauchy else k * (w // 8)
                        for ln in (lens(a) if a <= 64 else [0, 1, a - 1, a, a + 1, 3 * a - 1, 3 * a, 1 << 20]):
                            nev += 1
                            def hook(ins, args, w=w):
                                if ins.callee == '@liberasurecode_backend_instance_get_by_desc':
                                    return ('obj', 'inst', ())
                                return w                       # ops->element_size(desc): the word size in bits
                            res = CE.run(f, [7 if public else ('obj', 'inst', ()), ln], objs=instance(k, w, bid), call_hook=hook)
                            want = -(-ln // a) * a
                            if res['ret'] != want:
                                bad = f'k={k}, w={w}, len={ln}' + (' (Jerasure Cauchy)' if bid == cauchy else '') + \
                                      f': returns {res["ret"]}, the smallest multiple of {a} that is >= len is {want}'
                                break
                            if any(e[0] == 'div0' for e in res['events']):
                                bad = f'k={k}, w={w}, len={ln}: division by zero'
                                break
                        if bad: break
                    if bad: break
                if bad: break
        except Undecidable as e:
            r.undecided(f'{fname}: aligned(len) == ceil(len/a)*a', loc=f.mod.src, msg=str(e))
            continue
        ctx.extra.setdefault('R08d_grid_points', 0)
        ctx.extra['R08d_grid_points'] += nev
        inst = f'{fname}: aligned(len) == ceil(len/a)*a, a = k * (w/8)'
        if bad:
            r.fail(inst, func=f.name, sig='round-up wrong: ' + bad[:60], loc=f.mod.src, msg='the aligned size is not the round-up of the length to a multiple of k * word size: ' + bad)
        else:
            r.ok(inst + f' ({nev} grid points over k, w, len)', func=f.name, loc=f.mod.src)
    r.require_min(2)

def rule_fragment_len(ctx, P):
    # ---------------- R08e the fragment length encode reports
    r = ctx.rule('R08e', 'get_fragment_size: header + payload size + backend metadata size for every size the header can hold, 0 included',
                 'encode reports fragment_len through this helper: a special case for small sizes makes the reported length disagree with the size query (empty object: 80)')
    from ..consteval import ConstEval, Undecidable
    g = P.fn('get_fragment_size')
    sizer = [i for i in g.insts() if i.op == 'call' and i.callee in P.fns and i.res]
    CE = ConstEval(P, g.mod)
    bad = None
    I_META, I_MAGIC = P.field_index('fragment_header_s', 'meta'), P.field_index('fragment_header_s', 'magic')
    I_SIZE, I_BMS = P.field_index('fragment_metadata', 'size'), P.field_index('fragment_metadata', 'frag_backend_metadata_size')
    try:
        for inner in (0, 1, 4, 80, 4096, 1 << 20):
            # the sizes come from a helper call (answered with `inner`) or are read from the header in place (payload size `inner`, metadata 0)
            hdr = {(I_META, I_SIZE): inner, (I_META, I_BMS): 0, (I_MAGIC,): 0x0b0c5ecc}
            res = CE.run(g, [('obj', 'frag', ())], objs={'frag': hdr}, call_hook=lambda ins, args, inner=inner: inner)
            if res['ret'] != inner + 80:
                bad = f'with a header whose payload + metadata size is {inner} the helper returns {res["ret"]}, expected {inner + 80}'
                break
    except Undecidable as e:
        r.undecided('get_fragment_size: value function', loc=g.mod.src, msg=str(e))
    else:
        if bad:
            r.fail('get_fragment_size: value function', func=g.name, sig='fragment length: ' + bad[:60], loc=g.mod.src,
                   msg='the fragment length encode reports is not header size + stored sizes: ' + bad)
        else:
            r.ok('get_fragment_size(buf) == sizes stored in the header + 80 (0, 1, 4, 80, 4096, 2^20)', func=g.name, loc=g.mod.src)
    r.require_min(1)

def rule_encode_reports_len(ctx, P):
    r = ctx.rule('R08f', 'encode reports as fragment_len what get_fragment_size reads from a fragment it just wrote (header + payload + backend metadata)',
                 'a length recomputed as header + payload drops the backend metadata bytes: it disagrees with the size query for every back end that stores metadata')
    f = P.fn('liberasurecode_encode')
    C = Canon(P, f)
    lp = [n_ for n_, (ty_, pn_) in enumerate(f.params) if ty_ == 'i64*']
    if not lp:
        raise AnalysisBroken('anchor vanished: liberasurecode_encode has no fragment_len output')
    pn = f.params[lp[-1]][1]
    sts = [i for i in f.insts() if i.op == 'store' and strip_ptr_casts(f, i.ops[1]) == pn]
    if not sts:
        r.fail('encode stores fragment_len', func=f.name, sig='fragment_len never written', loc=f.mod.src, msg='liberasurecode_encode never stores *fragment_len')
    for st in sts:
        v = C.val(strip_int_casts(f, st.ops[0]))
        inst = f'liberasurecode_encode: *fragment_len stored at line {st.line}'
        if re.match(r'^@get_fragment_size\(', v):
            r.ok(inst + ' = get_fragment_size(fragment)', func=f.name, loc=st.loc)
        else:
            r.fail(inst, func=f.name, sig=f'fragment_len := {v[:60]}', loc=st.loc,
                   msg=f'*fragment_len is computed as {v} instead of being read back from a written fragment with get_fragment_size: whatever that expression leaves out '
                       '(the backend metadata size) makes the reported length differ from liberasurecode_get_fragment_size(len) + header')
    r.require_min(1)

def _same_as_aligned_of_one(P, fmin, fpub):
    """both size queries, followed from their return values down to the instance's k and the element-size call, evaluated on a
    grid: min(k, w) must equal aligned(k, w, data_len = 1); the constant (error) alternatives must coincide"""
    from .. import symex
    def forms(fn):
        rets = [i for i in fn.insts() if i.op == 'ret' and i.ops]
        if len(rets) != 1:
            return None
        alts = symex.alternatives(symex.tree(fn, rets[0].ops[0]))
        consts = sorted(a[1] for a in alts if a[0] == 'c')
        comp = [a for a in alts if a[0] != 'c']
        return consts, comp
    def env_for(fn, tree_, K, E, extra):
        env = dict(extra)
        for lf in symex.leaves(tree_):
            if lf[0] != 'v':
                continue
            d = fn.defs.get(lf[1])
            if d is None:
                return None
            if d.op == 'load':
                fl = fields_in_path(access_path(P, fn, d.ops[0])[1])
                if fl and fl[-1] == ('ec_args', 'k'):
                    env[lf] = K
                    continue
                return None
            if d.op == 'call' and (d.callee or '').startswith('%'):
                cd = fn.defs.get(d.callee)
                fl = fields_in_path(access_path(P, fn, cd.ops[0])[1]) if cd is not None and cd.op == 'load' else []
                ad = fn.defs.get(strip_ptr_casts(fn, d.ops[0])) if d.ops else None
                afl = fields_in_path(access_path(P, fn, ad.ops[0])[1]) if ad is not None and ad.op == 'load' else []
                if fl and fl[-1][1] == 'element_size' and afl and afl[-1][1] == 'backend_desc':
                    env[lf] = E           # element_size(instance->desc.backend_desc)
                    continue
            return None
        return env
    a, b = forms(fmin), forms(fpub)
    if a is None or b is None or a[0] != b[0] or len(a[1]) != 1 or len(b[1]) != 1 or any(c >= 0 for c in a[0]):
        return False
    try:
        for K in (1, 2, 3, 7, 10, 32):
            for E in (8, 16, 32, 64, 1024):
                e1 = env_for(fmin, a[1][0], K, E, {})
                e2 = env_for(fpub, b[1][0], K, E, {('p', 1): 1})
                if e1 is None or e2 is None:
                    return False
                if symex.evaluate(a[1][0], e1) != symex.evaluate(b[1][0], e2):
                    return False
    except (KeyError, ValueError, ZeroDivisionError, IndexError):
        return False
    return True

def run(ctx):
    P = ctx.program()
    cg = callgraph.get(P)

    # ---------------- R08a
    r = ctx.rule('R08a', 'element_size slot and the word size used by encode denote the same quantity, per backend',
                 'otherwise the public aligned size disagrees with the payload encode really produces')
    for be in shared.IN_SCOPE_BACKENDS:
        c = cg.common[be]
        t = cg.op_tables[c['ops']]
        es, init = P.fn(t['element_size']), P.fn(t['init'])
        Ce = Canon(P, es)
        rv = {Ce.val(strip_int_casts(es, i.ops[0])) for i in es.insts() if i.op == 'ret'}
        chain = [init] + [P.fns[x] for i in init.insts() if i.op == 'call' for x in cg.callees(init, i) if x in P.fns and x != init.name and 'init' in x]
        wstores, fstores = [], {}
        for h in chain:
            Ch = Canon(P, h)
            for i in h.insts():
                if i.op == 'store':
                    root, steps = access_path(P, h, i.ops[1])
                    fl = fields_in_path(steps)
                    if fl and fl[-1] == ('ec_args', 'w'):
                        wstores.append((h, i, const_int(h, i.ops[0])))
                    elif fl and fl[-1][1] == 'w':
                        v = strip_int_casts(h, i.ops[0])
                        d = h.defs.get(v)
                        src = None
                        if const_int(h, i.ops[0]) is not None:
                            src = ('const', const_int(h, i.ops[0]))
                        elif d is not None and d.op == 'load':
                            _, st2 = access_path(P, h, d.ops[0])
                            if fields_in_path(st2)[-1:] == [('ec_args', 'w')]:
                                src = ('args.w',)
                        fstores.setdefault(fl[-1], []).append((h, i, src))
        inst = f'{be}: element_size ({es.name}) vs word size left in args.w by {init.name}'
        wconsts = {cv for _, _, cv in wstores}
        if len(rv) == 1 and re.match(r'^-?\d+$', next(iter(rv))):
            cval = int(next(iter(rv)))
            ok = wconsts == {cval}
            # the constant must be stored unconditionally: otherwise a caller-supplied w survives and encode aligns to it
            from ..cfg import dominators, dominates
            uncond = False
            for h, i, cv in wstores:
                rb = shared.nonnull_return_blocks(h) if h.retty.strip().endswith('*') else [x.bb for x in h.insts() if x.op == 'ret']
                if rb and all(dominates(dominators(h), i.bb, x) for x in rb):
                    uncond = True
                elif rb and shared.must_pass_store(h, [i2 for h2, i2, cv2 in wstores if h2 is h and cv2 == cv], rb):
                    uncond = True
            if ok and not uncond:
                r.fail(inst, func=es.name, sig=f'element_size {cval} but args.w keeps a caller value', loc=es.mod.src,
                       msg=f'the slot always reports {cval} bits while init overwrites args.w only conditionally: with a caller-supplied w the '
                           'encoder aligns to w/8 and the public aligned-size query to a different word size')
                continue
            # a descriptor may additionally keep its own copy; what matters is args.w (used by get_aligned_data_size)
            if ok:
                r.ok(inst + f': both {cval}', func=es.name, loc=es.mod.src)
            else:
                r.fail(inst, func=es.name, sig=f'element_size {cval} vs args.w stores {sorted(map(str, wconsts))}', loc=es.mod.src,
                       msg=f'the slot reports {cval} bits but init leaves {sorted(map(str, wconsts)) or "the caller value"} in args.w: '
                           'get_aligned_data_size (encode) and the public aligned-size query use different word sizes')
        else:
            m = re.match(r'^\*arg0\.(\w+)$', next(iter(rv))) if len(rv) == 1 else None
            if not m:
                r.undecided(inst, loc=es.mod.src, msg=f'element_size returns {sorted(rv)}')
                continue
            fld = [k for k in fstores if k[1] == m.group(1)]
            srcs = [s for k in fld for _, _, s in fstores[k]]
            def mirrored(h, i, s):
                # a constant written to the descriptor field is written to args.w on the same path (same block)
                return s and s[0] == 'const' and any(h2 is h and i2.bb is i.bb and cv == s[1] for h2, i2, cv in wstores)
            trip = [t3 for k in fld for t3 in fstores[k]]
            if srcs and any(s == ('args.w',) for s in srcs) and all(s == ('args.w',) or mirrored(h, i, s) for h, i, s in trip):
                r.ok(inst + f': descriptor field {m.group(1)} is a copy of args.w', func=es.name, loc=es.mod.src)
            elif srcs and all(s and s[0] == 'const' for s in srcs) and wconsts == {s[1] for s in srcs}:
                r.ok(inst + f': field {m.group(1)} and args.w both {sorted(wconsts)}', func=es.name, loc=es.mod.src)
            else:
                r.fail(inst, func=es.name, sig=f'element_size returns field {m.group(1)} fed by {srcs}; args.w stores {sorted(map(str, wconsts))}',
                       loc=es.mod.src, msg='the descriptor field reported as element size is not the word size encode aligns to')
    r.require_min(5)

    # ---------------- R08b
    r = ctx.rule('R08b', 'fragment size query and encode use the same helper: aligned(instance, len) / k + backend metadata size of that quotient',
                 'a query computed differently from encode disagrees with the fragments encode emits')
    for fname, lenarg in (('liberasurecode_get_fragment_size', 1), ('prepare_fragments_for_encode', 4)):
        f = P.fn(fname)
        C = Canon(P, f)
        ads = [i for i in f.insts() if i.op == 'call' and i.callee == '@get_aligned_data_size']
        inst = f'{fname}: payload = get_aligned_data_size(instance, len) / k, total = payload + metadata(payload)'
        if not ads:
            r.fail(inst, func=f.name, sig='get_aligned_data_size not used', loc=f.mod.src, msg=f'{fname} does not derive the payload size from get_aligned_data_size')
            continue
        a = ads[0]
        if not C.val(strip_int_casts(f, a.ops[1])) == f'arg{lenarg}':
            r.fail(inst, func=f.name, sig=f'aligned size of {C.val(a.ops[1])[:40]}', loc=a.loc, msg='the aligned size is not computed from the data length argument')
            continue
        divs = [i for i in f.insts() if i.op in ('sdiv', 'udiv') and strip_int_casts(f, i.ops[0]) == a.res]
        okdiv = [d for d in divs if re.search(r'(\.uargs\.k$|^arg1$)', C.val(strip_int_casts(f, d.ops[1])))]
        if fname == 'prepare_fragments_for_encode':
            # k is a parameter here: every caller passes the instance's k
            sites = cg.callers_of(f.name)
            kok = all(re.search(r'\.uargs\.k$', Canon(P, g).val(strip_int_casts(g, s.ops[1]))) for g, s in sites) and sites
            if not kok:
                okdiv = []
        if not okdiv:
            r.fail(inst, func=f.name, sig='payload is not aligned/k', loc=a.loc, msg='the aligned size is not divided by k to obtain the payload size')
            continue
        q = okdiv[0]
        ms = [i for i in f.insts() if i.op == 'call' and i.callee.startswith('%') and set(cg.callees(f, i)) & set(cg.slot_functions('get_backend_metadata_size').values())]
        if not ms:
            r.fail(inst, func=f.name, sig='backend metadata size not added', loc=q.loc, msg='ops->get_backend_metadata_size is not consulted')
            continue
        marg = strip_int_casts(f, ms[0].ops[1])
        md = f.defs.get(marg)
        same_q = marg == q.res or (md is not None and md.op == 'load' and any(s.op == 'store' and s.ops[0] == q.res and strip_ptr_casts(f, s.ops[1]) == strip_ptr_casts(f, md.ops[0]) for s in f.insts()))
        adds = [i for i in f.insts() if i.op == 'add' and q.res in [strip_int_casts(f, o) for o in i.ops] and ms[0].res in [strip_int_casts(f, o) for o in i.ops]]
        if same_q and adds:
            r.ok(inst, func=f.name, loc=q.loc)
        else:
            r.fail(inst, func=f.name, sig='metadata size argument / sum differs', loc=ms[0].loc,
                   msg='the backend metadata size is not computed from the payload quotient or not added to it')
    r.require_min(2)

    # ---------------- R08c
    r = ctx.rule('R08c', 'get_minimum_encode_size == get_aligned_data_size(desc, 1)', 'the minimum encodable size is the aligned size of one byte')
    f = P.fn('liberasurecode_get_minimum_encode_size')
    C = Canon(P, f)
    rv = {C.val(i.ops[0]) for i in f.insts() if i.op == 'ret'}
    def _ret_forms(fn):
        Cf_ = Canon(P, fn)
        out_ = set()
        for i_ in fn.insts():
            if i_.op == 'ret' and i_.ops:
                d_ = fn.defs.get(i_.ops[0])
                vs_ = [v_ for v_, _ in d_.incoming] if d_ is not None and d_.op == 'phi' else [i_.ops[0]]
                out_ |= {Cf_.val(v_) for v_ in vs_}
        return out_
    pub = P.fn('liberasurecode_get_aligned_data_size')
    mine, theirs = _ret_forms(f), _ret_forms(pub)
    inner = lambda n_: f'@get_aligned_data_size(@liberasurecode_backend_instance_get_by_desc(arg0),{n_})'
    same_by_parts = (inner('1') in mine and inner('arg1') in theirs and
                     {x for x in mine if x != inner('1')} == {x for x in theirs if x != inner('arg1')} and
                     all(re.match(r'^-\d+$', x) for x in mine if x != inner('1')))
    if rv == {'@liberasurecode_get_aligned_data_size(arg0,1)'}:
        r.ok('returns liberasurecode_get_aligned_data_size(desc, 1) unchanged', func=f.name, loc=f.mod.src)
    elif _same_as_aligned_of_one(P, f, pub):
        r.ok('as value functions of (k, element size) the two queries agree: minimum == aligned(desc, 1), same refusal of an unknown descriptor '
             '(evaluated on a grid of k and word sizes)', func=f.name, loc=f.mod.src)
    elif same_by_parts:
        r.ok('both queries look the descriptor up, refuse an unknown one with the same value and return get_aligned_data_size(instance, 1) / (instance, data_len)', func=f.name, loc=f.mod.src)
    else:
        r.fail('minimum encode size', func=f.name, sig=f'returns {sorted(rv)}', loc=f.mod.src, msg=f'minimum encode size is {sorted(rv)}, expected aligned(desc, 1)')
    r.require_min(1)

    rule_roundup(ctx, P)
    rule_fragment_len(ctx, P)
    rule_encode_reports_len(ctx, P)
    ctx.borrow('c13', ['R13b'], 'size queries on an unknown descriptor must return an error, not dereference the failed look-up')
