"""C08 size queries: one word size (R08a), one helper (R08b), minimum = aligned(1) (R08c), round-up identity (R08d)."""
import re
from .. import callgraph, symex, api
from ..vflow import Canon, strip_int_casts, strip_ptr_casts, access_path, fields_in_path, const_int
from ..build import AnalysisBroken
from . import shared

EXPLANATION = (
    "R08a (sibling cross-check per backend): the value returned by the function in the element_size slot and the word size "
    "the backend's init leaves in args.w (which the encoder aligns to) denote the same quantity - the same constant, or the "
    "same descriptor field whose only store receives the value also stored to / loaded from args.w. R08b: "
    "liberasurecode_get_fragment_size and prepare_fragments_for_encode both compute the payload size as "
    "get_aligned_data_size(instance, len) / k and add ops->get_backend_metadata_size(desc, that quotient). R08c: "
    "get_minimum_encode_size returns the aligned size of the constant 1 unchanged. R08d: the round-up expressions of the "
    "internal helper and of the public aligned-size query are extracted from the IR as expression trees over (len, alignment) "
    "and evaluated on a grid covering every residue class (alignment 1..128, len 0..4*alignment+2 and large values): equal to "
    "ceil(len/a)*a, and the alignment operand is k * (word size / 8). R13b for unknown descriptors is decided under C13. NOT "
    "decided: 32-bit truncation for lengths beyond INT_MAX; the identity beyond the grid is argued from the expression class "
    "(+,-,*,/,% by one alignment operand), not proved.")

def rule_roundup(ctx, P):
    cg = callgraph.get(P)
    # ---------------- R08d
    r = ctx.rule('R08d', 'round-up expressions equal ceil(len / a) * a on a grid covering every residue class; a = k * (w/8)',
                 'an off-by-one in the rounding changes payload sizes exactly at multiples of the alignment')
    grid_a = [1, 2, 3, 4, 5, 6, 7, 8, 10, 12, 16, 20, 24, 40, 64, 100, 128]
    for fname, lenarg in (('get_aligned_data_size', 1), ('liberasurecode_get_aligned_data_size', 1)):
        f = P.fn(fname)
        C = Canon(P, f)
        rets = [i for i in f.insts() if i.op == 'ret']
        # opaque alignment operand: the divisor of the division(s) on the way
        divs = [i for i in f.insts() if i.op in ('sdiv', 'udiv', 'srem', 'urem') and const_int(f, i.ops[1]) is None]
        if not divs:
            r.fail(f'{fname}: round-up', func=f.name, sig='no division by the alignment', loc=f.mod.src, msg='no rounding to a multiple of the alignment is performed')
            continue
        aval = strip_int_casts(f, divs[-1].ops[1])
        ok_a, why = shared.divisor_ok(P, f, aval)
        t = symex.tree(f, rets[0].ops[0], opaque={aval})
        alts = [x for x in symex.alternatives(t) if x[0] not in ('c',)]
        if not alts:
            r.undecided(f'{fname}: round-up', msg='return value has no arithmetic alternative')
            continue
        inst = f'{fname}: aligned(len) == ceil(len/a)*a'
        bad = None
        nev = 0
        for alt in alts:
            lv = symex.leaves(alt)
            unk = [l for l in lv if l not in (('p', lenarg), ('v', aval))]
            if unk:
                bad = ('undecided', f'expression has other inputs: {unk}')
                break
            for a in grid_a:
                for ln in list(range(0, 4 * a + 3)) + [1000000, 1 << 20, (1 << 20) + 1]:
                    nev += 1
                    try:
                        got = symex.evaluate(alt, {('p', lenarg): ln, ('v', aval): a})
                    except ZeroDivisionError:
                        bad = ('fail', f'division by zero for len={ln}, a={a}'); break
                    want = -(-ln // a) * a
                    if got != want:
                        bad = ('fail', f'len={ln}, alignment={a}: expression gives {got}, smallest multiple >= len is {want}'); break
                if bad:
                    break
            if bad:
                break
        ctx.extra.setdefault('R08d_grid_points', 0)
        ctx.extra['R08d_grid_points'] += nev
        if bad and bad[0] == 'undecided':
            r.undecided(inst, loc=rets[0].loc, msg=bad[1])
        elif bad:
            r.fail(inst, func=f.name, sig='round-up wrong: ' + bad[1][:60], loc=divs[-1].loc, msg='the rounding expression is not the round-up to a multiple: ' + bad[1])
        else:
            r.ok(inst + f' ({nev} grid points)', func=f.name, loc=divs[-1].loc, facts={'alignment_operand': C.val(aval)})
        if ok_a:
            r.ok(f'{fname}: alignment operand is {why}', func=f.name, loc=divs[-1].loc)
        else:
            r.fail(f'{fname}: alignment operand', func=f.name, sig=f'alignment is {why}', loc=divs[-1].loc, msg=f'the alignment is {C.val(aval)}, not k * (word size in bytes)')
    r.require_min(4)

def run(ctx):
    P = ctx.program()
    cg = callgraph.get(P)

    # ---------------- R08a
    r = ctx.rule('R08a', 'element_size slot and the word size used by encode denote the same quantity, per backend',
                 'otherwise the public aligned size disagrees with the payload encode really produces')
    for be in shared.IN_SCOPE_BACKENDS:
        c = cg.common[be]
        t = cg.op_tables[c['ops']]
        es, init = P.fn(t['element_size']), P.fn(t['init'])
        Ce = Canon(P, es)
        rv = {Ce.val(strip_int_casts(es, i.ops[0])) for i in es.insts() if i.op == 'ret'}
        chain = [init] + [P.fns[x] for i in init.insts() if i.op == 'call' for x in cg.callees(init, i) if x in P.fns and x != init.name and 'init' in x]
        wstores, fstores = [], {}
        for h in chain:
            Ch = Canon(P, h)
            for i in h.insts():
                if i.op == 'store':
                    root, steps = access_path(P, h, i.ops[1])
                    fl = fields_in_path(steps)
                    if fl and fl[-1] == ('ec_args', 'w'):
                        wstores.append((h, i, const_int(h, i.ops[0])))
                    elif fl and fl[-1][1] == 'w':
                        v = strip_int_casts(h, i.ops[0])
                        d = h.defs.get(v)
                        src = None
                        if const_int(h, i.ops[0]) is not None:
                            src = ('const', const_int(h, i.ops[0]))
                        elif d is not None and d.op == 'load':
                            _, st2 = access_path(P, h, d.ops[0])
                            if fields_in_path(st2)[-1:] == [('ec_args', 'w')]:
                                src = ('args.w',)
                        fstores.setdefault(fl[-1], []).append((h, i, src))
        inst = f'{be}: element_size ({es.name}) vs word size left in args.w by {init.name}'
        wconsts = {cv for _, _, cv in wstores}
        if len(rv) == 1 and re.match(r'^-?\d+$', next(iter(rv))):
            cval = int(next(iter(rv)))
            ok = wconsts == {cval}
            # the constant must be stored unconditionally: otherwise a caller-supplied w survives and encode aligns to it
            from ..cfg import dominators, dominates
            uncond = False
            for h, i, cv in wstores:
                rb = shared.nonnull_return_blocks(h) if h.retty.strip().endswith('*') else [x.bb for x in h.insts() if x.op == 'ret']
                if rb and all(dominates(dominators(h), i.bb, x) for x in rb):
                    uncond = True
            if ok and not uncond:
                r.fail(inst, func=es.name, sig=f'element_size {cval} but args.w keeps a caller value', loc=es.mod.src,
                       msg=f'the slot always reports {cval} bits while init overwrites args.w only conditionally: with a caller-supplied w the '
                           'encoder aligns to w/8 and the public aligned-size query to a different word size')
                continue
            # a descriptor may additionally keep its own copy; what matters is args.w (used by get_aligned_data_size)
            if ok:
                r.ok(inst + f': both {cval}', func=es.name, loc=es.mod.src)
            else:
                r.fail(inst, func=es.name, sig=f'element_size {cval} vs args.w stores {sorted(map(str, wconsts))}', loc=es.mod.src,
                       msg=f'the slot reports {cval} bits but init leaves {sorted(map(str, wconsts)) or "the caller value"} in args.w: '
                           'get_aligned_data_size (encode) and the public aligned-size query use different word sizes')
        else:
            m = re.match(r'^\*arg0\.(\w+)$', next(iter(rv))) if len(rv) == 1 else None
            if not m:
                r.undecided(inst, loc=es.mod.src, msg=f'element_size returns {sorted(rv)}')
                continue
            fld = [k for k in fstores if k[1] == m.group(1)]
            srcs = [s for k in fld for _, _, s in fstores[k]]
            def mirrored(h, i, s):
                # a constant written to the descriptor field is written to args.w on the same path (same block)
                return s and s[0] == 'const' and any(h2 is h and i2.bb is i.bb and cv == s[1] for h2, i2, cv in wstores)
            trip = [t3 for k in fld for t3 in fstores[k]]
            if srcs and any(s == ('args.w',) for s in srcs) and all(s == ('args.w',) or mirrored(h, i, s) for h, i, s in trip):
                r.ok(inst + f': descriptor field {m.group(1)} is a copy of args.w', func=es.name, loc=es.mod.src)
            elif srcs and all(s and s[0] == 'const' for s in srcs) and wconsts == {s[1] for s in srcs}:
                r.ok(inst + f': field {m.group(1)} and args.w both {sorted(wconsts)}', func=es.name, loc=es.mod.src)
            else:
                r.fail(inst, func=es.name, sig=f'element_size returns field {m.group(1)} fed by {srcs}; args.w stores {sorted(map(str, wconsts))}',
                       loc=es.mod.src, msg='the descriptor field reported as element size is not the word size encode aligns to')
    r.require_min(5)

    # ---------------- R08b
    r = ctx.rule('R08b', 'fragment size query and encode use the same helper: aligned(instance, len) / k + backend metadata size of that quotient',
                 'a query computed differently from encode disagrees with the fragments encode emits')
    for fname, lenarg in (('liberasurecode_get_fragment_size', 1), ('prepare_fragments_for_encode', 4)):
        f = P.fn(fname)
        C = Canon(P, f)
        ads = [i for i in f.insts() if i.op == 'call' and i.callee == '@get_aligned_data_size']
        inst = f'{fname}: payload = get_aligned_data_size(instance, len) / k, total = payload + metadata(payload)'
        if not ads:
            r.fail(inst, func=f.name, sig='get_aligned_data_size not used', loc=f.mod.src, msg=f'{fname} does not derive the payload size from get_aligned_data_size')
            continue
        a = ads[0]
        if not C.val(strip_int_casts(f, a.ops[1])) == f'arg{lenarg}':
            r.fail(inst, func=f.name, sig=f'aligned size of {C.val(a.ops[1])[:40]}', loc=a.loc, msg='the aligned size is not computed from the data length argument')
            continue
        divs = [i for i in f.insts() if i.op in ('sdiv', 'udiv') and strip_int_casts(f, i.ops[0]) == a.res]
        okdiv = [d for d in divs if re.search(r'(\.uargs\.k$|^arg1$)', C.val(strip_int_casts(f, d.ops[1])))]
        if fname == 'prepare_fragments_for_encode':
            # k is a parameter here: every caller passes the instance's k
            sites = cg.callers_of(f.name)
            kok = all(re.search(r'\.uargs\.k$', Canon(P, g).val(strip_int_casts(g, s.ops[1]))) for g, s in sites) and sites
            if not kok:
                okdiv = []
        if not okdiv:
            r.fail(inst, func=f.name, sig='payload is not aligned/k', loc=a.loc, msg='the aligned size is not divided by k to obtain the payload size')
            continue
        q = okdiv[0]
        ms = [i for i in f.insts() if i.op == 'call' and i.callee.startswith('%') and set(cg.callees(f, i)) & set(cg.slot_functions('get_backend_metadata_size').values())]
        if not ms:
            r.fail(inst, func=f.name, sig='backend metadata size not added', loc=q.loc, msg='ops->get_backend_metadata_size is not consulted')
            continue
        marg = strip_int_casts(f, ms[0].ops[1])
        md = f.defs.get(marg)
        same_q = marg == q.res or (md is not None and md.op == 'load' and any(s.op == 'store' and s.ops[0] == q.res and strip_ptr_casts(f, s.ops[1]) == strip_ptr_casts(f, md.ops[0]) for s in f.insts()))
        adds = [i for i in f.insts() if i.op == 'add' and q.res in [strip_int_casts(f, o) for o in i.ops] and ms[0].res in [strip_int_casts(f, o) for o in i.ops]]
        if same_q and adds:
            r.ok(inst, func=f.name, loc=q.loc)
        else:
            r.fail(inst, func=f.name, sig='metadata size argument / sum differs', loc=ms[0].loc,
                   msg='the backend metadata size is not computed from the payload quotient or not added to it')
    r.require_min(2)

    # ---------------- R08c
    r = ctx.rule('R08c', 'get_minimum_encode_size == get_aligned_data_size(desc, 1)', 'the minimum encodable size is the aligned size of one byte')
    f = P.fn('liberasurecode_get_minimum_encode_size')
    C = Canon(P, f)
    rv = {C.val(i.ops[0]) for i in f.insts() if i.op == 'ret'}
    if rv == {'@liberasurecode_get_aligned_data_size(arg0,1)'}:
        r.ok('returns liberasurecode_get_aligned_data_size(desc, 1) unchanged', func=f.name, loc=f.mod.src)
    else:
        r.fail('minimum encode size', func=f.name, sig=f'returns {sorted(rv)}', loc=f.mod.src, msg=f'minimum encode size is {sorted(rv)}, expected aligned(desc, 1)')
    r.require_min(1)

    rule_roundup(ctx, P)
    ctx.borrow('c13', ['R13b'], 'size queries on an unknown descriptor must return an error, not dereference the failed look-up')
