"""C06 fragments_needed: propagation (R06a), index spaces (R05e), both lists matter (R06c), terminator/return structure (R06d)."""
import re
INT_RE = re.compile(r'^-?\d+$')
from .. import chains, callgraph, xorrules, taint
from ..vflow import Canon, strip_int_casts, strip_ptr_casts, derived_pointers, access_path, fields_in_path
from ..guards import Facts, dominating_edges, edge_condition
from ..cfg import reaches_without, natural_loops
from ..retval import returns_via_edge
from ..build import AnalysisBroken
from . import shared

EXPLANATION = (
    "R06a: in the cone of the fragments_needed op slot every fallible result is returned or tested (the XOR adapter returns its "
    "planner's result). R05e: index-space typing of the three XOR planners (parity-relative vs absolute bit positions). R06c: in "
    "every implementation in the slot (RS, ISA-L, XOR) both input lists influence, by data or control dependence, the stores "
    "into fragments_needed[] (an ignored exclude list passes the suite's only test). R06d: RS/ISA-L planners - every path from "
    "the increment of the output count to a loop exit passes the 'count == k' test, that edge stores the -1 terminator at "
    "[count] and is the only source of return value 0, stored indexes are the loop variable bounded by k+m; XOR planner - the "
    "-1 terminator store is on every path that returns >= 0. R13a for the entry point's pointers is decided under C13. NOT "
    "decided: sufficiency of the returned set (a rank condition on runtime lists), minimality, order independence, disjointness "
    "from the excluded indexes in general.")

PLANNER_BACKENDS = ('@backend_flat_xor_hd', '@backend_liberasurecode_rs_vand', '@backend_isa_l_rs_vand')

def planner_value_check(P, f):
    """-> (problem text or None, number of list pairs evaluated); raises consteval.Undecidable"""
    from ..consteval import ConstEval
    K, M = 3, 2
    N = K + M
    lists = [()] + [(a,) for a in range(N)] + [(a, b) for a in range(N) for b in range(N)] + [(0, 1, 0), (4, 4, 1)]
    st = [i.gep_base_ty for i in f.insts() if i.op == 'getelementptr' and (i.gep_base_ty or '').startswith('%struct.')]
    if not st:
        raise AnalysisBroken(f'anchor vanished: {f.name} does not read its descriptor')
    cname = st[0][len('%struct.'):]
    ik, im = P.field_index(cname, 'k'), P.field_index(cname, 'm')
    CE = ConstEval(P, f.mod)
    bad, nev = None, 0
    for R in lists:
        if not R:
            continue
        for X in lists:
            objs = {'desc': {(ik,): K, (im,): M},
                    'R': {(n_,): v for n_, v in enumerate(R + (-1,))}, 'X': {(n_,): v for n_, v in enumerate(X + (-1,))},
                    'N': {(n_,): -99 for n_ in range(N + 1)}}
            def hook(ins, args, objs=objs):
                g_ = P.fns.get(ins.callee)
                if g_ is not None and g_.order:
                    return ConstEval(P, g_.mod).run(g_, args, objs=objs, call_hook=hook)['ret']
                return None
            res = CE.run(f, [('obj', 'desc', ()), ('obj', 'R', ()), ('obj', 'X', ()), ('obj', 'N', ())], objs=objs, call_hook=hook)
            nev += 1
            avail = [i for i in range(N) if i not in R and i not in X]
            out = [res['objects']['N'].get((n_,)) for n_ in range(N + 1)]
            if len(avail) >= K:
                want = avail[:K] + [-1]
                if res['ret'] != 0 or out[:K + 1] != want:
                    bad = f'k={K}, m={M}, to reconstruct {list(R)}, to exclude {list(X)}: returns {res["ret"]} with list {out[:K + 1]}, expected 0 with {want}'
            elif res['ret'] is None or res['ret'] >= 0:
                bad = f'k={K}, m={M}, to reconstruct {list(R)}, to exclude {list(X)}: only {len(avail)} fragments remain but the planner returns {res["ret"]}'
            if bad:
                return bad, nev
    return None, nev

def rule_rs_planner_values(ctx, P, r, backends):
    """R06m: the Reed-Solomon style planners (first k indexes that are neither requested nor excluded) decided as value functions:
    constant propagation through the planner's IR for a (3,2) shape and every pair of short lists - overlapping, duplicated,
    empty - against the specification: success with the first k available indexes in ascending order and a -1 terminator when at
    least k fragments remain, a negative value otherwise.  No library code runs."""
    from ..consteval import Undecidable
    cg = callgraph.get(P)
    seen = set()
    for be in backends:
        c = cg.common[be]
        f = P.fn(cg.op_tables[c['ops']]['fragments_needed'])
        if f.name in seen:
            continue
        seen.add(f.name)
        try:
            bad, nev = planner_value_check(P, f)
        except Undecidable as e:
            r.undecided(f'{f.name}: planner value function', loc=f.mod.src, msg=str(e))
            continue
        inst = f'{f.name}: first k available indexes, ascending, -1 terminated; error iff fewer than k remain'
        if bad:
            r.fail(inst, func=f.name, sig='planner value: ' + bad[:70], loc=f.mod.src, msg='the planner does not compute the specified answer: ' + bad)
        else:
            r.ok(inst + f' ({nev} list pairs incl. overlapping / duplicated entries)', func=f.name, loc=f.mod.src)

class _Buffered:
    """collects rule verdicts so that a structural finding can be reconsidered by value before it is reported"""
    def __init__(self):
        self.calls = []
    def ok(self, *a, **k):
        self.calls.append(('ok', a, k))
    def fail(self, *a, **k):
        self.calls.append(('fail', a, k))
    def undecided(self, *a, **k):
        self.calls.append(('undecided', a, k))
    def fails(self):
        return any(c[0] != 'ok' for c in self.calls)
    def replay(self, r, as_ok=None):
        for kind, a, k in self.calls:
            if as_ok is not None and kind != 'ok':
                r.ok(a[0] + as_ok, func=k.get('func'), loc=k.get('loc'))
            else:
                getattr(r, kind)(*a, **k)

def rule_planners(ctx, P, rc, rd, backends):
    cg = callgraph.get(P)
    seen = set()
    for be in backends:
        c = cg.common[be]
        fname = cg.op_tables[c['ops']]['fragments_needed']
        # the function that actually writes the list: follow adapters that only forward
        f = P.fn(fname)
        for _ in range(3):
            A, _x = derived_pointers(f, [f.params[3][1]]) if len(f.params) >= 4 else (set(), None)
            if any(i.op == 'store' and i.ops[1] in A for i in f.insts()):
                break
            nxt = [x for i in f.insts() if i.op == 'call' for x in cg.callees(f, i) if x in P.fns and any(a in A for a in i.ops)]
            if not nxt:
                break
            f = P.fns[nxt[0]]
        if f.name in seen:
            continue
        seen.add(f.name)
        C = Canon(P, f)
        out = f.params[3][1]
        A, _x = derived_pointers(f, [out])
        stores = [i for i in f.insts() if i.op == 'store' and i.ops[1] in A]
        if not stores:
            raise AnalysisBroken(f'anchor vanished: {f.name} never writes fragments_needed[]')
        for pi, pname in ((1, 'fragments_to_reconstruct'), (2, 'fragments_to_exclude')):
            T, objs = taint.influence(P, f, [f.params[pi][1]])
            ok = False
            for s in stores:
                if s.ops[0] in T:
                    ok = True
                for src, dst in dominating_edges(f, s.bb):
                    for cond, truth in edge_condition(f, src, dst):
                        if isinstance(cond, str) and cond in T:
                            ok = True
                        elif isinstance(cond, tuple) and cond[1] in T:
                            ok = True
            inst = f'{f.name}: {pname} influences the output list'
            if ok:
                rc.ok(inst, func=f.name, loc=stores[0].loc)
            else:
                rc.fail(inst, func=f.name, sig=f'{pname} ignored', loc=stores[0].loc,
                        msg=f'no store into fragments_needed[] depends (by data or control) on {pname}')
        # terminator
        terms = [s for s in stores if s.ops[0] == '-1']
        if not terms:
            rd.fail(f'{f.name}: -1 terminator', func=f.name, sig='no terminator store', loc=stores[0].loc, msg='fragments_needed[] is never terminated with -1')
            continue
        if 'xor' in f.mod.src:
            # every path that avoids the terminator store returns a provably negative value
            from ..guards import upper_bound_at
            tbs = {t_.bb for t_ in terms}            # (a terminator store per way out is as good as one shared store)
            live, work = {f.entry}, [f.entry]
            while work:
                x = work.pop()
                if x in tbs:
                    continue
                for y in x.succs:
                    if y not in live:
                        live.add(y); work.append(y)
            live -= tbs
            ok = True
            def bound_live(v, blk, depth=0):
                # the bound where `blk` is entered without having passed a terminator store: through the predecessors that are
                # still "live" (a block shared by the failing exit and the path behind the store has two kinds of predecessors)
                hi_ = upper_bound_at(P, f, v, blk, None, 0, live)
                if hi_ is not None or depth > 3:
                    return hi_
                d_ = f.defs.get(v)
                if d_ is not None and d_.op == 'phi' and d_.bb is blk:
                    his_ = [bound_live(x_, f.blocks[l_], depth + 1) if not INT_RE.match(x_) else int(x_) for x_, l_ in d_.incoming if f.blocks[l_] in live]
                    return max(his_) if his_ and all(h_ is not None for h_ in his_) else None
                his_ = []
                for p_ in blk.preds:
                    if p_ not in live:
                        continue
                    h_ = upper_bound_at(P, f, v, p_, (p_, blk), 0, live)
                    if h_ is None:
                        return None
                    his_.append(h_)
                return max(his_) if his_ else None
            for rt in [i for i in f.insts() if i.op == 'ret' and i.bb in live]:
                hi = bound_live(rt.ops[0], rt.bb)
                if hi is None or hi >= 0:
                    ok = False
            if ok:
                rd.ok(f'{f.name}: every path with ret >= 0 stores the -1 terminator', func=f.name, loc=terms[0].loc)
            else:
                rd.fail(f'{f.name}: terminator on success paths', func=f.name, sig='success path without terminator', loc=terms[0].loc,
                        msg='a path that returns >= 0 does not pass the store of the -1 terminator')
            continue
        def _rs_shape(rd):
            # RS / ISA-L shape: scan i = 0 .. k+m-1, append the usable ones, stop with 0 as soon as k are collected.
            # Stated over polynomial forms (poly.py / loops.py): the position of the append, the count that is compared with k
            # and the position of the terminator are related by identities, however count and cursor are written
            # (index counter, walking pointer, pointer difference).
            from ..poly import PolyCtx, Poly
            from ..loops import loops_of, innermost
            from ..cfg import reachable_from as _rf
            pc = PolyCtx(P, f, C)
            LS = loops_of(P, f, pc)
            idx_stores = [s for s in stores if s.ops[0] != '-1']
            L0 = innermost(LS, idx_stores[0].bb) if idx_stores else None
            if not idx_stores or L0 is None:
                rd.undecided(f'{f.name}: planner loop', msg='no index store inside a loop')
                return
            s0 = idx_stores[0]
            L = L0.via(s0.bb)                     # recurrences along iterations that append
            body, h = L.body, L.header
            def elem(ptr_operand, ctx_pc):
                root, off = ctx_pc.ptr(ptr_operand)
                if root != 'arg3' or any(x % 4 for x in off.values()):
                    return None
                return Poly({k_: x // 4 for k_, x in off.items()})
            pos = elem(s0.ops[1], L.pc)          # list position written by the append
            Kp = None
            # the test count == k on the appending iteration: an exiting or in-loop branch whose comparison, with merge values
            # resolved along the append, reads (pos + 1) - k  (count after the append against k)
            tests, pretests = [], []
            for b in body:
                t = b.insts[-1]
                if t.op == 'br' and len(t.targets) == 2 and t.ops:
                    c_ = f.defs.get(t.ops[0])
                    if c_ is not None and c_.op == 'icmp' and c_.pred in ('eq', 'ne', 'sge', 'sle', 'slt', 'sgt'):
                        D = L.pc.val(c_.ops[0]) - L.pc.val(c_.ops[1])
                        katoms = [a for a in D.atoms() if re.search(r'\.k$', a)]
                        if pos is not None and len(katoms) == 1:
                            Kp = Poly.atom(katoms[0])
                            if D == pos + Poly.const(1) - Kp or D == Kp - pos - Poly.const(1):
                                tests.append((b, c_, t))
                            elif D == pos - Kp or D == Kp - pos:
                                pretests.append((b, c_, t))
            inst = f'{f.name}: count == k is tested after every append before the loop can end'
            if pos is not None and not tests and pretests:
                rd.fail(inst, func=f.name, sig='count == k is tested before the append, not after it', loc=pretests[0][1].loc,
                        msg='the number of collected fragments is compared with k before the current index is appended: after appending the k-th usable index '
                            'as the last scanned one the loop ends without the test, and the call returns -1 with an unterminated list although k fragments are available')
                return
            if pos is None or not tests:
                # the count may be kept in another form (a count-down of fragments still needed, ...): decide the planner by value
                try:
                    from ..consteval import Undecidable as _Und
                    badv, nevv = planner_value_check(P, f)
                except Exception as e_:
                    badv, nevv = 'not decidable by value: ' + str(e_)[:80], 0
                if badv is None:
                    for _n in range(4):
                        rd.ok(inst + f' (count kept in another form; decided as a value function on {nevv} list pairs, see R06m)' + ('' if not _n else f' [{_n}]'), func=f.name, loc=s0.loc, trivial=bool(_n))
                    return
                rd.fail(inst, func=f.name, sig='no count/k test in the loop', loc=s0.loc, msg='the planner never compares the number of collected fragments with k (' + badv + ')')
                return
            tb, tc, tt = tests[0]
            esc = reaches_without(f, s0.bb, lambda i: i.bb not in body, lambda i: i is tc, s0.idx + 1)
            if esc is None:
                rd.ok(inst, func=f.name, loc=tc.loc)
            else:
                rd.fail(inst, func=f.name, sig='loop can end after an append without the count == k test', loc=tc.loc,
                        msg='after appending the k-th usable index the loop may terminate (i reaches k+m) before "count == k" is evaluated: '
                            'the call returns -1 with an unterminated list although k fragments are available')
            # success edge: the edge on which count == k holds stores the terminator at [count] and returns 0
            lhs_is_count = (L.pc.val(tc.ops[0]) - L.pc.val(tc.ops[1])) == pos + Poly.const(1) - Kp
            eq_true = tc.pred in ('eq',) or (tc.pred == 'sge' and lhs_is_count) or (tc.pred == 'sle' and not lhs_is_count)
            eqedge = f.blocks[tt.targets[0]] if eq_true else f.blocks[tt.targets[1]]
            vals = returns_via_edge(f, tb, eqedge)
            region = {eqedge} | set(_rf(eqedge, avoid_blocks={h}))
            tpos = None
            for tm in terms:
                if tm.bb in region:
                    tpos = elem(tm.ops[1], L.pc)
            if vals == {0} and tpos is not None and tpos == pos + Poly.const(1):
                rd.ok(f'{f.name}: count == k => fragments_needed[count] = -1, return 0', func=f.name, loc=terms[0].loc)
            else:
                rd.fail(f'{f.name}: success edge', func=f.name, sig=f'count==k edge returns {sorted(map(str, vals))}, terminator at {tpos}', loc=tt.loc,
                        msg=f'the count == k edge must store the -1 terminator right behind the last appended index (position {pos} + 1, found {tpos}) and return 0 (returns {sorted(map(str, vals))})')
            allret = set()
            for b in f.order:
                t = b.insts[-1]
                if t.op == 'ret' and t.ops:
                    from ..vflow import possible_consts
                    allret |= possible_consts(f, t.ops[0])
            if allret <= {0, -1} or all(isinstance(v, int) and v <= 0 for v in allret):
                rd.ok(f'{f.name}: returns only 0 or a negative value', func=f.name, loc=f.mod.src)
            else:
                rd.fail(f'{f.name}: return values', func=f.name, sig=f'returns {sorted(map(str, allret))}', loc=f.mod.src, msg='unexpected return values')
            # the appended value is the scan variable, which runs over [0, k+m)
            val = L0.pc.val(s0.ops[0])
            scan = [g_ for g_ in L0.guards() if g_.block is L0.header and Poly.atom(g_.iv) == val]
            okscan = False
            for g_ in scan:
                T_ = L0.trip(g_)
                init, step = L0.ivs()[g_.iv]
                if T_ is not None and init is not None and init.is_zero() and len(T_) == 2 and all(v == 1 for v in T_.values()) and \
                   sorted(re.sub(r'^.*\.', '', k_[0]) for k_ in T_) == ['k', 'm']:
                    okscan = True
            if okscan:
                rd.ok(f'{f.name}: stored indexes are the loop variable < k+m', func=f.name, loc=s0.loc)
            else:
                rd.fail(f'{f.name}: stored index range', func=f.name, sig=f'appended value {val}, scan {[str(L0.trip(g_)) for g_ in scan]}', loc=s0.loc,
                        msg=f'the value appended to the list ({val}) is not a scan variable running over 0 .. k+m-1')
        buf = _Buffered()
        _rs_shape(buf)
        if buf.fails():
            # the structural reading found something it does not recognise: the planner is small enough to be decided as a value
            # function over list pairs (R06m) - only when that fails as well is the structural finding reported
            try:
                badv, nevv = planner_value_check(P, f)
            except Exception as e_:
                badv, nevv = 'not decidable by value: ' + str(e_)[:80], 0
            if badv is None:
                buf.replay(rd, as_ok=f" (written in a form the structural rule does not read; decided as a value function on {nevv} list pairs, see R06m)")
                continue
        buf.replay(rd)

def run(ctx):
    P = ctx.program()
    cg = callgraph.get(P)
    r = ctx.rule('R06a', 'fragments_needed cone: fallible results are returned or tested',
                 'an adapter that returns 0 unconditionally reports success with the list untouched')
    chains.propagation_rule(P, r, ['fragments_needed'], shared.IN_SCOPE_BACKENDS, 'chain')
    r.require_min(5)

    r = ctx.rule('R05e', 'index spaces in the XOR planners/decoders (parity-relative vs absolute)')
    xorrules.index_space_rule(P, r)
    r.require_min(12)

    rc = ctx.rule('R06c', 'both the to-reconstruct and the to-exclude list influence what is written to fragments_needed[]',
                  'a planner that ignores the exclude list hands back fragments the caller said are unavailable')
    rd = ctx.rule('R06d', 'terminator and return structure of the planners',
                  'a list without -1 terminator, or -1 returned although k usable fragments exist')
    rule_planners(ctx, P, rc, rd, PLANNER_BACKENDS)
    # ---------------- R06e sibling agreement planner <-> decoder on the P xor Q equation
    r = ctx.rule('R06e', 'planner and decoder agree on the combined P-xor-Q equation for three missing data',
                 'the planner must request exactly the fragments decode_three_data will read')
    def combos(fn):
        out = []
        from ..vflow import access_path, fields_in_path
        def is_pb_elem(v):
            d = fn.defs.get(strip_int_casts(fn, v))
            if d is None or d.op != 'load':
                return False
            g = fn.defs.get(d.ops[0])
            if g is None or g.op != 'getelementptr':
                return False
            bd = fn.defs.get(strip_ptr_casts(fn, g.ops[0]))
            if bd is None or bd.op != 'load':
                return False
            _, st = access_path(P, fn, bd.ops[0])
            return fields_in_path(st)[-1:] == [('xor_code_s', 'parity_bms')]
        for i in fn.insts():
            if i.op in ('xor', 'and', 'or', 'add', 'sub') and len(i.ops) == 2:
                def leaf(v, depth=0):
                    if is_pb_elem(v):
                        return True
                    d = fn.defs.get(strip_int_casts(fn, v))
                    return d is not None and depth < 2 and d.op in ('xor', 'and', 'or') and any(leaf(o, depth + 1) for o in d.ops)
                if leaf(i.ops[0]) and leaf(i.ops[1]):
                    out.append(i)
        return out
    dec, pl = P.fn('decode_three_data'), P.fn('fragments_needed_three_data')
    cd, cp = combos(dec), combos(pl)
    Cd, Cp = Canon(P, dec), Canon(P, pl)
    norm = lambda C_, i: re.sub(r'phi%[\w.]+', 'IDX', re.sub(r'arg\d+', 'DESC', C_.val(i.res)))
    sd, sp = {norm(Cd, i) for i in cd}, {norm(Cp, i) for i in cp}
    if not sd or not sp:
        r.undecided('P xor Q equation', msg=f'combination of two parity equations not found (decoder {len(cd)}, planner {len(cp)})')
    elif sd == sp:
        r.ok('planner mask == decoder mask: ' + sorted(sd)[0][:80], func=pl.name, loc=cp[0].loc)
    else:
        r.fail('planner mask == decoder mask', func=pl.name, sig='planner combines P,Q as ' + sorted(sp)[0][:80], loc=cp[0].loc,
               msg=f'decode_three_data reads the data in {sorted(sd)} but the planner requests {sorted(sp)}: the returned list is not sufficient')
    r.require_min(1)
    rc.require_min(6); rd.require_min(7)

    # ---------------- R06g the solvers see the merged list
    r = ctx.rule('R06g', 'XOR planner: missing-element lists handed to the equation solvers are extracted from the merged (requested + excluded) list',
                 'a solver that is not told about an excluded parity picks it as the connected parity: the answer names an excluded fragment')
    from ..vflow import derived_pointers as _dp
    xf = P.fn('xor_hd_fragments_needed')
    cgx = callgraph.get(P)
    # merged buffer: a local allocation that receives elements loaded from both list parameters
    merged = []
    for a in [i for i in xf.insts() if i.op == 'call' and i.callee in ('@malloc', '@calloc') and i.res]:
        A, _x = _dp(xf, [a.res])
        srcs = set()
        for st in xf.insts():
            if st.op == 'store' and st.ops[1] in A:
                d = xf.defs.get(strip_int_casts(xf, st.ops[0]))
                if d is not None and d.op == 'load':
                    for pi in (1, 2):
                        Ap, _y = _dp(xf, [xf.params[pi][1]])
                        if d.ops[0] in Ap:
                            srcs.add(pi)
        if srcs == {1, 2}:
            merged.append((a, A))
    if not merged:
        r.fail('merged list', func=xf.name, sig='no merged list', loc=xf.mod.src, msg='xor_hd_fragments_needed does not merge fragments_to_reconstruct and fragments_to_exclude into one list of unavailable fragments')
    else:
        MA = set().union(*[A for _, A in merged])
        # solver = function of this unit from which index_of_connected_parity is reachable
        def reaches_icp(fn_name, seen=None):
            seen = seen or set()
            if fn_name in seen or fn_name not in P.fns:
                return False
            seen.add(fn_name)
            g = P.fns[fn_name]
            for c in g.insts():
                if c.op == 'call':
                    for cal in cgx.callees(g, c):
                        if cal == '@index_of_connected_parity' or reaches_icp(cal, seen):
                            return True
            return False
        n_ = 0
        for c in [i for i in xf.insts() if i.op == 'call' and i.callee in P.fns and reaches_icp(i.callee)]:
            for ai, arg in enumerate(c.ops):
                # the list may reach the solver through a merge with NULL ("no parity is unavailable")
                leaves_, st_, seen_ = [], [strip_ptr_casts(xf, arg)] if isinstance(arg, str) else [], set()
                while st_:
                    v_ = st_.pop()
                    if v_ in seen_:
                        continue
                    seen_.add(v_)
                    d_ = xf.defs.get(v_)
                    if d_ is not None and d_.op in ('phi', 'select'):
                        st_ += [strip_ptr_casts(xf, x_) for x_ in ([x for x, _ in d_.incoming] if d_.op == 'phi' else d_.ops[1:]) if x_ not in ('null', 'undef')]
                    elif d_ is not None:
                        leaves_.append(d_)
                for d in leaves_:
                    if d is not None and d.op == 'call' and d.callee in ('@get_missing_parity', '@get_missing_data'):
                        n_ += 1
                        src = strip_ptr_casts(xf, d.ops[1])
                        inst = f'{c.callee} at line {c.line}: argument {ai} = {d.callee[1:]}(merged list)'
                        if src in MA:
                            r.ok(inst, func=xf.name, loc=c.loc)
                        else:
                            r.fail(inst, func=xf.name, sig=f'{d.callee[1:]} of {Canon(P, xf).val(src)[:40]} given to {c.callee}', loc=d.loc,
                                   msg=f'{c.callee} receives {d.callee[1:]}({Canon(P, xf).val(src)}), not of the merged list: excluded fragments are unknown to the solver, '
                                       'which may then select an excluded parity')
    r.require_min(4)

    # ---------------- R06h two-data planner: the element handed on is the one that was NOT planned
    r = ctx.rule('R06h', 'XOR two-data planner: after choosing one of the two missing data elements, the list handed on holds the other one',
                 'if the planned element stays in the list it is planned twice and the other one never: the answer is well-formed but insufficient')
    from ..consteval import ConstEval as _CE6, Undecidable as _Und6
    n6 = 0
    for tname in ('fragments_needed_two_data',):
        tf = P.fns.get('@' + tname)
        if tf is None:
            continue
        li = [i_ for i_, (ty, nm) in enumerate(tf.params) if ty == 'i32*'][0]
        follow = '@fragments_needed_one_data' if tname.startswith('fragments') else '@decode_one_data'
        for label, answers in (('the first element has a parity of its own', [6]), ('only the second element has one', [-1, 6])):
            n6 += 1
            calls = []
            def hook(ins, args, answers=answers, calls=calls):
                if ins.callee == '@index_of_connected_parity':
                    calls.append(args[1])
                    return answers[len(calls) - 1] if len(calls) <= len(answers) else -1
                return None
            args = [None] * len(tf.params)
            args[li] = ('obj', 'L', ())
            inst = f'{tname}: {label}'
            try:
                res = _CE6(P, tf.mod).run(tf, args, stop_at={follow}, call_hook=hook, objs={'L': {(0,): 3, (1,): 5, (2,): -1}})
            except _Und6 as e:
                r.undecided(inst, loc=tf.mod.src, msg=str(e)); continue
            stops = [e for e in res['events'] if e[0] == 'stop']
            chosen = calls[len(answers) - 1] if len(calls) >= len(answers) else None
            if not stops:
                r.fail(inst, func=tf.name, sig='the remaining element is not handed on', loc=tf.mod.src, msg=f'{tname}: with {label} the single-element routine {follow} is never reached')
                continue
            L = stops[0][3].get('L', {})
            other = 5 if chosen == 3 else 3
            if chosen in (3, 5) and L.get((0,)) == other and L.get((1,)) == -1:
                r.ok(inst + f': plans element {chosen}, hands on [{other}, -1]', func=tf.name, loc=stops[0][1].loc)
            else:
                r.fail(inst, func=tf.name, sig=f'planned {chosen}, list handed on [{L.get((0,))}, {L.get((1,))}]', loc=stops[0][1].loc,
                       msg=f'{tname}: for the missing list [3, 5] where {label}, element {chosen} is planned and the list handed to {follow[1:]} is '
                           f'[{L.get((0,))}, {L.get((1,))}]: it must hold the other element followed by -1')
    r.require_min(2)

    # ---------------- R06i the element asked about is itself on the missing-data list handed to the equation search
    r = ctx.rule('R06i', 'XOR planner: every search for a connected parity counts the element it is asked about among the missing data',
                 'index_of_connected_parity accepts equations with at most one missing member: if the requested element is not counted, an equation that '
                 'also holds an excluded data element is accepted and the answer names the excluded fragment')
    hm = P.mod('src/builtin/xor_codes/xor_hd_code.c')
    # the scalar given to index_of_connected_parity is loaded from the list given as missing_data, or was stored into that list before the call
    for fn in hm.functions.values():
        for c in [c for c in fn.insts() if c.op == 'call' and c.callee == '@index_of_connected_parity']:
            x = strip_int_casts(fn, c.ops[1])
            md = strip_ptr_casts(fn, c.ops[3])
            A, _x = derived_pointers(fn, [md])
            xd = fn.defs.get(x)
            from_list = False
            def loaded_from(v, depth=0):
                d = fn.defs.get(strip_int_casts(fn, v))
                if d is None or depth > 4:
                    return False
                if d.op == 'load':
                    return d.ops[0] in A or strip_ptr_casts(fn, d.ops[0]) == md
                if d.op in ('phi', 'select'):
                    ops = [q for q, _ in d.incoming] if d.op == 'phi' else d.ops[1:]
                    return all(loaded_from(o, depth + 1) for o in ops if not (INT_RE.match(o) and int(o) < 0))
                return False
            from_list = loaded_from(x)
            stored = any(st.op == 'store' and st.ops[1] in A and strip_int_casts(fn, st.ops[0]) == x and
                         (st.bb is c.bb and st.idx < c.idx or c.bb in __import__('lecverif.cfg', fromlist=['x']).reachable_from(st.bb)) for st in fn.insts())
            inst = f'{fn.name}: index_of_connected_parity at line {c.line}'
            if from_list or stored:
                r.ok(inst + ': the element is ' + ('taken from' if from_list else 'added to') + ' the missing-data list', func=fn.name, loc=c.loc)
            else:
                r.fail(inst, func=fn.name, sig='element asked about is not on the missing-data list', loc=c.loc,
                       msg=f'{fn.name} asks for a parity connected to {Canon(P, fn).val(x)[:40]} but that element is not on the missing-data list it passes: equations that '
                           'also hold an excluded data element (really two unavailable members) are accepted, and the answer names the excluded fragment')
    r.require_min(5)

    # ---------------- R06j the failure value of the shortcut is the one its caller falls back on
    r = ctx.rule('R06j', 'XOR planner: a helper whose failure the caller detects with "== c" returns no other negative value',
                 'the shortcut reporting -2 instead of -1 skips the fall-back to the general planner: a satisfiable request is refused')
    hm2 = P.mod('src/builtin/xor_codes/xor_hd_code.c')
    nj = 0
    for fn in hm2.functions.values():
        for b_ in fn.order:
            tt = b_.insts[-1]
            if tt.op != 'br' or len(tt.targets) != 2 or not tt.ops:
                continue
            from ..guards import implied_atoms as _ia
            for truth in (True, False):
                for at, tv in _ia(fn, tt.ops[0], truth):
                    if at.pred not in ('eq', 'ne') or truth is False:
                        continue
                    ops_ = [strip_int_casts(fn, o) for o in at.ops]
                    cst = [o for o in ops_ if re.match(r'^-\d+$', o)]
                    if not cst:
                        continue
                    other = [o for o in ops_ if o not in cst]
                    # the compared value: a call result, possibly merged with the sentinel itself (ret initialised to -1)
                    cands, st_, seen_ = [], list(other), set()
                    while st_:
                        v = st_.pop()
                        if v in seen_:
                            continue
                        seen_.add(v)
                        d = fn.defs.get(v)
                        if d is None:
                            continue
                        if d.op == 'phi':
                            st_ += [strip_int_casts(fn, x) for x, _ in d.incoming]
                        elif d.op == 'call' and d.callee in hm2.functions:
                            cands.append(d)
                    for call in cands:
                        callee = hm2.functions[call.callee]
                        from ..vflow import possible_consts as _pcs
                        neg = set()
                        for rt in [x for x in callee.insts() if x.op == 'ret' and x.ops]:
                            neg |= {v for v in _pcs(callee, rt.ops[0]) if isinstance(v, int) and v < 0}
                        nj += 1
                        inst = f'{fn.name}: result of {call.callee[1:]} compared with {cst[0]} at line {tt.line}'
                        if neg <= {int(cst[0])}:
                            r.ok(inst + f': its only negative result is {cst[0]}', func=fn.name, loc=tt.loc)
                        else:
                            r.fail(inst, func=fn.name, sig=f'{call.callee[1:]} also returns {sorted(neg - {int(cst[0])})}', loc=tt.loc,
                                   msg=f'{fn.name} recognises the failure of {call.callee[1:]} by "== {cst[0]}" but the helper also returns {sorted(neg - {int(cst[0])})}: '
                                       'that failure is not recognised and the fall-back is skipped')
    if not nj:
        # nothing to agree on (the shortcut was merged into its caller): the rule is about a pair of sites
        r.ok('no helper of the planner is recognised by comparing its result with a negative constant', func='<xor_hd_code.c>', loc=hm2.src)
    r.require_min(1)

    # ---------------- R06n the equation that serves the last element always contributes its members
    r = ctx.rule('R06n', 'XOR planner, one unavailable data element left: whenever it answers 0 it has added the members of the chosen equation to the data bitmap',
                 'a shortcut that returns as soon as the parity is already marked assumes its members were added with it - the P xor Q step marks two parities and adds only what did not cancel')
    f1 = hm2.functions.get('@fragments_needed_one_data')
    if f1 is None:
        raise AnalysisBroken('anchor vanished: fragments_needed_one_data')
    from ..retval import returns_via_edge as _rve6n
    dparam = f1.params[3][1]
    Ad6, _ = derived_pointers(f1, [dparam])
    def adds_members(st):
        if st.op != 'store' or st.ops[1] not in Ad6:
            return False
        seen_, stack_ = set(), [st.ops[0]]
        while stack_:
            v_ = strip_int_casts(f1, stack_.pop())
            if v_ in seen_:
                continue
            seen_.add(v_)
            d_ = f1.defs.get(v_)
            if d_ is None:
                continue
            if d_.op == 'load':
                fl_ = fields_in_path(access_path(P, f1, d_.ops[0])[1])
                g_ = f1.defs.get(strip_ptr_casts(f1, d_.ops[0]))
                bd_ = f1.defs.get(strip_ptr_casts(f1, g_.ops[0])) if g_ is not None and g_.op == 'getelementptr' else None
                fl2_ = fields_in_path(access_path(P, f1, bd_.ops[0])[1]) if bd_ is not None and bd_.op == 'load' else []
                if (fl_ and fl_[-1] == ('xor_code_s', 'parity_bms')) or (fl2_ and fl2_[-1] == ('xor_code_s', 'parity_bms')):
                    return True
            elif d_.op in ('or', 'and', 'xor', 'phi', 'select'):
                stack_ += [o for o in (d_.ops if d_.op != 'phi' else [x for x, _ in d_.incoming]) if isinstance(o, str) and o.startswith('%')]
        return False
    adders = [i for i in f1.insts() if adds_members(i)]
    zero_rets = []
    for b_ in f1.order:
        t_ = b_.insts[-1]
        if t_.op == 'ret' and t_.ops:
            d_ = f1.defs.get(t_.ops[0])
            if d_ is not None and d_.op == 'phi' and d_.bb is b_:
                zero_rets += [f1.blocks[l_] for v_, l_ in d_.incoming if v_ == '0']
            elif t_.ops[0] == '0':
                zero_rets.append(b_)
    inst = 'fragments_needed_one_data: every path that answers 0 passes the store that ORs the chosen equation into *data_bm'
    if not adders or not zero_rets:
        r.undecided(inst, loc=f1.mod.src, msg=f'{len(adders)} stores of equation members, {len(zero_rets)} paths returning 0')
    elif shared.must_pass_store(f1, adders, zero_rets):
        r.ok(inst, func=f1.name, loc=adders[0].loc)
    else:
        r.fail(inst, func=f1.name, sig='planner answers 0 without adding the equation members', loc=adders[0].loc,
               msg='fragments_needed_one_data can return 0 on a path that does not add the data members of the equation it chose: the answer names the parity but not the '
                   'fragments the decoder will XOR with it')
    r.require_min(1)

    # ---------------- R06m RS-style planners as value functions
    r = ctx.rule('R06m', 'Reed-Solomon planners: the answer is the first k indexes that are neither requested nor excluded; an error iff fewer than k remain',
                 'a count of list entries instead of distinct indexes refuses satisfiable requests with overlapping lists; a wrong scan names unusable fragments')
    rule_rs_planner_values(ctx, P, r, ('@backend_liberasurecode_rs_vand', '@backend_isa_l_rs_vand', '@backend_isa_l_rs_cauchy',
                                       '@backend_jerasure_rs_vand', '@backend_jerasure_rs_cauchy'))     # the Jerasure adapters plan the same way
    r.require_min(2)

    # ---------------- R06k a shortcut that takes a parity equation as it is must find no excluded member in it
    r = ctx.rule('R06k', 'XOR planner: an equation is taken whole on the strength of a count of excluded data members only when that count is 0',
                 'with one excluded member accepted the answer names the excluded fragment (and the rest does not span the target)')
    from ..guards import upper_bound_at as _ub, Facts as _Facts
    xfn = P.fn('xor_hd_fragments_needed')
    excl = xfn.params[2][1]
    nk = 0
    for c in [i for i in xfn.insts() if i.op == 'call' and i.callee == '@num_missing_data_in_parity' and i.res]:
        ld = xfn.defs.get(strip_ptr_casts(xfn, c.ops[2]))
        if ld is None or ld.op != 'call' or ld.callee != '@get_missing_data' or strip_ptr_casts(xfn, ld.ops[1]) != excl:
            continue
        LA, _ = derived_pointers(xfn, [ld.res])
        if any(i.op == 'store' and i.ops[1] in LA for i in xfn.insts()):
            continue                                  # the list is extended (e.g. by the target itself): not a pure exclusion count
        tables = {q.res for q in xfn.insts() if q.op == 'load' and fields_in_path(access_path(P, xfn, q.ops[0])[1])[-1:] == [('xor_code_s', 'parity_bms')]}
        for q in xfn.insts():
            if q.op != 'load':
                continue
            gq = xfn.defs.get(strip_ptr_casts(xfn, q.ops[0]))
            if gq is None or gq.op != 'getelementptr' or strip_ptr_casts(xfn, gq.ops[0]) not in tables:
                continue
            users = [u for u in xfn.insts() if u.op == 'or' and q.res in [strip_int_casts(xfn, o) for o in u.ops]]
            for u in users:
                F_ = _Facts(P, xfn, u.bb)
                if not any(c.res in [strip_int_casts(xfn, o) for o in raw.ops] for raw, _t in F_.raw):
                    continue
                nk += 1
                ub = _ub(P, xfn, c.res, u.bb)
                inst = f'xor_hd_fragments_needed: equation taken at line {u.line} under a count of excluded members (line {c.line})'
                if ub is not None and ub <= 0:
                    r.ok(inst + ': only when the count is 0', func=xfn.name, loc=u.loc)
                else:
                    r.fail(inst, func=xfn.name, sig=f'equation accepted with up to {ub} excluded member(s)', loc=u.loc,
                           msg=f'the parity equation is added to the answer although up to {ub if ub is not None else "any number of"} of its data members may be on the exclude list: '
                               'the answer then names an excluded fragment')
    if not nk:
        r.ok('no shortcut accepts an equation on a count of excluded members', func=xfn.name, loc=xfn.mod.src, trivial=True)
    r.require_min(1)

    r = ctx.rule('R06f', 'bitmaps built from index lists are consumed only through single-bit tests',
                 'convert_list_to_bitmap sign-extends at index 31: a population count or whole-word comparison miscounts stripes that use fragment 31')
    shared.rule_list_bitmaps(ctx, P, r, every_backend=True)          # the adapters of external libraries answer fragments_needed themselves
    r.require_min(1)
    ctx.borrow('c05', ['R05f'], 'the planner classifies the merged list with the same failure-pattern machine as the decoder')
