"""C03 reconstruct fidelity: destination range (R03a), supplied destination returned unchanged (R03b), one serializer with
the encode-time arguments, applied after the backend wrote the payload (R03c), refusal chain (R02b)."""
import re
from .. import chains, callgraph, effects, xorrules
from ..vflow import Canon, strip_int_casts, strip_ptr_casts, derived_pointers
from ..guards import Facts, dominating_edges
from ..cfg import reachable_from, reaches_without
from ..build import AnalysisBroken
from . import shared

EXPLANATION = (
    "R03a: every use of destination_idx in liberasurecode_reconstruct_fragment as subscript, parity subscript (idx - k) or "
    "operation argument is dominated by 0 <= idx < k+m and the refusing edges return negative constants. R03b: on the path "
    "where the destination was found among the supplied fragments the bytes copied out come from the caller's fragment and no "
    "header-writing or payload-writing function touches it. R03c: the rebuilt fragment's header is produced by the same "
    "serializer as at encode (add_fragment_metadata) with add_chksum != 0, ct loaded from the instance, idx = destination_idx "
    "and the two sizes filled in by prepare_fragments_for_decode; the serializer call is dominated by the success edge of the "
    "backend reconstruct operation (checksum after payload) and the copy-out follows it. R02b: the reconstruct cone propagates "
    "failures; R05h: the XOR reconstruct falls back to the full decoder with the complete erasure list. NOT decided: byte "
    "identity of the rebuilt payload (runtime values).")

def run(ctx):
    P = ctx.program()
    cg = callgraph.get(P)
    E = effects.get(P)
    r = ctx.rule('R03a', 'destination index is range-checked (0 <= idx < k+m) before every use',
                 'an out-of-range destination indexes data[]/parity[] out of bounds')
    shared.rule_dest_range(ctx, P, r)
    r.require_min(4)

    f, di = shared.param_by_name(ctx, P, 'liberasurecode_reconstruct_fragment', 'destination_idx')
    _, oi = shared.param_by_name(ctx, P, 'liberasurecode_reconstruct_fragment', 'out_fragment')
    _, li = shared.param_by_name(ctx, P, 'liberasurecode_reconstruct_fragment', 'fragment_len')
    C = Canon(P, f)
    op = [i for i in f.insts() if i.op == 'call' and i.callee.startswith('%') and set(cg.callees(f, i)) & set(cg.slot_functions('reconstruct').values())]
    amd = [i for i in f.insts() if i.op == 'call' and i.callee == '@add_fragment_metadata']
    prep = [i for i in f.insts() if i.op == 'call' and i.callee == '@prepare_fragments_for_decode']
    outs, _ = derived_pointers(f, [f.params[oi][1]])
    copies = [i for i in f.insts() if i.op == 'call' and i.callee.startswith('@llvm.memcpy') and i.ops[0] in outs]
    if not op or not copies or not prep:
        raise AnalysisBroken('anchor vanished: reconstruct_fragment lacks the backend call / copy-out / prepare call')
    opc, cp = op[0], copies[0]

    # ---------------- R03b
    r = ctx.rule('R03b', 'a destination that was supplied is copied out unchanged (no writer touches it)',
                 'reconstructing an index that is present must return the caller\'s bytes')
    # copy-outs reachable without passing the backend call: their source is the supplied fragment
    opreach = reachable_from(opc.bb)
    skip = []          # (copy, value, block the value arrives from / copy block)
    for cpx in copies:
        src = strip_ptr_casts(f, cpx.ops[1])
        sd = f.defs.get(src)
        if cpx.bb not in opreach:
            skip.append((cpx, src, cpx.bb))
        elif sd is not None and sd.op == 'phi':
            skip += [(cpx, v, f.blocks[l]) for v, l in sd.incoming if f.blocks[l] not in opreach]
    region_of = {}
    if not skip:
        # the copy-out (and the choice of its source) may be shared by both cases, with the rebuild and the stamping each behind a
        # test of the same "destination is missing" value: follow only paths that are consistent in that value
        from ..cfg import feasible_reachable
        Rskip = feasible_reachable(f, f.entry, avoid_blocks={opc.bb})
        for cpx in copies:
            if cpx.bb in Rskip:
                src = strip_ptr_casts(f, cpx.ops[1])
                skip.append((cpx, src, cpx.bb))
                region_of[id(cpx)] = Rskip
    if not skip:
        r.fail('destination-available path', func=f.name, sig='no path returns the supplied fragment', loc=cp.loc,
               msg='every path to the copy-out passes the backend reconstruct: a supplied destination is recomputed instead of returned')
    for cpx, v, lb in skip:
            vals = {v}
            d = f.defs.get(v)
            if d is not None and d.op == 'phi':
                vals |= {x for x, _ in d.incoming}
            ok_src = True
            for x in vals:
                xd = f.defs.get(x)
                if xd is not None and xd.op == 'phi':
                    continue
                if not (xd is not None and xd.op == 'load'):
                    ok_src = False
            # no writer applied to that value
            A, _ = derived_pointers(f, list(vals))
            writers = []
            for i in f.insts():
                in_region = (i.bb in region_of[id(cpx)] and cpx.bb in reachable_from(i.bb)) if id(cpx) in region_of else \
                            ((lb in reachable_from(i.bb) or i.bb is lb) and i.bb not in opreach)
                if i.op == 'call' and i is not cpx and in_region and not (i.callee or '').startswith('@llvm.dbg'):
                    for ai, a in enumerate(i.ops):
                        if a in A:
                            for cal in cg.callees(f, i):
                                if E.writes_through(cal, ai, deep=False):
                                    writers.append((i, cal))
                elif i.op == 'store' and i.ops[1] in A and (in_region if id(cpx) in region_of else i.bb not in opreach):
                    writers.append((i, 'store'))
            if ok_src and not writers:
                r.ok('supplied destination: element of data[]/parity[] copied out, untouched', func=f.name, loc=cpx.loc, facts={'source': C.val(v)})
            elif writers:
                i, cal = writers[0]
                r.fail('supplied destination unchanged', func=f.name, sig=f'supplied fragment passed to {cal}', loc=i.loc,
                       msg=f'on the destination-available path the caller\'s fragment is handed to {cal}, which writes to it')
            else:
                r.fail('supplied destination source', func=f.name, sig=f'copy source {C.val(v)[:50]}', loc=cpx.loc, msg='the bytes copied out are not the supplied fragment')
    r.require_min(1)

    # ---------------- R03d the output buffer is only the target of the copy-out
    r = ctx.rule('R03d', 'reconstruct: the caller\'s output buffer is written only by the final copy-out of the whole fragment; it is never handed to the coders',
                 'the coders accumulate (XOR) into their destination and rely on a fresh zeroed buffer: rebuilding in place mixes in whatever the caller\'s buffer held')
    misuse = []
    for i in f.insts():
        for ai, a in enumerate(i.ops):
            if not (isinstance(a, str) and a in outs):
                continue
            if i.op in ('bitcast', 'getelementptr', 'icmp', 'phi', 'select', 'ptrtoint'):
                continue                  # address computations and tests (NULL, alignment) read nothing and write nothing
            if i.op == 'call' and i.callee.startswith('@llvm.memcpy') and ai == 0:
                continue
            if i.op == 'call' and (i.callee.startswith('@llvm.dbg') or i.callee in ('@syslog',)):
                continue
            if i.op == 'store' and ai == 1:
                misuse.append((i, 'is written directly')); continue
            if i.op == 'store' and ai == 0:
                misuse.append((i, 'is stored into a fragment array / variable that outlives the copy-out')); continue
            if i.op == 'call':
                misuse.append((i, f'is passed to {i.callee}')); continue
            misuse.append((i, f'is used by {i.op}'))
    if misuse:
        i, how = misuse[0]
        r.fail('output buffer use', func=f.name, sig='out_fragment ' + how[:60], loc=i.loc,
               msg=f'out_fragment {how}: the rebuilt fragment must be produced in the library\'s own zeroed buffer and copied out once, '
                   'otherwise its bytes depend on what the caller\'s buffer held before')
    else:
        r.ok(f'out_fragment: {len(copies)} copy-out(s) of the whole fragment, no other use', func=f.name, loc=cp.loc)
    for cpx in copies:
        ln = C.val(strip_int_casts(f, cpx.ops[2]))
        if ln != C.val(strip_int_casts(f, f.params[li][1])):
            r.fail('copy-out length', func=f.name, sig=f'copy-out of {ln[:40]} bytes', loc=cpx.loc, msg=f'the copy-out writes {ln} bytes, not fragment_len')
    r.require_min(1)

    # ---------------- R03c
    r = ctx.rule('R03c', 'rebuilt header: same serializer and arguments as encode, after the backend wrote the payload, before the copy-out',
                 'header, metadata checksum and payload checksum of a rebuilt fragment must equal what encode produced')
    if not amd:
        r.fail('serializer call', func=f.name, sig='add_fragment_metadata not called', loc=opc.loc, msg='the rebuilt fragment never gets a header')
    for a in amd:
        args = [C.val(strip_int_casts(f, x)) for x in a.ops]
        probs = []
        if args[2] != f'arg{di}':
            probs.append(f'idx argument is {args[2]}, not destination_idx')
        # sizes: the locals filled by prepare_fragments_for_decode (orig_size -> arg 5, payload size -> arg 6 of prepare)
        o_slot, p_slot = strip_ptr_casts(f, prep[0].ops[5]), strip_ptr_casts(f, prep[0].ops[6])
        def loaded_from(v, slot):
            d = f.defs.get(strip_int_casts(f, v))
            return d is not None and d.op == 'load' and strip_ptr_casts(f, d.ops[0]) == slot
        if not loaded_from(a.ops[3], o_slot):
            probs.append(f'orig_data_size argument ({args[3]}) is not the value prepare_fragments_for_decode returned')
        if not loaded_from(a.ops[4], p_slot):
            probs.append(f'payload size argument ({args[4]}) is not the value prepare_fragments_for_decode returned')
        if not re.search(r'\.args\.uargs\.ct$', args[5]):
            probs.append(f'checksum type is {args[5]}, not the instance\'s ct')
        if args[6] in ('0',) or not re.match(r'^-?\d+$', args[6]):
            probs.append(f'add_chksum is {args[6]} (must be a non-zero constant)')
        # the blocksize passed to the backend is the same payload size
        if not loaded_from(opc.ops[-1], p_slot):
            probs.append('blocksize given to the backend differs from the payload size written to the header')
        # ordering: dominated by the success edge of the op call; copy-out after
        succ = None
        for src_, dst_ in dominating_edges(f, a.bb):
            t = src_.insts[-1]
            c = f.defs.get(t.ops[0]) if t.ops else None
            if c is not None and c.op == 'icmp' and opc.res in [strip_int_casts(f, o) for o in c.ops]:
                succ = (src_, dst_)
        if succ is None:
            probs.append('the serializer is not applied after a successful backend reconstruct (payload checksum would cover bytes not yet written)')
        after = [c for c in copies if c.bb in reachable_from(opc.bb)]
        if not after:
            probs.append('no copy-out follows the backend reconstruct')
        for c in after:
            if reaches_without(f, opc.bb, lambda i, c=c: i is c, lambda i, a=a: i is a, opc.idx + 1) is not None:
                probs.append('a path from the backend reconstruct reaches the copy-out without passing the serializer')
        ih = [i for i in f.insts() if i.op == 'call' and i.callee == '@init_fragment_header' and C.val(i.ops[0]) == C.val(a.ops[1])]
        if not ih:
            probs.append('init_fragment_header is not applied to the rebuilt fragment')
        if probs:
            r.fail('add_fragment_metadata call in reconstruct', func=f.name, sig='serializer: ' + probs[0][:90], loc=a.loc, msg='; '.join(probs))
        else:
            r.ok('add_fragment_metadata(instance, fragment, destination_idx, sizes from prepare, instance ct, checksum on) after the backend, before copy-out',
                 func=f.name, loc=a.loc, facts={'args': args})
    # the encode side is the sibling: it must hand the serializer the instance's checksum type as it is, too
    fe_ = P.fn('finalize_fragments_after_encode')
    Ce_ = Canon(P, fe_)
    for a_ in [i for i in fe_.insts() if i.op == 'call' and i.callee == '@add_fragment_metadata']:
        ctv = Ce_.val(strip_int_casts(fe_, a_.ops[5]))
        inst = f'finalize_fragments_after_encode: checksum type handed to add_fragment_metadata at line {a_.line}'
        if re.search(r'\.args\.uargs\.ct$', ctv):
            r.ok(inst + ' is the instance\'s ct, as in reconstruct', func=fe_.name, loc=a_.loc)
        else:
            r.fail(inst, func=fe_.name, sig=f'encode stamps checksum type {ctv[:50]}', loc=a_.loc,
                   msg=f'encode stamps the checksum type {ctv} while reconstruct stamps the instance\'s ct as configured: a rebuilt fragment differs from the encoded one in '
                       'its chksum_type byte (and metadata checksum) whenever the two disagree')
    # copy length = fragment_len
    for cpx in copies:
        if C.val(strip_int_casts(f, cpx.ops[2])) == f'arg{li}':
            r.ok('copy-out length is fragment_len', func=f.name, loc=cpx.loc)
        else:
            r.fail('copy-out length', func=f.name, sig=f'copies {C.val(cpx.ops[2])[:40]}', loc=cpx.loc, msg='the output fragment is not copied with the full fragment length')
    r.require_min(2)

    r = ctx.rule('R02b', 'reconstruct cone: fallible results are returned or tested')
    chains.propagation_rule(P, r, ['reconstruct'], shared.IN_SCOPE_BACKENDS, 'chain')
    r.require_min(6)
    r = ctx.rule('R05h', 'xor_reconstruct_one falls back to the full decoder with the complete erasure list')
    xorrules.reconstruct_fallback_rule(P, r)
    r.require_min(2)
    from . import c01
    rb = ctx.rule('R01b', 'fragments handed to the backends are 16-byte aligned (fresh allocation or alignment test passed)')
    rc = ctx.rule('R01c', 'replacement copy of an unaligned fragment copies header + payload',
                  'a short copy zeroes the tail of every realigned survivor: success with wrong bytes')
    c01.rule_realign(ctx, P, rb, rc)
    rb.require_min(5); rc.require_min(2)
    r = ctx.rule('R05i', 'bitmaps assembled from an index list in a loop accumulate (|=), they are not overwritten',
                 'with "=" only the last listed element is rebuilt / counted: success with stale buffers for two or more erasures')
    shared.rule_bitmap_accumulation(ctx, P, r)
    r.require_min(1)
