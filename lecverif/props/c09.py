"""C09 header acceptance: predicate shape (R09b), gating before consumers (R09a), native-order getters (R09d), read-only (R09c)."""
import re
from .. import callgraph, oblig, effects, api
from ..oblig import strip_ext, strip_trunc32, find_between, const_of, split_symbolic_returns
from ..paths import enumerate_paths
from ..vflow import Canon, access_path, fields_in_path, strip_int_casts, strip_ptr_casts
from ..guards import Facts
from ..cfg import natural_loops, dominators, dominates, reachable_from
from ..retval import returns_via_edge, all_negative
from ..build import AnalysisBroken
from . import shared

EXPLANATION = (
    "R09b: all acyclic paths of is_invalid_fragment_header are enumerated; obligations on the atoms of each path: version 0 is "
    "invalid; valid requires the magic natively or byte-swapped; on swapped paths the version gate and both checksum tests use "
    "the 32-bit byte swaps of the stored fields, on native paths the stored fields; valid without a checksum test only under "
    "version < 1.2.0; otherwise a full-width 32-bit equality with crc32(0,&meta,59) or crc32_alt(0,&meta,59); both unequal is "
    "invalid. R09a: in decode, reconstruct and the metadata query the validation of every supplied fragment dominates the first "
    "consumer of header fields and its failing edge returns -EBADHEADER; validation loops have no exit other than the bound and "
    "the error edge. R09d: helper getters read metadata only behind a native-order magic test. R09c: the validation entry points "
    "have no write effect on the fragment (transitively, external contracts). NOT decided: correctness of zlib crc32; the "
    "'damaged bytes still satisfy the checksum' clause is probabilistic.")

MAGIC = 0x0b0c5ecc
SWAPPED_MAGIC = int.from_bytes((MAGIC & 0xffffffff).to_bytes(4, 'little'), 'big')      # the magic as an opposite-endian writer stores it
V120 = 0x010200

def bswap_of(e):
    m = re.match(r'^@(?:__libec_bswap_32|llvm\.bswap\.i32|__bswap_32)\((.*)\)$', e)
    return m.group(1) if m else None

def run_r09b(ctx, P):
    # ---------------- R09b
    r = ctx.rule('R09b', 'is_invalid_fragment_header: path obligations o1-o6',
                 'accept(header) must be exactly: magic either order, version != 0, and for >= 1.2.0 a full 32-bit CRC match')
    f = P.fn('is_invalid_fragment_header')
    paths = split_symbolic_returns(enumerate_paths(P, f))
    fld = lambda name: (lambda e: bool(re.match(r'^\*arg0\.%s$' % name, e)))
    ismagic, isver, ischk = fld('magic'), fld('libec_version'), fld('metadata_chksum')
    def is_crc(e):
        e = strip_trunc32(strip_ext(e))
        m = re.match(r'^@(crc32|liberasurecode_crc32_alt)\(0,&arg0\.meta,59\)$', e)
        return m.group(1) if m else None
    nvalid = 0
    def strict_form(t):
        """`v <= C - 1` is `v < C` and `v > C - 1` is `v >= C`: comparisons with a constant in the form the gate is stated in"""
        pr, a, b, w, i = t
        cb = const_of(b)
        if cb is not None and pr in ('ule', 'sle'):
            return (pr[0] + 'lt', a, str(cb + 1), w, i)
        if cb is not None and pr in ('ugt', 'sgt'):
            return (pr[0] + 'ge', a, str(cb + 1), w, i)
        return t
    for n, p in enumerate(paths):
        T = [strict_form(t) for t in p.truths()]
        valid = p.ret == '0'
        c = const_of(p.ret)
        if c is None:
            r.undecided(f'path #{n}', msg=f'symbolic return {p.ret}')
            continue
        native = any(pr == 'eq' and ((ismagic(a) and const_of(b) == MAGIC) or (ismagic(b) and const_of(a) == MAGIC)) for pr, a, b, w, i in T)
        swapped = any(pr == 'eq' and ((bswap_of(a) and ismagic(bswap_of(a)) and const_of(b) == MAGIC) or
                                      (bswap_of(b) and ismagic(bswap_of(b)) and const_of(a) == MAGIC) or
                                      (ismagic(a) and const_of(b) is not None and const_of(b) & 0xffffffff == SWAPPED_MAGIC) or
                                      (ismagic(b) and const_of(a) is not None and const_of(a) & 0xffffffff == SWAPPED_MAGIC)) for pr, a, b, w, i in T)
        ver0 = any(pr == 'eq' and isver(a) and b == '0' for pr, a, b, w, i in T)
        vernz = any(pr == 'ne' and isver(a) and b == '0' for pr, a, b, w, i in T)
        loc = p.blocks[-1].insts[-1].loc
        pid = f'path #{n} ({"valid" if valid else "invalid"}; {"native" if native else "swapped" if swapped else "no magic"})'
        if ver0:
            if valid:
                r.fail(pid + ' o1', func=f.name, sig='version 0 accepted', loc=loc, msg='a header with libec_version == 0 is accepted')
            else:
                r.ok(pid + ' o1: version 0 => invalid', func=f.name, loc=loc)
            continue
        if not valid:
            # o6 / magic: an invalid verdict must be justified: no magic, or both CRCs unequal
            crcs = [(pr, is_crc(a) or is_crc(b)) for pr, a, b, w, i in T if (is_crc(a) or is_crc(b))]
            if (not native and not swapped) or all(pr == 'ne' for pr, _ in crcs) and len(crcs) >= 1:
                r.ok(pid + ': invalid is justified', func=f.name, loc=loc, trivial=True)
            else:
                r.fail(pid, func=f.name, sig='rejects a header whose checksum matched', loc=loc, msg=f'invalid verdict although {crcs}')
            continue
        nvalid += 1
        # o1'
        if not vernz:
            r.fail(pid + ' o1', func=f.name, sig='version 0 not excluded on a valid path', loc=loc, msg='valid without testing libec_version != 0')
        else:
            r.ok(pid + ' o1: version != 0', func=f.name, loc=loc)
        # o2
        if not (native or swapped):
            r.fail(pid + ' o2', func=f.name, sig='valid without magic', loc=loc, msg='header accepted without the magic in either byte order')
            continue
        r.ok(pid + ' o2: magic ok', func=f.name, loc=loc)
        want = (lambda e, isf: (bswap_of(e) is not None and isf(bswap_of(e)))) if swapped and not native else (lambda e, isf: isf(e))
        order = 'byte-swapped' if swapped and not native else 'stored'
        # o4 / o3 version gate
        gates = [(pr, a, b, w, i) for pr, a, b, w, i in T if const_of(b) == V120 and (isver(a) or (bswap_of(a) and isver(bswap_of(a))))]
        crcs = [(pr, a, b, w, i) for pr, a, b, w, i in T if is_crc(a) or is_crc(b)]
        old = [g for g in gates if g[0] == 'ult']
        new = [g for g in gates if g[0] == 'uge']
        if not gates:
            weaker = [(pr, a, b) for pr, a, b, w, i in T if (isver(a) or (bswap_of(a) and isver(bswap_of(a)))) and b != '0']
            if weaker:
                r.fail(pid + ' o4', func=f.name, sig=f'version gate {weaker[0][0]} {weaker[0][2]}', loc=loc,
                       msg=f'version gate is {weaker[0]} instead of "< 0x010200"')
            elif not crcs:
                r.fail(pid + ' o4', func=f.name, sig='valid without version gate or checksum', loc=loc, msg='accepted with neither a version gate nor a checksum test')
            continue
        g = gates[0]
        if g[0] in ('ule', 'ugt', 'sle', 'sgt', 'slt', 'sge', 'eq', 'ne'):
            r.fail(pid + ' o4', func=f.name, sig=f'version gate {g[0]} 0x010200', loc=g[4].loc,
                   msg=f'the pre-checksum gate must be "version < 0x010200" (unsigned); found {g[0]}')
            continue
        if not want(g[1], isver):
            r.fail(pid + ' o3', func=f.name, sig=f'version gate on {g[1]} ({order} expected)', loc=g[4].loc,
                   msg=f'on this path the version must be read {order}, the gate tests {g[1]}')
        else:
            r.ok(pid + f' o3: version gate uses the {order} version', func=f.name, loc=g[4].loc)
        if old and not crcs:
            r.ok(pid + ' o4: pre-1.2.0 writer, no checksum required', func=f.name, loc=g[4].loc)
            continue
        if old and crcs:
            r.ok(pid + ' o4', func=f.name, loc=g[4].loc, trivial=True)
        # o5
        eqs = [x for x in crcs if x[0] == 'eq']
        if not eqs:
            r.fail(pid + ' o5', func=f.name, sig='valid without checksum equality', loc=loc, msg='header of a >= 1.2.0 writer accepted without a matching metadata checksum')
            continue
        for pr, a, b, w, i in eqs:
            ref, crc = (a, b) if is_crc(b) else (b, a)
            full = (w in ('i32', 'i32?')) and strip_ext(crc) == crc or w in ('i32', 'i32?')
            masked = ' and ' in ref or ' and ' in crc or 'trunc.i16' in ref + crc or 'trunc.i8' in ref + crc or 'lshr' in ref + crc
            if not want(strip_ext(ref), ischk):
                r.fail(pid + ' o3/o5', func=f.name, sig=f'checksum reference {ref} ({order} expected)', loc=i.loc,
                       msg=f'the stored checksum must be read {order} on this path; compared value is {ref}')
            elif masked or w not in ('i32', 'i32?'):
                r.fail(pid + ' o5', func=f.name, sig=f'checksum compared at width {w}' + (' masked' if masked else ''), loc=i.loc,
                       msg='the metadata checksum comparison is not a full 32-bit equality')
            else:
                r.ok(pid + f' o5: 32-bit equality with {is_crc(crc)}', func=f.name, loc=i.loc)
    if nvalid < 4:
        r.undecided('valid paths', msg=f'only {nvalid} valid paths (native/swapped x old/new expected)')
    r.require_min(12)


def run(ctx):
    P = ctx.program()
    cg = callgraph.get(P)
    E = effects.get(P)

    run_r09b(ctx, P)

    # ---------------- R09a gating
    r = ctx.rule('R09a', 'header validation dominates the first consumer in decode / reconstruct / get_fragment_metadata; failing edge => -EBADHEADER',
                 'a consumer that runs before validation uses attacker-controlled indexes and sizes')
    ebad = None
    for m in P.mods:
        e = m.enumerators('EBADHEADER')
        if 'EBADHEADER' in e:
            ebad = e['EBADHEADER']
    if ebad is None:
        raise AnalysisBroken('anchor vanished: enumerator EBADHEADER')
    shared.rule_validation_gates(ctx, P, r, ebad)
    r.require_min(3)

    # ---------------- R09d native getters
    r = ctx.rule('R09d', 'helper getters read header metadata only behind a native-order magic test',
                 'decode/reconstruct accept exactly the host-order subset of valid headers')
    hm = P.mod('src/erasurecode_helpers.c')
    for g in hm.functions.values():
        if g.name in ('@alloc_fragment_buffer',):
            continue
        for i in g.insts():
            if i.op != 'load':
                continue
            root, steps = access_path(P, g, i.ops[0])
            fl = fields_in_path(steps)
            if not fl or fl[0][0] != 'fragment_header_s' or fl[0][1] == 'magic':
                continue
            F = Facts(P, g, i.bb)
            ok = any(pr == 'eq' and ((re.search(r'\.magic$', a) and const_of(b) == MAGIC) or (re.search(r'\.magic$', b) and const_of(a) == MAGIC))
                     for pr, a, b in F.facts) or \
                 any(pr == 'ne' and '@is_fragment(' in a and b == '0' for pr, a, b in F.facts)
            inst = f'{g.name}: load {".".join(x[1] for x in fl)}'
            if ok:
                r.ok(inst, loc=i.loc, func=g.name)
            else:
                r.fail(inst, func=g.name, sig='header field read without native magic test: ' + '.'.join(x[1] for x in fl), loc=i.loc,
                       msg='a getter returns header metadata without first comparing the magic in host order')
    # reads of a header field through a byte copy (`memcpy(&raw, buf + offsetof(fragment_header_t, meta.idx), 4)`) out of a buffer
    # the same function addresses as a fragment header
    from ..vflow import strip_ptr_casts as _spc9
    for g in hm.functions.values():
        bases = {_spc9(g, bc.ops[0]) for bc in g.insts() if bc.op == 'bitcast' and bc.ty and 'fragment_header_s*' in bc.ty.replace(' ', '')}
        if not bases or g.name in ('@alloc_fragment_buffer',):
            continue
        for i in g.insts():
            if i.op == 'call' and (i.callee or '').startswith('@llvm.memcpy') and len(i.ops) > 2 and re.match(r'^\d+$', i.ops[2]):
                x, nbytes = i.ops[1], int(i.ops[2])
            elif i.op == 'load' and i.ty in ('i8', 'i16', 'i32', 'i64') and g.defs.get(i.ops[0]) is not None and g.defs[i.ops[0]].op == 'bitcast':
                x, nbytes = i.ops[0], int(i.ty[1:]) // 8
            else:
                continue
            off, n_ = 0, 0
            d_ = g.defs.get(x)
            while d_ is not None and n_ < 8:
                if d_.op == 'bitcast':
                    x = d_.ops[0]
                elif d_.op == 'getelementptr' and d_.gep_base_ty == 'i8' and len(d_.ops) == 2 and re.match(r'^-?\d+$', d_.ops[1]):
                    off += int(d_.ops[1]); x = d_.ops[0]
                else:
                    break
                d_ = g.defs.get(x); n_ += 1
            if x not in bases:
                continue
            path = E._field_at('fragment_header_s', off, nbytes)
            if not path or path == ('magic',):
                continue
            F = Facts(P, g, i.bb)
            ok = any(pr == 'eq' and ((re.search(r'\.magic$', a) and const_of(b) == MAGIC) or (re.search(r'\.magic$', b) and const_of(a) == MAGIC))
                     for pr, a, b in F.facts) or \
                 any(pr == 'ne' and '@is_fragment(' in a and b == '0' for pr, a, b in F.facts)
            inst = f'{g.name}: byte copy of {".".join(path)}'
            if ok:
                r.ok(inst, loc=i.loc, func=g.name)
            else:
                r.fail(inst, func=g.name, sig='header field read without native magic test: ' + '.'.join(path), loc=i.loc,
                       msg='a getter returns header metadata without first comparing the magic in host order')
    r.require_min(8)

    # ---------------- R09c read-only
    r = ctx.rule('R09c', 'validation never writes to the fragment (transitive effect analysis)',
                 'validation that patches the header invalidates its own checksum / hides corruption')
    targets = [('is_invalid_fragment_header', 'header', 0), ('liberasurecode_get_fragment_metadata', 'fragment', 0),
               ('is_invalid_fragment', 'fragment', 1), ('liberasurecode_verify_stripe_metadata', 'fragments', 1),
               ('is_invalid_fragment_metadata', 'fragment_metadata', 1), ('liberasurecode_verify_fragment_metadata', 'md', 1)]
    for fname, pname, pi in targets:
        g = P.fn(fname)
        wit = E.writes_through('@' + fname, pi, deep=True)
        inst = f'{fname}({pname}) has no write effect'
        if wit:
            r.fail(inst, func=g.name, sig=f'writes through {pname}: {wit[0][2][:60]}', loc=wit[0][1], msg=f'{fname} may write to its input: {wit[0][2]} at {wit[0][1]}')
        else:
            r.ok(inst, func=g.name, loc=g.mod.src)
    if E.unknown_externals:
        r.undecided('external contracts', msg=f'externals without contract in the cone: {sorted(E.unknown_externals)}')
    r.require_min(6)
    # ---------------- R09e the partition step refuses what is not a host-order fragment
    r = ctx.rule('R09e', 'get_fragment_partition: a buffer whose index helper answers "not a fragment" (negative) ends the call with an error',
                 'the header loop lets opposite-endian headers through on purpose; this test is what keeps them (and non-fragments) out of decode / reconstruct')
    from ..oblig import simulate as _sim9
    gp = P.fn('get_fragment_partition')
    idxc = [i for i in gp.insts() if i.op == 'call' and i.callee == '@get_fragment_idx' and i.res]
    if not idxc:
        raise AnalysisBroken('anchor vanished: get_fragment_partition does not read the fragment index')
    for c in idxc:
        prob = None
        for kind, val, trail in _sim9(gp, c, -1):
            if kind == 'reexec':
                prob = 'the loop goes on to the next fragment (the buffer is treated as missing)'
            elif kind == 'ret' and (val is None or val >= 0):
                prob = prob or f'the function can return {val}'
            elif kind == 'limit':
                prob = prob or 'undecided'
        inst = f'get_fragment_partition: negative index at line {c.line} => error return'
        if prob is None:
            r.ok(inst, func=gp.name, loc=c.loc)
        elif prob == 'undecided':
            r.undecided(inst, loc=c.loc, msg='step limit')
        else:
            r.fail(inst, func=gp.name, sig='negative fragment index not refused: ' + prob[:50], loc=c.loc,
                   msg=f'when get_fragment_idx reports that the buffer is not a host-order fragment, {prob}: decode and reconstruct then accept a stripe that contains such a header')
    r.require_min(1)
    # ---------------- R09f the consumers look at every supplied fragment
    r = ctx.rule('R09f', 'fragments_to_string / get_fragment_partition read the index of every supplied fragment: their loop ends at the count or with an error',
                 'the index helper is what refuses opposite-endian (and non-) fragments: a loop that stops early accepts a stripe whose later members were never looked at')
    from ..poly import PolyCtx as _PC9f, Poly as _P9f
    from ..loops import loops_of as _lo9f, innermost as _in9f
    from ..retval import returns_via_edge as _rve9f, all_negative as _an9f
    for fname in ('fragments_to_string', 'get_fragment_partition'):
        g_ = P.fn(fname)
        pc_ = _PC9f(P, g_)
        LS_ = _lo9f(P, g_, pc_)
        cnt = [pi for pi, (ty_, n_) in enumerate(g_.params) if ty_ == 'i32'][2:3]        # (k, m, fragments, num_fragments, ...)
        for c in [i for i in g_.insts() if i.op == 'call' and i.callee == '@get_fragment_idx' and i.res]:
            L_ = _in9f(LS_, c.bb)
            inst = f'{fname}: the loop around get_fragment_idx (line {c.line}) visits all num_fragments entries'
            if L_ is None or not cnt:
                r.undecided(inst, loc=c.loc, msg='the index is not read inside a loop over the fragments')
                continue
            want = _P9f.atom(f'arg{cnt[0]}')
            problems = []
            bound_ok = False
            for (xb, xs) in L_.exits:
                gs = [gd for gd in L_.guards() if gd.block is xb and gd.exit_edge == (xb, xs)]
                if any(L_.count_for(gd)[0] == want for gd in gs):
                    bound_ok = True
                    continue
                if _an9f(_rve9f(g_, xb, xs)):
                    continue                       # an error exit
                problems.append(f'the loop can be left at line {xb.insts[-1].line} before every fragment was looked at')
            if not bound_ok:
                problems.append('no exit of the loop is the end of the list (count = num_fragments)')
            if problems:
                r.fail(inst, func=g_.name, sig='fragment loop: ' + problems[0][:70], loc=c.loc, msg='; '.join(problems) + ': fragments behind that point are accepted unseen')
            else:
                r.ok(inst, func=g_.name, loc=c.loc)
    r.require_min(2)
    ctx.borrow('c10', ['R10d'], 'the metadata checksum is accepted when it equals the standard or the historical CRC: the historical function must be the historical function')
