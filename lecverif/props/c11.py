"""C11 opposite-endian fragments: per-field byte swap of the returned metadata (R11a), swapped reference values in header
validation (R09b-o3, shared), checksum verification on the swapped copy (R11c)."""
import re
from .. import callgraph, oblig
from ..paths import enumerate_paths
from ..oblig import strip_ext, strip_trunc32, const_of, split_symbolic_returns
from ..vflow import Canon, access_path, fields_in_path, strip_int_casts
from ..guards import dominating_edges, Facts
from ..cfg import reachable_from
from ..build import AnalysisBroken
from ..ir import INT
from . import c09

EXPLANATION = (
    "R11a (type-resolved, from debug info): in the swapped-magic region of liberasurecode_get_fragment_metadata, every member "
    "of fragment_metadata wider than one byte (each element of chksum[] through its loop) receives exactly one store whose "
    "value is bswapN(load of that same member) with N = 8*sizeof(member) and no truncation or extension in between; no one-byte "
    "member is stored in that region. R11b: header validation uses byte-swapped reference version and checksum on swapped "
    "paths (the o3 obligations of C09). R11c: the checksum-type dispatch and the CRC inputs (type, size, chksum[0]) are read "
    "from the returned copy at a point reached from both the native and the swapped path, so payload corruption is detected "
    "equally. This property is almost entirely structural; nothing of substance is left undecided.")

BSWAP = {'@__libec_bswap_32': 32, '@llvm.bswap.i32': 32, '@__bswap_32': 32, '@__libec_bswap_64': 64, '@llvm.bswap.i64': 64,
         '@__bswap_64': 64, '@__libec_bswap_16': 16, '@llvm.bswap.i16': 16}
MAGIC = 0x0b0c5ecc
SWAPPED_MAGIC = 0xcc5e0c0b      # the magic as an opposite-endian writer stores it

def run(ctx):
    P = ctx.program()
    f = P.fn('liberasurecode_get_fragment_metadata')
    C = Canon(P, f)
    fields = P.struct_fields('fragment_metadata')
    if not fields:
        raise AnalysisBroken('anchor vanished: struct fragment_metadata')
    # element widths: array members by element size
    widths = {}
    for name, off, size, tref in fields:
        info = f.mod.md_fields(tref)
        elem = size
        if info.get('_kind') == 'DICompositeType' and info.get('tag') == 'DW_TAG_array_type':
            bi = f.mod.basetype_info(info.get('baseType'))
            elem = bi[0] if bi else size
        else:
            bi = f.mod.basetype_info(tref)
            elem = bi[0] if bi else size
        widths[name] = elem
    # ---- swapped region: blocks dominated by the edge "bswap32(magic) == MAGIC" (and magic != MAGIC)
    r = ctx.rule('R11a', 'swapped branch: every multi-byte metadata member is stored once as bswapN(same member), N = member width',
                 'a forgotten, mis-sized or byte-field swap changes the logical value read from an opposite-endian fragment')
    region = []
    for b in f.order:
        F = Facts(P, f, b)
        sw = any(pr == 'eq' and ((re.match(r'^@(__libec_bswap_32|llvm\.bswap\.i32|__bswap_32)\(\*arg0\.magic\)$', a) and const_of(bb) == MAGIC) or
                                 (re.match(r'^@(__libec_bswap_32|llvm\.bswap\.i32|__bswap_32)\(\*arg0\.magic\)$', bb) and const_of(a) == MAGIC) or
                                 (a == '*arg0.magic' and const_of(bb) is not None and const_of(bb) & 0xffffffff == SWAPPED_MAGIC) or
                                 (bb == '*arg0.magic' and const_of(a) is not None and const_of(a) & 0xffffffff == SWAPPED_MAGIC))
                 for pr, a, bb in F.facts)
        if sw:
            region.append(b)
    if not region:
        r.fail('swapped-magic branch exists', func=f.name, sig='no swapped-magic branch', loc=f.mod.src,
               msg='liberasurecode_get_fragment_metadata has no branch for a byte-swapped magic: opposite-endian fragments are returned unswapped')
    # the merge point ends the region: restrict to blocks from which the native path is NOT reachable... use dominance by swapped edge only
    stores = {}
    for b in region:
        for i in b.insts:
            if i.op != 'store':
                continue
            root, steps = access_path(P, f, i.ops[1])
            fl = fields_in_path(steps)
            if not fl or fl[0][0] != 'fragment_metadata' or C.val(root) != 'arg1':
                continue
            stores.setdefault(fl[0][1], []).append((i, steps))
    for name, off, size, tref in fields:
        w = widths[name]
        st = stores.get(name, [])
        inst = f'member {name} ({w}-bit elements)'
        if w <= 8:
            if st:
                i = st[0][0]
                r.fail(inst, func=f.name, sig=f'one-byte member {name} stored in the swapped branch', loc=i.loc,
                       msg=f'{name} is a single byte; storing {C.val(i.ops[0])} into it (a byte swap of a wider value truncates to the wrong byte)')
            else:
                r.ok(inst + ': not touched', func=f.name, trivial=True)
            continue
        union_ok = False
        if len(st) > 1 and f.mod.md_fields(tref).get('tag') == 'DW_TAG_array_type':
            # an element loop with iterations peeled off (`chksum[0] = ...; for (i = 1; ...)`): the stores together must write every
            # element exactly once
            from ..poly import PolyCtx as _PCu
            from ..loops import loops_of as _lou, innermost as _inu, affine_in_t as _affu
            pcu = _PCu(P, f, C)
            LSu = _lou(P, f, pcu)
            nel_u = size // w
            seen_u, dup_u = set(), False
            for i_u, steps_u in st:
                arr_u = [s_ for s_ in steps_u if s_[0] == 'index']
                idxs = None
                if arr_u and INT.match(str(arr_u[0][1])):
                    idxs = {int(arr_u[0][1])}
                elif arr_u:
                    Lu = _inu(LSu, i_u.bb)
                    if Lu is not None:
                        it_u = Lu.at_iteration(pcu.val(arr_u[0][1]))
                        ab_u = _affu(it_u) if it_u is not None else None
                        N_u, rot_u = Lu.runs()
                        if ab_u is not None and ab_u[0].is_const() and ab_u[1].is_const() and N_u is not None and N_u.is_const() and not rot_u:
                            idxs = {ab_u[0].const_value() + ab_u[1].const_value() * t_ for t_ in range(max(0, N_u.const_value()))}
                if idxs is None:
                    seen_u = None
                    break
                dup_u = dup_u or bool(seen_u & idxs)
                seen_u |= idxs
            union_ok = seen_u is not None and not dup_u and seen_u == set(range(nel_u))
        if len(st) != 1 and not union_ok:
            loc = st[0][0].loc if st else f.mod.src
            r.fail(inst, func=f.name, sig=f'{len(st)} stores to {name} in the swapped branch', loc=loc,
                   msg=f'member {name} is byte-swapped {len(st)} times in the swapped branch (exactly once required)' if st else
                       f'member {name} ({w} bits) is never byte-swapped: an opposite-endian fragment yields a wrong {name}')
            continue
        for i, steps in (st if union_ok else st[:1]):
            v = i.ops[0]
            d = f.defs.get(v)
            chain = []
            while d is not None and d.op in ('trunc', 'zext', 'sext'):
                chain.append(d.op); d = f.defs.get(d.ops[0])
            if d is None or d.op != 'call' or d.callee not in BSWAP:
                r.fail(inst, func=f.name, sig=f'{name} := {C.val(v)[:60]}', loc=i.loc, msg=f'value stored into {name} is not a byte swap: {C.val(v)}')
                continue
            n = BSWAP[d.callee]
            a = d.ops[0]
            ad = f.defs.get(a)
            achain = []
            while ad is not None and ad.op in ('trunc', 'zext', 'sext'):
                achain.append(ad.op); ad = f.defs.get(ad.ops[0])
            same = ad is not None and ad.op == 'load' and C.addr(ad.ops[0]) == C.addr(i.ops[1])
            if n != w or chain or achain:
                r.fail(inst, func=f.name, sig=f'{name}: bswap{n} on a {w}-bit member' + (' with ' + '/'.join(chain + achain) if chain or achain else ''),
                       loc=i.loc, msg=f'{name} is {w} bits wide but is swapped with a {n}-bit byte swap' +
                       (f' ({"/".join(achain)} before, {"/".join(chain)} after)' if chain or achain else ''))
            elif not same:
                r.fail(inst, func=f.name, sig=f'{name} := bswap of {C.val(a)[:50]}', loc=i.loc,
                       msg=f'{name} receives the byte swap of another location: {C.val(a)}')
            else:
                r.ok(inst + f': {name} := bswap{n}({name})', func=f.name, loc=i.loc)
            # array members: the store must sit in a loop covering all elements
            arr = [s for s in steps if s[0] == 'index']
            info = f.mod.md_fields(tref)
            if info.get('tag') == 'DW_TAG_array_type' and not union_ok:
                nel = size // w
                F = Facts(P, f, i.bb)
                idx = C.val(strip_int_casts(f, arr[0][1])) if arr else None
                ub = [x for x in F.upper_bound_sym(idx)] if idx else []
                # the element loop as a recurrence: the address advances by one element per iteration from element 0, nel iterations
                from ..poly import PolyCtx as _PC11, Poly as _P11
                from ..loops import loops_of as _lo11, innermost as _in11, affine_in_t as _aff11
                whole = False
                try:
                    pc11 = _PC11(P, f, C)
                    L11 = _in11(_lo11(P, f, pc11), i.bb)
                    if L11 is not None:
                        pt = L11.ptr_at_iteration(*pc11.ptr(i.ops[1]))
                        base0 = pc11.ptr(i.ops[1])
                        ab = _aff11(pt[1]) if pt is not None else None
                        hg = [g_ for g_ in L11.guards() if g_.block is L11.header]
                        T11 = L11.trip(hg[0]) if len(hg) == 1 else None
                        if ab is not None and T11 is not None and ab[1] == _P11.const(w // 8) and T11.const_value() == nel:
                            # starts at element 0 of the member: the offset at t = 0 is the member's own offset (no loop-variant part left)
                            whole = ab[0].is_const() or not any(a_.startswith('%') for a_ in ab[0].atoms())
                        if not whole and arr and T11 is not None and T11.const_value() == nel:
                            # member[i] addressed by a struct GEP: i is the loop counter 0, 1, ..., nel-1
                            ivn = strip_int_casts(f, arr[0][1])
                            rec = L11.ivs().get(ivn)
                            whole = rec is not None and rec[0] is not None and rec[0].is_zero() and rec[1] == _P11.const(1) and hg[0].iv == ivn
                            if not whole:
                                # the subscript as a function of the iteration: 0, 1, ..., nel-1 or nel-1, ..., 0 - the same elements
                                it_ = L11.at_iteration(pc11.val(arr[0][1]))
                                ab2 = _aff11(it_) if it_ is not None else None
                                if ab2 is not None and ab2[0].is_const() and ab2[1].is_const():
                                    a0, b0 = ab2[0].const_value(), ab2[1].const_value()
                                    whole = (a0, b0) in ((0, 1), (nel - 1, -1))
                except Exception:
                    whole = False
                if whole or (idx and any(const_of(bv) == nel and strict for bv, strict, sg in ub) and re.match(r'^phi', idx)):
                    r.ok(f'member {name}: loop swaps all {nel} elements', func=f.name, loc=i.loc)
                else:
                    r.fail(f'member {name}: all {nel} elements', func=f.name, sig=f'{name} loop bound {ub}', loc=i.loc,
                           msg=f'the element loop for {name} does not run over all {nel} elements (index {idx}, bounds {ub})')
    r.require_min(9)

    # ---- R11b
    r = ctx.rule('R11b', 'header validation reads version and checksum byte-swapped on swapped paths (C09 o3)',
                 'otherwise the verdict for a swapped twin differs from the native fragment')
    r9 = ctx.rule('R09b', 'is_invalid_fragment_header path obligations (shared with C09)')
    ctx.rules.remove(r9)
    sub = type(ctx)(ctx.prop, ctx.tier, ctx.seed, ctx.root)
    sub._progs = ctx._progs
    c09.run_r09b(sub, P)
    for inst in sub.rules[0].instances:
        if ' o3' in str(inst['instance']) or 'swapped' in str(inst['instance']):
            r.instances.append(dict(inst, rule='R11b'))
    r.require_min(4)

    # ---- R11c
    r = ctx.rule('R11c', 'checksum dispatch and CRC inputs are read from the returned copy after the native/swapped paths merge',
                 'payload corruption must be detected equally for the swapped twin')
    # the loads of chksum_type used for dispatch
    disp = []
    for b in f.order:
        t = b.insts[-1]
        v = None
        if t.op == 'switch':
            v = t.ops[0]
        elif t.op == 'br' and len(t.targets) == 2 and t.ops:
            c = f.defs.get(t.ops[0])
            if c is not None and c.op == 'icmp':
                for o in c.ops:
                    if 'chksum_type' in C.val(o):
                        v = o
        if v is not None and 'chksum_type' in C.val(v):
            disp.append((b, C.val(strip_int_casts(f, v)), t))
    if not disp:
        raise AnalysisBroken('anchor vanished: no dispatch on chksum_type in get_fragment_metadata')
    entry_reach = None
    for b, e, t in disp:
        from_copy = e == '*arg1.chksum_type'
        preds_native = any(b in reachable_from(x) for x in f.order if x not in region and x is not b) and True
        from_swapped = any(b in reachable_from(x) for x in region) if region else False
        in_region = b in region
        if from_copy and from_swapped and not in_region:
            r.ok(f'dispatch on {e} at line {t.line} sees the swapped copy', func=f.name, loc=t.loc)
        else:
            why = 'reads ' + e if not from_copy else ('not reached from the swapped branch' if not from_swapped else 'inside the swapped branch only')
            r.fail('checksum dispatch', func=f.name, sig='dispatch ' + why, loc=t.loc, msg=f'checksum type dispatch {why}')
    # the stored checksum compared with the computed one is the (swapped) copy's chksum[0]
    crc_calls = {i.res for i in f.insts() if i.op == 'call' and i.callee in ('@crc32', '@liberasurecode_crc32_alt')}
    crc_vals = set(crc_calls)
    for i in f.insts():
        if i.res and i.op in ('trunc', 'zext', 'sext') and i.ops[0] in crc_vals:
            crc_vals.add(i.res)
    for i in f.insts():
        if i.op == 'icmp' and any(o in crc_vals for o in i.ops):
            other = [o for o in i.ops if o not in crc_vals][0]
            e = C.val(strip_int_casts(f, other))
            if e == '*arg1.chksum[0]':
                r.ok(f'checksum comparison at line {i.line} uses the returned copy\'s chksum[0]', func=f.name, loc=i.loc)
            else:
                r.fail('stored checksum source', func=f.name, sig=f'stored checksum read from {e[:50]}', loc=i.loc,
                       msg=f'the payload CRC is compared with {e}: for an opposite-endian fragment only the returned copy holds the byte-swapped checksum')
    crcs = [i for i in f.insts() if i.op == 'call' and i.callee in ('@crc32', '@liberasurecode_crc32_alt')]
    for c in crcs:
        ln = strip_ext(strip_trunc32(strip_ext(C.val(c.ops[2]))))
        if ln == '*arg1.size' and any(c.bb in reachable_from(x) for x in region) and c.bb not in region:
            r.ok(f'{c.callee} length is the copy\'s size, reached from both branches', func=f.name, loc=c.loc)
        else:
            r.fail(f'{c.callee} input', func=f.name, sig=f'{c.callee} length {ln}', loc=c.loc, msg=f'payload CRC length is {ln} / not reached from the swapped branch')
    r.require_min(3)

    # ---- R11d the byte-swap primitives themselves
    r = ctx.rule('R11d', 'byte-swap primitives used for opposite-endian fragments are exact byte reversals (decided on the 2^0..2^(N-1) basis of the loop-free expression)',
                 'a fallback bswap that sign-extends or drops a byte changes lengths >= 0x80 in some byte')
    from .. import symex
    used = sorted({i.callee for i in f.insts() if i.op == 'call' and i.callee in BSWAP} |
                  {i.callee for i in P.fn('is_invalid_fragment_header').insts() if i.op == 'call' and i.callee in BSWAP})
    for name in used:
        n = BSWAP[name]
        if name.startswith('@llvm.bswap'):
            r.ok(f'{name}: compiler intrinsic', func=name)
            continue
        g = P.fns.get(name)
        if g is None:
            r.undecided(f'{name}', msg='byte-swap primitive is external and not an intrinsic')
            continue
        rets = [i for i in g.insts() if i.op == 'ret']
        t = symex.tree(g, rets[0].ops[0])
        alts = symex.alternatives(t)
        lv = set()
        for a in alts:
            lv |= symex.leaves(a)
        if len(alts) != 1 or lv - {('p', 0)}:
            # not a loop-free pure expression of the argument: try recursion through helper calls of the same family
            # not loop-free: constant-propagate each basis vector through the function (local scalar memory only)
            from ..consteval import ConstEval, Undecidable
            CE = ConstEval(P, g.mod)
            bad = None
            try:
                for x in [1 << b for b in range(n)] + [0, (1 << n) - 1]:
                    res = CE.run(g, [x if x < (1 << (n - 1)) else x - (1 << n)])
                    got = res['ret']
                    if not isinstance(got, int):
                        raise Undecidable('non-constant result')
                    got &= (1 << n) - 1
                    want = int.from_bytes(x.to_bytes(n // 8, 'little'), 'big')
                    if got != want:
                        bad = (x, got, want); break
            except Undecidable as e:
                r.undecided(f'{name}: shape', loc=rets[0].loc, msg=f'the primitive cannot be constant-propagated ({e})')
                continue
            if bad:
                r.fail(f'{name}: byte reversal', func=name, sig=f'bswap{n}({bad[0]:#x}) = {bad[1]:#x}', loc=rets[0].loc,
                       msg=f'{name}({bad[0]:#x}) yields {bad[1]:#x}, a byte reversal gives {bad[2]:#x}')
            else:
                r.ok(f'{name}: exact on all {n} single-bit inputs, 0 and ~0 (constant propagation through its loop)', func=name, loc=rets[0].loc)
            continue
        bad = None
        for bit in range(n):
            x = 1 << bit
            want = int.from_bytes(x.to_bytes(n // 8, 'little'), 'big')
            got = symex.evaluate(alts[0], {('p', 0): x}) & ((1 << n) - 1)
            if got != want:
                bad = (x, got, want); break
        z = symex.evaluate(alts[0], {('p', 0): 0})
        allone = symex.evaluate(alts[0], {('p', 0): (1 << n) - 1}) & ((1 << n) - 1)
        if bad:
            r.fail(f'{name}: byte reversal', func=name, sig=f'bswap{n}({bad[0]:#x}) = {bad[1]:#x}', loc=rets[0].loc, msg=f'{name}({bad[0]:#x}) yields {bad[1]:#x}, a byte reversal gives {bad[2]:#x}')
        elif z != 0 or allone != (1 << n) - 1:
            r.fail(f'{name}: byte reversal', func=name, sig=f'bswap{n} not linear', loc=rets[0].loc, msg='the primitive maps 0 or ~0 wrongly')
        else:
            r.ok(f'{name}: exact on all {n} basis bits, 0 and ~0 (mask/shift/or expression, bitwise linear)', func=name, loc=rets[0].loc)
    r.require_min(2)
    # ---------------- R11e same verdicts once the magic is accepted
    r = ctx.rule('R11e', 'metadata query: after the magic is accepted the return values of the opposite-endian paths equal those of the native paths',
                 'an extra plausibility test in the swapped branch rejects opposite-endian fragments whose native image is accepted')
    from ..paths import enumerate_paths
    gm = P.fn('liberasurecode_get_fragment_metadata')
    nat, swp = {}, {}
    for p in enumerate_paths(P, gm):
        T = [(pr, a, b) for pr, a, b, w, i in p.truths()]
        magic = [(pr, a, b) for pr, a, b in T if a.endswith('.magic') or a.endswith('.magic)')]
        is_swp = any(pr == 'eq' and (('bswap' in a and '*arg0.magic' in a) or
                                     (a == '*arg0.magic' and const_of(b) is not None and const_of(b) & 0xffffffff == SWAPPED_MAGIC)) for pr, a, b in magic)
        is_nat = not is_swp and any(pr == 'eq' and a == '*arg0.magic' for pr, a, b in magic)
        if is_nat:
            nat.setdefault(p.ret, []).append(p)
        elif is_swp:
            swp.setdefault(p.ret, []).append(p)
    if not nat or not swp:
        r.undecided('native / swapped paths', msg=f'paths after an accepted magic: native {len(nat)}, swapped {len(swp)}')
    else:
        extra = sorted(set(swp) - set(nat), key=str)
        missing = sorted(set(nat) - set(swp), key=str)
        if extra or missing:
            what = (f'returns {extra} only for opposite-endian headers' if extra else f'returns {missing} only for native headers')
            pth = (swp[extra[0]][0] if extra else nat[missing[0]][0])
            conds = [(pr, a[-40:], b[-30:]) for pr, a, b, w, i in pth.truths()][-3:]
            r.fail('verdicts of native and swapped paths', func=gm.name, sig=what[:90], loc=gm.mod.src,
                   msg=f'liberasurecode_get_fragment_metadata {what} (last conditions on such a path: {conds}): the two byte orders are not treated alike')
        else:
            r.ok(f'native and swapped paths return the same set of values {sorted(nat, key=str)}', func=gm.name, loc=gm.mod.src,
                 facts={'native_paths': sum(map(len, nat.values())), 'swapped_paths': sum(map(len, swp.values()))})
    r.require_min(1)
    # ---------------- R11f nothing but "== 0" is asked of the raw version before the byte order is known
    r = ctx.rule('R11f', 'header validation: ordered comparisons of the stored library version use the value in host order (raw only behind magic == native)',
                 'a range test on the raw field means something else for a header written on the other byte order: the same header gets different verdicts')
    from ..paths import enumerate_paths as _ep11
    hv = P.fn('is_invalid_fragment_header')
    badp = None
    npth = 0
    for pth in _ep11(P, hv):
        T = [(pr, a, b) for pr, a, b, w, i_ in pth.truths()]
        npth += 1
        native = any(pr == 'eq' and a == '*arg0.magic' and const_of(b) == MAGIC for pr, a, b in T)
        for pr, a, b in T:
            raw = (a == '*arg0.libec_version' or b == '*arg0.libec_version')
            if not raw:
                continue
            other = b if a == '*arg0.libec_version' else a
            if pr in ('eq', 'ne') and other == '0':
                continue                                   # zero is zero in either byte order
            if not native:
                badp = (pr, a, b)
    inst = 'is_invalid_fragment_header: the raw version field is only compared with 0 before the byte order is decided'
    if badp:
        r.fail(inst, func=hv.name, sig=f'raw version compared: {badp[0]} {badp[2][:20]}', loc=hv.mod.src,
               msg=f'a path compares the stored (raw) libec_version with {badp[2]} ({badp[0]}) without having established that the header is in host byte order: '
                   'for an opposite-endian header the bytes are reversed and the test means something else')
    else:
        r.ok(inst, func=hv.name, loc=hv.mod.src, facts={'paths': npth})
    r.require_min(1)
    ctx.borrow('c10', ['R10d'], 'both byte orders verify checksums with the same two CRC functions')
