"""C18 concurrency: registry lockset (R18a), shared GF tables (R18b), lock pairing (R18d)."""
import re
from .. import api, lockset, callgraph
from ..vflow import access_path, fields_in_path, derived_pointers
from ..ir import parse_initializer
from ..build import AnalysisBroken

EXPLANATION = (
    "Schedule-independent lockset analysis over the LLVM IR of the whole build. R18a: every load/store of the instance "
    "registry (active_instances, next_backend_desc, ec_backend.link, ec_backend.idesc) reachable from any public entry point "
    "(prototypes of erasurecode.h; must-hold-at-entry = intersection over all call sites) holds active_instances_rwlock, "
    "stores in write mode; loader constructors/destructors (llvm.global_ctors/dtors) are exempt. R18b: in rs_galois.c every "
    "access to the reference count and every store to a table pointer, and every access inside a function that stores them, "
    "holds the module's mutex; unlocked loads of the table pointers by pure readers are allowed under the refcount protocol. "
    "R18d: every acquire is released on all paths to return (failed-acquire edges pruned). NOT decided: that results equal "
    "the sequential ones (linearizability of values), atomicity of multi-step operations, races inside external plug-ins.")

def ctors_dtors(P):
    out = set()
    for m in P.mods:
        for g in ('@llvm.global_ctors', '@llvm.global_dtors'):
            t = m.globals.get(g)
            if t:
                out |= set(re.findall(r'@[\w.$]+', t)) - {g}
    return out

def module_locks(mod):
    locks = set()
    for f in mod.functions.values():
        for i in f.insts():
            if i.op == 'call' and (i.callee in lockset.ACQ or i.callee in lockset.REL):
                l = lockset.lock_operand(i)
                if l:
                    locks.add(l)
    return locks

def mutable_globals(mod):
    out = {}
    for g, t in mod.globals.items():
        if g.startswith('@.str') or g.startswith('@__') or g.startswith('@llvm.'):
            continue
        if re.search(r'\bconstant\b', t.split('=')[0] if '=' in t else t[:60]) or re.match(r'(\w+ )*constant ', t):
            continue
        if re.match(r'external ', t) or ' external ' in ' ' + t[:40]:
            continue
        init = parse_initializer(t)
        out[g] = init
    return out

def run(ctx):
    P = ctx.program()
    pub = ['@' + a['name'] for a in api.public_api(ctx.root)]
    for n in pub:
        P.fn(n)
    LS = lockset.Lockset(P, pub)
    exempt = ctors_dtors(P)
    ctx.assume('library constructor/destructor (' + ', '.join(sorted(exempt)) + ') run single-threaded under the loader')
    ctx.assume('pthread lock primitives behave as documented; a failed acquire leaves the lock not held')

    # ---------------- R18a
    r = ctx.rule('R18a', 'registry accesses hold active_instances_rwlock (stores: write mode)',
                 'an unlocked reader races with register/unregister: torn list walk, use of a freed instance')
    em = P.mod('src/erasurecode.c')
    locks = module_locks(em)
    if len(locks) != 1:
        raise AnalysisBroken(f'expected exactly one registry lock in erasurecode.c, found {sorted(locks)}')
    reglock = next(iter(locks))
    for g in ('@active_instances', '@next_backend_desc'):
        if g not in em.globals:
            raise AnalysisBroken(f'anchor vanished: global {g}')
    P.field_index('ec_backend', 'link'); P.field_index('ec_backend', 'idesc')
    n_acc = 0
    for f in P.fns.values():
        if LS.entry.get(f.name) is lockset.TOP:
            continue
        for ins in f.insts():
            if ins.op not in ('load', 'store'):
                continue
            root, steps = access_path(P, f, ins.ops[-1])
            fl = fields_in_path(steps)
            what = None
            if root in ('@active_instances', '@next_backend_desc'):
                what = root
            elif ('ec_backend', 'link') in fl:
                what = 'ec_backend.link'
            elif ('ec_backend', 'idesc') in fl:
                what = 'ec_backend.idesc'
            if not what:
                continue
            if f.name in exempt:
                r.info(f'{f.name} {ins.op} {what}', loc=ins.loc, msg='loader constructor/destructor: exempt')
                continue
            n_acc += 1
            held = LS.held_at(ins) or {}
            mode = held.get(reglock)
            need = 'W' if ins.op == 'store' else 'R'
            ok = mode == 'W' or (mode == 'R' and need == 'R')
            inst = f'{f.name}: {ins.op} {what}'
            if ok:
                r.ok(inst, loc=ins.loc, func=f.name, facts={'held': held, 'must_hold_at_entry': LS.entry[f.name]})
            else:
                r.fail(inst, func=f.name, sig=f'{ins.op} {what} held={mode or "none"}', loc=ins.loc,
                       msg=f'{ins.op} of {what} with {reglock} ' + (f'held only in mode {mode}' if mode else 'not held') +
                           f' (must-hold-at-entry of {f.name} = {LS.entry[f.name]})')
    r.require_min(8, 'registry accesses')

    # ---------------- R18e no search result survives a release of the registry lock inside the function that found it
    r = ctx.rule('R18e', 'a pointer read from the registry list is not used for list surgery after the lock was released and re-taken',
                 'find-under-read-lock, unlink-under-write-lock uses a stale predecessor: another create/destroy in the gap corrupts the list')
    from ..cfg import reaches_without as _rw
    n_reg = 0
    for f in P.fns.values():
        if f.mod is not em:
            continue
        regptr = set()
        for ins in f.insts():
            if ins.op == 'load' and ins.ty.endswith('*'):
                root, steps = access_path(P, f, ins.ops[0])
                fl = fields_in_path(steps)
                if root == '@active_instances' or ('ec_backend', 'link') in fl:
                    regptr.add(ins.res)
        if not regptr:
            continue
        # closure over phis / casts
        changed = True
        origin = {v: {v} for v in regptr}
        while changed:
            changed = False
            for ins in f.insts():
                if ins.res and ins.op in ('phi', 'bitcast', 'select'):
                    ops = [v for v, _ in ins.incoming] if ins.op == 'phi' else ins.ops
                    src = set().union(*[origin.get(o, set()) for o in ops if isinstance(o, str)])
                    if src - origin.get(ins.res, set()):
                        origin.setdefault(ins.res, set()).update(src); changed = True
        unlocks = [i for i in f.insts() if i.op == 'call' and i.callee in lockset.REL]
        for v, srcs in origin.items():
            for use in f.insts():
                if use.op != 'store':
                    continue
                # list surgery: a store whose address is a field of the registry pointer, or which stores through it
                ad = f.defs.get(use.ops[1])
                base = None
                if ad is not None and ad.op == 'getelementptr':
                    b0 = ad.ops[0]
                    while f.defs.get(b0) is not None and f.defs[b0].op in ('getelementptr', 'bitcast'):
                        b0 = f.defs[b0].ops[0]
                    base = b0
                if base != v:
                    continue
                n_reg += 1
                stale = None
                for sv in srcs:
                    d = f.defs[sv]
                    for u in unlocks:
                        # def -> unlock -> use, without re-executing the def in between
                        if _rw(f, d.bb, lambda i, u=u: i is u, lambda i: False, d.idx + 1) is not None and \
                           _rw(f, u.bb, lambda i, use=use: i is use, lambda i, d=d: i is d, u.idx + 1) is not None:
                            stale = (d, u)
                inst = f'{f.name}: store through a registry pointer at line {use.line}'
                if stale:
                    r.fail(inst, func=f.name, sig='registry pointer used for a store after the lock was released', loc=use.loc,
                           msg=f'the pointer read from the registry at line {stale[0].line} is still used for the store at line {use.line} after the unlock at line '
                               f'{stale[1].line}: another thread may have inserted or removed elements in between')
                else:
                    r.ok(inst + ': found and used within one critical section', func=f.name, loc=use.loc)
    if not n_reg:
        r.ok('no store through a pointer read from the registry list (insertion at the head / removal walk the list inside one section)', loc=em.src, trivial=True)
    r.require_min(1)

    # ---------------- R18f readers do not write shared state
    r = ctx.rule('R18f', 'no global variable is written while the registry lock is held in read mode only',
                 'a look-up cache updated by readers is a data race between two readers: both hold the lock, neither excludes the other')
    nrd = 0
    for f in P.fns.values():
        if f.mod is not em or f.name in exempt:
            continue
        for ins in f.insts():
            if ins.op != 'store':
                continue
            held = LS.held_at(ins) or {}
            if held.get(reglock) != 'R':
                continue
            root, steps = access_path(P, f, ins.ops[1])
            if root and root.startswith('@'):
                nrd += 1
                r.fail(f'{f.name}: store to {root} under the read lock', func=f.name, sig=f'global {root} written under the read lock', loc=ins.loc,
                       msg=f'{root} is written at line {ins.line} while {reglock} is held for reading only: concurrent readers race on it')
    rdfns = sorted({f.name for f in P.fns.values() if f.mod is em for i in f.insts() if (LS.held_at(i) or {}).get(reglock) == 'R'})
    if not nrd:
        r.ok(f'read-locked regions ({", ".join(rdfns)[:120]}) write no global', loc=em.src, facts={'functions_with_read_sections': rdfns})
    r.require_min(1)

    # ---------------- R18g the registry lock is never acquired while it is already held
    r = ctx.rule('R18g', 'no function acquires the registry lock, directly or through a callee, at a point where it is already held',
                 'pthread read-write locks are not recursive: a nested read lock deadlocks as soon as a writer queues between the two acquisitions')
    cgl = callgraph.get(P)
    acquirers = set()
    for f in P.fns.values():
        if any(i.op == 'call' and i.callee in lockset.ACQ and lockset.lock_operand(i) == reglock for i in f.insts()):
            acquirers.add(f.name)
    changed = True
    while changed:
        changed = False
        for f in P.fns.values():
            if f.name in acquirers:
                continue
            if any(i.op == 'call' and set(cgl.callees(f, i)) & acquirers for i in f.insts()):
                acquirers.add(f.name); changed = True
    nn = 0
    for f in P.fns.values():
        if f.mod is not em:
            continue
        for ins in f.insts():
            if ins.op != 'call':
                continue
            held = LS.held_at(ins) or {}
            if reglock not in held:
                continue
            direct = ins.callee in lockset.ACQ and lockset.lock_operand(ins) == reglock
            via = sorted(set(cgl.callees(f, ins)) & acquirers)
            if direct or via:
                nn += 1
                r.fail(f'{f.name}: call at line {ins.line} with the registry lock held', func=f.name,
                       sig=f'registry lock acquired again ({"directly" if direct else "via " + via[0]}) while held', loc=ins.loc,
                       msg=f'{f.name} holds {reglock} (mode {held[reglock]}) at line {ins.line} and ' +
                           ('acquires it again' if direct else f'calls {via[0]}, which acquires it') + ': with a writer waiting in between, both block forever')
    if not nn:
        r.ok(f'no call made with the registry lock held reaches another acquisition of it ({len(acquirers)} functions can acquire it)', loc=em.src,
             facts={'acquirers': sorted(acquirers)[:12]})
    r.require_min(1)

    # ---------------- R18b
    r = ctx.rule('R18b', 'GF table refcount and table (de)allocation are serialised by one mutex',
                 'two first creates (or create vs last destroy) race on init_counter/log_table: double alloc, NULL table, use after free')
    seen_units = 0
    for gm in [m for m in P.mods if m.src == 'src/builtin/rs_vand/rs_galois.c']:
        seen_units += 1
        mg = mutable_globals(gm)
        mlocks = module_locks(gm)
        lockglobs = {l for l in mlocks}
        data = {g: t for g, t in mg.items() if g not in lockglobs and 'pthread' not in t and 'union.' not in t.split(' ')[0]}
        counters = {g for g, t in data.items() if re.match(r'i(32|64) ', t)}
        tables = {g for g, t in data.items() if re.match(r'i(32|64|16|8)\*+ ', t)}
        if not counters or len(tables) < 2:
            raise AnalysisBroken(f'rs_galois.c: expected a reference counter and table pointers, found {sorted(data)}')
        # functions of this module (use the module's own copy)
        writers = set()
        acc = []
        for f in gm.functions.values():
            for ins in f.insts():
                if ins.op in ('load', 'store'):
                    root, steps = access_path(P, f, ins.ops[-1])
                    if root in counters or root in tables:
                        acc.append((f, ins, root))
                        if ins.op == 'store' or root in counters:
                            writers.add(f.name)
        # lockset for this copy: the prog-level analysis used the first definition; analyse this module's functions directly
        for f, ins, root in acc:
            pf = P.fns.get(f.name)
            # map instruction to the analysed copy by position
            held = None
            if pf is f:
                held = LS.held_at(ins)
            else:
                b2 = pf.blocks.get(ins.bb.label) if pf else None
                if b2 is not None and ins.idx < len(b2.insts) and b2.insts[ins.idx].text.split(', !dbg')[0] == ins.text.split(', !dbg')[0]:
                    held = LS.held_at(b2.insts[ins.idx])
            held = held or {}
            must = f.name in writers
            inst = f'[{gm.lib}] {f.name}: {ins.op} {root}'
            if not must:
                r.ok(inst + ' (reader under refcount protocol)', loc=ins.loc, func=f.name, trivial=True)
                continue
            common = [l for l in held if held[l] == 'W']
            if len(mlocks) == 1 and next(iter(mlocks)) in common:
                r.ok(inst, loc=ins.loc, func=f.name, facts={'held': held})
            elif common and len(mlocks) >= 1 and set(common) & mlocks:
                r.ok(inst, loc=ins.loc, func=f.name, facts={'held': held})
            else:
                r.fail(inst, func=f.name, sig=f'{ins.op} {root} unlocked', loc=ins.loc,
                       msg=f'{ins.op} of {root} in table (de)initialisation without the module mutex '
                           f'(locks used in unit: {sorted(mlocks) or "none"})')
    if seen_units == 0:
        raise AnalysisBroken('anchor vanished: src/builtin/rs_vand/rs_galois.c not in the build')
    ctx.assume('readers of log_table/ilog_table run only from operations of an instance that holds a table reference (refcount protocol)')
    r.require_min(10, 'table/refcount accesses')

    # ---------------- R18d pairing
    r = ctx.rule('R18d', 'every acquire is released on all paths to return',
                 'a return with the registry lock held deadlocks every later call')
    for f in P.fns.values():
        if not any(i.op == 'call' and i.callee in lockset.ACQ for i in f.insts()):
            continue
        if LS.entry.get(f.name) is lockset.TOP:
            continue
        ex, rets = LS.exit_state.get(f.name, (None, {}))
        ent = LS.entry[f.name]
        for b, st in rets.items():
            extra = {k for k in st['may'] if k not in ent}
            ret = b.insts[-1]
            if extra:
                via = {l: v for l, v in st['via'].items() if set(v) - set(ent)}
                lines = sorted({f.blocks[l].insts[-1].line for l in via if l in f.blocks and f.blocks[l].insts[-1].line})
                r.fail(f'{f.name}: return', func=f.name, sig='may return holding ' + ','.join(sorted(extra)),
                       loc=ret.loc, msg=f'a path reaches the return still holding {sorted(extra)} (arriving from line(s) {lines})')
            else:
                r.ok(f'{f.name}: no path returns holding an acquired lock', loc=ret.loc, func=f.name)
    r.require_min(2, 'returns of locking functions')
    # ---------------- R18i the library's locks are taken with blocking acquires
    r = ctx.rule('R18i', 'the registry lock and the GF table mutex are acquired with blocking calls only (no try / timed variants)',
                 'a try-lock that fails under contention turns into "unknown descriptor" / a refused call: results differ from the same calls run one after another')
    ntry = 0
    nacq = 0
    for fn in P.fns.values():
        if re.search(r'jerasure|shss|phazrio|alg_sig', fn.mod.src):
            continue
        for i in fn.insts():
            if i.op != 'call' or not i.callee:
                continue
            if re.match(r'^@pthread_(rwlock|mutex)_(destroy|init)$', i.callee) and isinstance(i.ops[0], str) and i.ops[0].startswith('@'):
                # the library's locks are statically initialised objects that live as long as the process: nothing re-creates them
                ntry += 1
                r.fail(f'{fn.name}: {i.callee[1:]} at line {i.line}', func=fn.name, sig=f'{i.callee[1:]} on the static lock {i.ops[0]}', loc=i.loc,
                       msg=f'{fn.name} calls {i.callee[1:]}({i.ops[0]}): the lock is a statically initialised global that later calls keep using - after a destroy every '
                           'lock / unlock on it fails (EINVAL, ignored by the callers) and the sections it protected run unserialised')
            elif re.match(r'^@pthread_(rwlock|mutex)_(try|timed)', i.callee):
                ntry += 1
                r.fail(f'{fn.name}: {i.callee[1:]} at line {i.line}', func=fn.name, sig=f'non-blocking acquire {i.callee[1:]}', loc=i.loc,
                       msg=f'{fn.name} takes a library lock with {i.callee[1:]}: when another thread holds the lock the call fails and the failure is reported to '
                           'the caller as an ordinary error (unknown descriptor, refused operation) although the same call succeeds when run alone')
            elif i.callee in lockset.ACQ:
                nacq += 1
    if not ntry:
        r.ok(f'{nacq} lock acquisitions, all blocking; no static lock is destroyed or re-initialised', loc='src')
    r.require_min(1)

    # ---------------- R18h tables shared by all instances of a shape are read-only at run time
    r = ctx.rule('R18h', 'the flat-XOR equation tables (what xor_code_t.parity_bms / data_bms point at) are never written at run time',
                 'every instance of a shape points at the same static table: a create that rewrites it races with the decodes of other threads\' instances')
    nw = 0
    for fn in P.fns.values():
        if not re.search(r'xor', fn.mod.src):
            continue
        tabs = [q.res for q in fn.insts() if q.op == 'load' and fields_in_path(access_path(P, fn, q.ops[0])[1])[-1:] in ([('xor_code_s', 'parity_bms')], [('xor_code_s', 'data_bms')])]
        if not tabs:
            continue
        D, _ = derived_pointers(fn, tabs)
        for i in fn.insts():
            w = None
            if i.op == 'store' and i.ops[1] in D:
                w = 'a store'
            elif i.op == 'call' and (i.callee.startswith('@llvm.memset') or i.callee.startswith('@llvm.memcpy') or i.callee in ('@memset', '@memcpy', '@bzero')) and i.ops and i.ops[0] in D:
                w = i.callee[1:]
            if w:
                nw += 1
                r.fail(f'{fn.name}: write into an equation table at line {i.line}', func=fn.name, sig='equation table written at run time', loc=i.loc,
                       msg=f'{fn.name} writes ({w}) through xor_code_t.parity_bms / data_bms: the tables are static data shared by every instance of the shape, '
                           'so this write races with other threads that decode or plan with an instance of the same shape')
    if not nw:
        r.ok('no function writes through xor_code_t.parity_bms / data_bms', loc='src/builtin/xor_codes')
    r.require_min(1)
    ctx.extra['entry_points'] = pub
    ctx.extra['registry_lock'] = reglock
    ctx.borrow('c15', ['R15d'], 'operations on different instances share no writable static state')
