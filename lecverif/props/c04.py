"""C04 RS-Vandermonde: field definition constants (R04a), region kernels cover the block (R04c), generator matrix is
write-protected after init (R04b).  The matrix itself is NOT decided."""
import re
from .. import callgraph, effects, regions
from ..vflow import Canon, strip_int_casts, strip_ptr_casts, access_path, fields_in_path, const_int, derived_pointers
from ..cfg import natural_loops
from ..build import AnalysisBroken
from . import shared

EXPLANATION = (
    "Almost all of C04 is numerical (the generator matrix is computed at run time by Gaussian column reduction over log/antilog "
    "tables; its equality with the closed form, the MDS property and parity bytes are NOT decided, and a change of evaluation "
    "points or a dropped normalisation is not detected). Decided: R04a - the field definition: rs_galois_init_tables XORs the "
    "constant 0x1100b when bit 16 is set, table sizes are 2^16 and 3*2^16 ints with the centre pointer at +65535, the adapter "
    "stores w = 16 into its descriptor and into args.w unconditionally, region_multiply works on 16-bit words in host order; "
    "R04c - region_xor and region_multiply process every byte: the wide loop runs over blocksize / W elements from 0 and the "
    "tail modulus equals the element width; R04b - the generator matrix is written only inside make_systematic_matrix and its "
    "callees, the descriptor's matrix field is stored once (in init), and encode/decode/reconstruct have no write effect on "
    "their generator_matrix parameter. These are necessary conditions: another polynomial, word width or an unprocessed tail "
    "changes parity bytes of stored stripes while every round-trip test still passes.")

def run(ctx):
    P = ctx.program()
    cg = callgraph.get(P)
    E = effects.get(P)
    r = ctx.rule('R04a', 'GF(2^16) field definition: polynomial 0x1100b, table sizes, w = 16, 16-bit host-order words',
                 'a different field changes every parity byte of every stored stripe; round trips still pass')
    gm = [m for m in P.mods if m.src == 'src/builtin/rs_vand/rs_galois.c']
    if not gm:
        raise AnalysisBroken('anchor vanished: rs_galois.c')
    for m in gm:
        f = m.functions.get('@rs_galois_init_tables')
        if f is None:
            raise AnalysisBroken('anchor vanished: rs_galois_init_tables')
        C = Canon(P, f)
        lib = m.lib
        xors = [i for i in f.insts() if i.op == 'xor' and any(const_int(f, o) not in (None, -1) for o in i.ops)]
        polys = sorted({const_int(f, o) for i in xors for o in i.ops if const_int(f, o) not in (None, -1)})
        masks = sorted({const_int(f, o) for i in f.insts() if i.op == 'and' for o in i.ops if const_int(f, o) is not None})
        def _step_is_field_step():
            """the loop-carried element x of the table loop, followed through one iteration for a grid of values: the next value
            must be (2x) reduced by 0x1100b when bit 16 sticks out - however the doubling and the overflow test are spelled"""
            from .. import oblig
            for h, body in natural_loops(f).items():
                xs = [p_ for p_ in h.insts if p_.op == 'phi' and any(v_ == '1' for v_, l_ in p_.incoming if f.blocks[l_] not in body)]
                cs = [p_ for p_ in h.insts if p_.op == 'phi' and any(v_ == '0' for v_, l_ in p_.incoming if f.blocks[l_] not in body)]
                if len(xs) != 1:
                    continue
                start = h.insts[len([x_ for x_ in h.insts if x_.op == 'phi'])]
                grid = [1 << b_ for b_ in range(16)] + [0xFFFF, 0x8001, 0xC000, 0x7FFF, 0x4001, 0xA5A5, 0x5A5A, 3]
                for xv in grid:
                    seed = {xs[0].res: xv}
                    for c_ in cs:
                        seed[c_.res] = 7
                    outs = oblig.simulate(f, None, None, seed=seed, start=start, watch=(h, xs[0].res), max_steps=400)
                    nxt = {val for kind, val, tr in outs if kind == 'watch'}
                    want = (xv << 1) ^ (0x1100b if (xv << 1) & 0x10000 else 0)
                    if nxt != {want}:
                        return False, f'from element {xv:#x} the table loop goes to {sorted(map(str, nxt))}, the field step gives {want:#x}'
                return True, None
            return None, 'table loop with an element that starts at 1 not found'
        if polys == [0x1100b] and 0x10000 in masks:
            r.ok(f'[{lib}] reduction: if (x & 0x10000) x ^= 0x1100b', func=f.name, loc=xors[0].loc)
        elif polys == [0x1100b] and _step_is_field_step()[0]:
            r.ok(f'[{lib}] reduction: one table-loop iteration maps x to 2x reduced by 0x1100b (followed on a grid of elements)', func=f.name, loc=xors[0].loc)
        else:
            r.fail(f'[{lib}] reduction polynomial', func=f.name, sig=f'xor constants {[hex(p) for p in polys]} masks {[hex(x) for x in masks]}',
                   loc=(xors[0].loc if xors else m.src), msg=f'primitive polynomial / overflow bit is {[hex(p) for p in polys]} / {[hex(x) for x in masks]}, expected 0x1100b / 0x10000')
        mallocs = sorted(const_int(f, i.ops[0]) for i in f.insts() if i.op == 'call' and i.callee == '@malloc' and const_int(f, i.ops[0]) is not None)
        if mallocs == [4 * 65536, 4 * 65536 * 3]:
            r.ok(f'[{lib}] table sizes 2^16 and 3*2^16 ints', func=f.name, loc=m.src)
        else:
            r.fail(f'[{lib}] table sizes', func=f.name, sig=f'malloc sizes {mallocs}', loc=m.src, msg=f'log/antilog tables are allocated with {mallocs} bytes')
        centre = [i for i in f.insts() if i.op == 'store' and '@ilog_table' == access_path(P, f, i.ops[1])[0]]
        cv = {C.val(i.ops[0]) for i in centre}
        if any(re.search(r'ptradd 65535\)$|\[65535\]$', v) for v in cv):
            r.ok(f'[{lib}] antilog centre pointer = begin + 65535', func=f.name, loc=centre[0].loc)
        else:
            r.fail(f'[{lib}] antilog centre', func=f.name, sig=f'ilog_table = {sorted(cv)}', loc=m.src, msg=f'ilog_table is set to {sorted(cv)}')
        loops = natural_loops(f)
        bounds = sorted({const_int(f, c.ops[1]) for h in loops for c in [f.defs.get(h.insts[-1].ops[0])] if c is not None and c.op == 'icmp' and const_int(f, c.ops[1]) is not None})
        if bounds == [65535]:
            r.ok(f'[{lib}] generator loop runs over the 65535 non-zero elements', func=f.name, loc=m.src)
        else:
            r.fail(f'[{lib}] group size', func=f.name, sig=f'loop bounds {bounds}', loc=m.src, msg=f'table fill loop bound is {bounds}, expected 65535')
    init = P.fn('liberasurecode_rs_vand_init')
    ws = []
    for i in init.insts():
        if i.op == 'store':
            root, steps = access_path(P, init, i.ops[1])
            fl = fields_in_path(steps)
            if fl and fl[-1][1] == 'w':
                ws.append((fl[-1], const_int(init, i.ops[0]), i))
    from ..cfg import dominators, dominates
    rb = shared.nonnull_return_blocks(init)
    for fld in (('ec_args', 'w'), ('liberasurecode_rs_vand_descriptor', 'w')):
        mine = [(c, i) for f_, c, i in ws if f_ == fld]
        okc = mine and all(c == 16 for c, _ in mine) and any(all(dominates(dominators(init), i.bb, x) for x in rb) for _, i in mine)
        if okc:
            r.ok(f'adapter stores 16 into {fld[0]}.w unconditionally', func=init.name, loc=mine[0][1].loc)
        else:
            r.fail(f'adapter word size in {fld[0]}.w', func=init.name, sig=f'{fld[0]}.w stores {[c for c, _ in mine]}', loc=(mine[0][1].loc if mine else init.mod.src),
                   msg=f'{fld[0]}.w is not unconditionally 16 (stores: {[c for c, _ in mine] or "none"}): the stripe geometry would follow a caller-supplied w')
    rm = P.fn('region_multiply')
    calls = [i for i in rm.insts() if i.op == 'call' and i.callee == '@rs_galois_mult']
    widths = set()
    for c in calls:
        d = rm.defs.get(c.ops[0])
        if d is not None and d.op in ('zext', 'sext'):
            widths.add((d.op, d.optys[0]))
    if ('zext', 'i16') in widths:
        r.ok('region_multiply multiplies zero-extended 16-bit words', func=rm.name, loc=calls[0].loc, facts={'operand casts': sorted(widths)})
    else:
        r.fail('region_multiply word width', func=rm.name, sig=f'operands {sorted(widths)}', loc=rm.mod.src, msg=f'rs_galois_mult is applied to {sorted(widths)}, not to unsigned 16-bit words')
    r.require_min(8)

    r = ctx.rule('R04c', 'region_xor / region_multiply process every byte of the block',
                 'payload sizes are multiples of 2 bytes only: a tail computed for another element width leaves bytes unprocessed')
    from .. import cover
    cover.cover_rule(P, r, 'region_xor', [0], 1, 2)
    cover.cover_rule(P, r, 'region_multiply', [0], 1, 4)
    r.require_min(2)

    r = ctx.rule('R04b', 'generator matrix is written only while it is built; stored once; coders do not write it',
                 'a coder that normalises rows in place changes later parities of the same instance')
    for fname in ('liberasurecode_rs_vand_encode', 'liberasurecode_rs_vand_decode', 'liberasurecode_rs_vand_reconstruct'):
        cands = [f for f in (m.functions.get('@' + fname) for m in P.mods if m.src == 'src/builtin/rs_vand/liberasurecode_rs_vand.c') if f is not None]
        if not cands:
            raise AnalysisBroken(f'anchor vanished: built-in {fname}')
        f = cands[0]
        # effects are keyed by name in prog.fns: make sure that is the built-in one
        A, _ = derived_pointers(f, [f.params[0][1]])
        wit = []
        for i in f.insts():
            if i.op == 'store' and i.ops[1] in A:
                wit.append((i.loc, 'store'))
            elif i.op == 'call':
                for ai, a in enumerate(i.ops):
                    if a in A:
                        for c in cg.callees(f, i):
                            w = E.writes_through(c, ai, deep=False)
                            if w:
                                wit.append((i.loc, f'{c}: {w[0][2]}'))
        if wit:
            r.fail(f'{fname}: generator_matrix read-only', func=f.name, sig=f'writes generator matrix via {wit[0][1][:50]}', loc=wit[0][0],
                   msg=f'the coder writes into the instance\'s generator matrix ({wit[0][1]})')
        else:
            r.ok(f'{fname}: no write effect on generator_matrix', func=f.name, loc=f.mod.src)
    mstores = []
    for m in P.mods:
        for f in m.functions.values():
            for i in f.insts():
                if i.op == 'store':
                    root, steps = access_path(P, f, i.ops[1])
                    if fields_in_path(steps)[-1:] == [('liberasurecode_rs_vand_descriptor', 'matrix')]:
                        mstores.append((f, i))
    if len(mstores) == 1 and mstores[0][0].name == '@liberasurecode_rs_vand_init':
        r.ok('descriptor.matrix is stored exactly once, in init', func=mstores[0][0].name, loc=mstores[0][1].loc)
    else:
        r.fail('descriptor.matrix stores', func='@liberasurecode_rs_vand_init', sig=f'matrix stored in {sorted({f.name for f, _ in mstores})}', loc=(mstores[0][1].loc if mstores else ''),
               msg=f'the descriptor\'s matrix pointer is stored {len(mstores)} times in {sorted({f.name for f, _ in mstores})}')
    r.require_min(4)
    # ---------------- R04e matrix walks cover whole rows / columns
    r = ctx.rule('R04e', 'generator construction: every row walk over the matrix starts at column 0 and visits k columns; helper walks run their count parameter',
                 'a normalisation loop that skips column 0 leaves one generator entry unnormalised: parity bytes differ from every other build, old stripes decode wrongly')
    from ..poly import PolyCtx, Poly
    from ..loops import loops_of, affine_in_t
    rsm = [m for m in P.mods if m.src == 'src/builtin/rs_vand/liberasurecode_rs_vand.c'][0]
    def strip_multiples(p, atom):
        return Poly({k_: v for k_, v in p.items() if atom not in k_})
    for fname, katom in (('@make_systematic_matrix', 'arg0'),):
        mf = rsm.functions.get(fname)
        if mf is None:
            raise AnalysisBroken(f'anchor vanished: {fname}')
        pcm = PolyCtx(P, mf)
        K = Poly.atom(katom)
        nw = 0
        LSm = loops_of(P, mf, pcm)
        pending_walks = []
        for L in LSm:
            inner = {b for L2 in LSm if L2.header is not L.header and L2.body < L.body for b in L2.body}
            for ld in [i for b in L.body if b not in inner for i in b.insts if i.op == 'load' and i.ty == 'i32']:
                pt = L.ptr_at_iteration(*pcm.ptr(ld.ops[0]))
                if pt is None or not pt[0].startswith('@create_non_systematic_vand_matrix'):
                    continue
                ab = affine_in_t(pt[1])
                if ab is None or ab[1] not in (Poly.const(4), Poly.const(-4)):
                    continue                      # diagonal / column walks are not row walks
                hg = [g_ for g_ in L.guards() if g_.block is L.header]
                T = L.trip(hg[0]) if len(hg) == 1 else None
                if ab[1] == Poly.const(-4) and T is not None:
                    ab = (ab[0] - (T - Poly.const(1)) * 4, Poly.const(4))        # the same entries, walked from the far end
                a4 = Poly({k_: v // 4 for k_, v in ab[0].items()}) if all(v % 4 == 0 for v in ab[0].values()) else None
                nw += 1
                inst = f'{fname[1:]}: row walk at line {ld.line}'
                if T is None or a4 is None:
                    r.undecided(inst, loc=ld.loc, msg=f'start {ab[0]}, trip {T}')
                    continue
                from ..loops import in_iteration_space as _its4
                full4 = _its4(LSm, ld.bb, a4)
                col0 = strip_multiples(full4, katom)
                # enclosing-loop variables multiply k in the row base; what is left is the first column
                if col0.is_zero() and T == K:
                    r.ok(inst + ': columns 0 .. k-1', func=mf.name, loc=ld.loc)
                elif not (col0.is_zero() and T == K) and ld.line is not None and pending_walks is not None:
                    # a row walked in two pieces around the diagonal entry: decided once both pieces are known
                    rowidx = Poly({tuple(x for x in k_ if x != katom) if k_.count(katom) == 1 else k_: v for k_, v in (full4 - col0).items()})
                    pending_walks.append((L, ld, col0, _its4(LSm, ld.bb, T), rowidx, inst))
                else:
                    r.fail(inst, func=mf.name, sig=f'row walk over columns [{col0}, {col0} + {T})', loc=ld.loc,
                           msg=f'the loop at line {ld.line} visits columns {col0} .. {col0 + T}-1 of a matrix row, not 0 .. k-1: the skipped entries keep their '
                               'un-normalised values in the generator')
        # pieces: [0, d) and [d + 1, k) of the same row with d the row's own index (the diagonal entry is left alone), or [0, d) [d, k)
        used = set()
        for x in range(len(pending_walks)):
            for y in range(len(pending_walks)):
                if x == y or x in used or y in used:
                    continue
                (L1, ld1, c1, T1, r1, i1), (L2, ld2, c2, T2, r2, i2) = pending_walks[x], pending_walks[y]
                if c1.is_zero() and r1 == r2 and c2 + T2 == K and (c1 + T1 == c2 or (c1 + T1 + Poly.const(1) == c2 and c1 + T1 == r1)):
                    used |= {x, y}
                    r.ok(i1 + f' and line {ld2.line}: columns 0 .. k-1 in two pieces around the diagonal entry', func=mf.name, loc=ld1.loc)
                    r.ok(i2 + ': second piece', func=mf.name, loc=ld2.loc, trivial=True)
        for x, (L1, ld1, c1, T1, r1, i1) in enumerate(pending_walks):
            if x not in used:
                r.fail(i1, func=mf.name, sig=f'row walk over columns [{c1}, {c1} + {T1})', loc=ld1.loc,
                       msg=f'the loop at line {ld1.line} visits columns {c1} .. {c1 + T1}-1 of a matrix row, not 0 .. k-1: the skipped entries keep their '
                           'un-normalised values in the generator')
        if nw < 2:
            r.undecided(f'{fname[1:]}: row walks', msg=f'only {nw} row walks found')
    # helper walks, stated as the set of cells written: {start + stride * t : 0 <= t < count} (bytes from the matrix argument),
    # whichever way the loop is written (index, running offset, walking pointer, count-down, tested at its end)
    A = lambda n_: Poly.atom(f'arg{n_}')
    HELPERS = {'@swap_matrix_rows': [(0, Poly(), Poly.const(4), A(2)), (1, Poly(), Poly.const(4), A(2))],
               '@col_mult': [(0, A(2) * 4, A(4) * 4, A(3))],
               '@row_mult': [(0, A(2) * A(4) * 4, Poly.const(4), A(4))],
               '@col_mult_and_add': [(0, A(3) * 4, A(5) * 4, A(4))],
               '@row_mult_and_add': [(0, A(3) * A(5) * 4, Poly.const(4), A(5))]}
    for hname, wants in HELPERS.items():
        hf = rsm.functions.get(hname)
        if hf is None:
            continue
        pch = PolyCtx(P, hf)
        LSh = loops_of(P, hf, pch)
        for root_arg, w_start, w_stride, w_count in wants:
            inst = f'{hname[1:]}: writes the cells {w_start} + {w_stride} * [0, {w_count}) of argument {root_arg}'
            got = []
            for st_ in [i for i in hf.insts() if i.op == 'store' and i.ty == 'i32']:
                from ..loops import innermost as _inn4
                L = _inn4(LSh, st_.bb)
                if L is None:
                    continue
                pt = L.ptr_at_iteration(*pch.ptr(st_.ops[1]))
                if pt is None or pt[0] != f'arg{root_arg}':
                    continue
                ab = affine_in_t(pt[1])
                N_, rot_ = L.runs()
                if N_ is not None and rot_ and not L.entry_positive(N_):
                    N_ = None
                if ab is None or N_ is None:
                    got.append(('?', str(pt[1]), str(N_)))
                    continue
                a_, b_ = ab
                if b_.values() and all(v < 0 for v in b_.values()):           # walking down: same cells, named from the other end
                    a_, b_ = a_ + b_ * (N_ - Poly.const(1)), -b_
                got.append((a_, b_, N_))
            if any(g_[0] != '?' and g_[0] == w_start and g_[1] == w_stride and g_[2] == w_count for g_ in got):
                r.ok(inst, func=hf.name, loc=hf.mod.src)
            elif got and all(g_[0] == '?' for g_ in got) or not got:
                r.undecided(inst, loc=hf.mod.src, msg=f'stores not recognised as an affine walk: {got[:2]}')
            else:
                shown = [f'{g_[0]} + {g_[1]} * [0, {g_[2]})' for g_ in got if g_[0] != '?']
                r.fail(inst, func=hf.name, sig=f'helper walk {shown[:1]}', loc=hf.mod.src,
                       msg=f'{hname[1:]} writes the cells {shown} of its matrix argument, expected {w_start} + {w_stride} * [0, {w_count}) (the whole row / column)')
    r.require_min(6)

    # ---------------- R04k rows of the Vandermonde matrix are powers of the row number, each row starting at 1
    r = ctx.rule('R04k', 'Vandermonde rows: the entry written in row i starts at 1 for every row and is multiplied by i from one column to the next (i^0, i^1, ...)',
                 'a power accumulator carried over from the previous row scales every later row by a constant: still an MDS code, but other parity bytes than every released build')
    vf = rsm.functions.get('@create_non_systematic_vand_matrix')
    if vf is None:
        raise AnalysisBroken('anchor vanished: create_non_systematic_vand_matrix')
    from ..loops import loops_of as _lo4k, innermost as _in4k
    pcv = PolyCtx(P, vf)
    LSv = _lo4k(P, vf, pcv)
    nacc = 0
    for st_ in [i for i in vf.insts() if i.op == 'store' and i.ty == 'i32']:
        Lin = _in4k(LSv, st_.bb)
        outer = [L_ for L_ in LSv if Lin is not None and Lin.body < L_.body]
        if Lin is None or not outer:
            continue
        vd = vf.defs.get(strip_int_casts(vf, st_.ops[0]))
        if vd is None or vd.op != 'phi' or vd.bb is not Lin.header:
            continue
        nacc += 1
        inits = [v_ for v_, l_ in vd.incoming if vf.blocks[l_] not in Lin.body]
        steps = [v_ for v_, l_ in vd.incoming if vf.blocks[l_] in Lin.body]
        Lout = sorted(outer, key=lambda L_: len(L_.body))[0]
        def is_step(v_):
            d_ = vf.defs.get(strip_int_casts(vf, v_))
            if d_ is None or d_.op != 'call' or d_.callee != '@rs_galois_mult':
                return False
            ops_ = [strip_int_casts(vf, o) for o in d_.ops[:2]]
            others = [o for o in ops_ if o != vd.res]
            return vd.res in ops_ and len(others) == 1 and others[0] in Lout.ivs() and Lout.ivs()[others[0]][1] == Poly.const(1)
        inst = f'create_non_systematic_vand_matrix: entries stored at line {st_.line}'
        if inits and all(v_ == '1' for v_ in inits) and steps and all(is_step(v_) for v_ in steps):
            r.ok(inst + ': power accumulator restarts at 1 in every row and is multiplied by the row number', func=vf.name, loc=st_.loc)
        else:
            r.fail(inst, func=vf.name, sig=f'vandermonde accumulator starts at {inits}', loc=st_.loc,
                   msg=f'the value written into row i starts the row as {inits} (must be the constant 1) / is advanced by {[Canon(P, vf).val(v_)[:40] for v_ in steps]} '
                       '(must be rs_galois_mult(acc, i)): the rows are no longer 1, i, i^2, ...')
    if not nacc:
        r.undecided('create_non_systematic_vand_matrix: power accumulator', loc=vf.mod.src, msg='no store of a loop-carried value inside the row/column loops found')
    r.require_min(1)

    # ---------------- R04j encode: parity j is the dot product of generator row k + j with the data, over the whole block
    r = ctx.rule('R04j', 'RS encode: each parity buffer is cleared and then filled by region_dot_product(data, parity[j], row k+j, k, blocksize) - nothing else writes it',
                 'parity j must equal the generator row k + j applied to every byte of the data: a strip-wise or special-cased row computes some bytes from the wrong source')
    from ..loops import loops_of as _lo4j, in_iteration_space as _its4j
    ef = rsm.functions.get('@liberasurecode_rs_vand_encode')
    if ef is None:
        raise AnalysisBroken('anchor vanished: liberasurecode_rs_vand_encode')
    pce = PolyCtx(P, ef)
    LSe = _lo4j(P, ef, pce)
    pn = [n_ for _, n_ in ef.params]           # (generator_matrix, data, parity, k, m, blocksize)
    Ke, Be = Poly.atom('arg3'), Poly.atom('arg5')
    Ap, _ = derived_pointers(ef, [pn[2]])
    def parity_slot(v):
        """the subscript j (iteration-space form) when v is parity[j] (the loaded element itself, not an offset into it)"""
        d_ = ef.defs.get(strip_ptr_casts(ef, v))
        if d_ is None or d_.op != 'load' or d_.ops[0] not in Ap:
            return None
        root_, off_ = pce.ptr(d_.ops[0])
        return _its4j(LSe, d_.bb, PolyCtx.div(off_, 8))
    ndp = 0
    for c_ in ef.insts():
        if c_.op != 'call':
            continue
        if c_.callee == '@region_dot_product':
            ndp += 1
            j_ = parity_slot(c_.ops[1])
            rowr, rowo = pce.ptr(c_.ops[2])
            rd_ = ef.defs.get(strip_ptr_casts(ef, c_.ops[2]))
            if rd_ is not None and rd_.op == 'call' and rd_.callee == '@get_matrix_row' and len(rd_.ops) >= 3:
                # the row through the accessor: get_matrix_row(matrix, row, cols) is &matrix[row * cols]
                rowr, base_o = pce.ptr(rd_.ops[0])
                rowo = base_o + pce.val(rd_.ops[1]) * pce.val(rd_.ops[2]) * 4
            rowi = _its4j(LSe, c_.bb, PolyCtx.div(rowo, 4))
            inst = f'rs_vand encode: region_dot_product at line {c_.line}'
            ok_ = (strip_ptr_casts(ef, c_.ops[0]) == pn[1] and j_ is not None and rowr == 'arg0' and rowi == (Ke + j_) * Ke
                   and pce.val(c_.ops[3]) == Ke and pce.val(c_.ops[4]) == Be)
            if ok_:
                r.ok(inst + ': (data, parity[j], generator row k+j, k, blocksize)', func=ef.name, loc=c_.loc)
            else:
                r.fail(inst, func=ef.name, sig='encode dot product arguments', loc=c_.loc,
                       msg=f'region_dot_product is called with sources {Canon(P, ef).val(c_.ops[0])[:40]}, destination slot {j_}, row offset {rowi}, count {pce.val(c_.ops[3])}, '
                           f'length {pce.val(c_.ops[4])}: expected (data, parity[j], generator + (k + j) * k, k, blocksize)')
        elif (c_.callee or '').startswith(('@llvm.memcpy', '@llvm.memmove', '@llvm.memset')) or c_.callee in ('@region_xor', '@region_multiply', '@fast_memcpy'):
            di = 1 if c_.callee in ('@region_xor', '@region_multiply') else 0
            root_ = strip_ptr_casts(ef, c_.ops[di])
            B_, _b = derived_pointers(ef, [l_.res for l_ in ef.insts() if l_.op == 'load' and l_.ops[0] in Ap])
            if root_ not in B_:
                continue
            whole_clear = (c_.callee or '').startswith('@llvm.memset') and parity_slot(c_.ops[0]) is not None and pce.val(c_.ops[2]) == Be and c_.ops[1] == '0'
            inst = f'rs_vand encode: {c_.callee[1:].split(".p0")[0]} into a parity buffer at line {c_.line}'
            if whole_clear:
                r.ok(inst + ': the whole buffer is cleared', func=ef.name, loc=c_.loc)
            else:
                r.fail(inst, func=ef.name, sig=f'parity written by {c_.callee[1:25]}', loc=c_.loc,
                       msg=f'a parity buffer is written by {c_.callee[1:]} (line {c_.line}) other than the clearing of the whole buffer: its bytes no longer come from the '
                           'dot product of its generator row with the data alone')
    if not ndp:
        r.fail('rs_vand encode: dot products', func=ef.name, sig='encode without region_dot_product', loc=ef.mod.src, msg='liberasurecode_rs_vand_encode never calls region_dot_product')
    r.require_min(2)

    # ---------------- R04g field arithmetic is total on the field
    r = ctx.rule('R04g', 'rs_galois_mult / div / inverse special-case only the zero operands (0 for x == 0 or y == 0, -1 for division by 0)',
                 'an extra range check that returns 0 for a valid element (e.g. 0xffff) changes parity words and generator entries that hit that element')
    from ..paths import enumerate_paths as _ep4
    gmod = [m for m in P.mods if m.src == 'src/builtin/rs_vand/rs_galois.c'][0]
    for gname, zero_ok in (('@rs_galois_mult', {'arg0', 'arg1'}), ('@rs_galois_div', {'arg0'}), ('@rs_galois_inverse', set())):
        gf_ = gmod.functions.get(gname)
        if gf_ is None:
            raise AnalysisBroken(f'anchor vanished: {gname}')
        bad = None
        npth = 0
        for pth in _ep4(P, gf_):
            npth += 1
            T = [(pr, a, b) for pr, a, b, w, i_ in pth.truths()]
            if pth.ret in ('0', '-1') or re.match(r'^-?\d+$', pth.ret or ''):
                zero_ops = {a for pr, a, b in T if pr == 'eq' and b == '0' and re.match(r'^arg\d$', a)}
                allowed = zero_ok if pth.ret == '0' else {'arg1'} if gname == '@rs_galois_div' else {'arg0'}
                if not (zero_ops & allowed):
                    bad = (pth.ret, T)
        inst = f'{gname[1:]}: constant results only for zero operands'
        if bad:
            r.fail(inst, func=gf_.name, sig=f'returns {bad[0]} without a zero operand', loc=gf_.mod.src,
                   msg=f'{gname[1:]} returns the constant {bad[0]} on a path whose conditions are {bad[1][-3:]}: not a test of an operand against 0, so the function '
                       'is not the field operation for every element')
        else:
            r.ok(inst, func=gf_.name, loc=gf_.mod.src, facts={'paths': npth})
    r.require_min(3)

    # ---------------- R04f accumulators are cleared
    r = ctx.rule('R04f', 'a local scratch buffer that an accumulating kernel writes inside a loop is cleared (or freshly allocated) in the same iteration',
                 'the kernels XOR into their destination: a scratch buffer reused across iterations without clearing carries the previous element into the next one')
    from ..loops import loops_of as _lo, innermost as _inn
    from ..cfg import dominators as _doms, dominates as _dom
    ACC = {'@region_dot_product': 1, '@region_xor': 1, '@xor_bufs_and_store': 1}
    CLR = {'@llvm.memset.p0i8.i64': 0, '@memset': 0, '@fast_memcpy': 0, '@llvm.memcpy.p0i8.p0i8.i64': 0, '@memcpy': 0}
    nacc = 0
    for fn in P.fns.values():
        if not re.search(r'builtin/(rs_vand|xor_codes)/', fn.mod.src):
            continue
        LSf = None
        for c in [i_ for i_ in fn.insts() if i_.op == 'call' and i_.callee in ACC]:
            dest = strip_ptr_casts(fn, c.ops[ACC[c.callee]])
            # local allocation (possibly lazily, through a merge with NULL)
            roots, st_, seen_ = [], [dest], set()
            while st_:
                v = st_.pop()
                if v in seen_:
                    continue
                seen_.add(v)
                d = fn.defs.get(v)
                if d is None:
                    continue
                if d.op == 'phi':
                    st_ += [strip_ptr_casts(fn, x) for x, _ in d.incoming if x != 'null']
                elif d.op == 'select':
                    st_ += [strip_ptr_casts(fn, x) for x in d.ops[1:] if x != 'null']
                elif d.op in ('bitcast', 'getelementptr'):
                    st_.append(strip_ptr_casts(fn, d.ops[0]))
                elif d.op == 'call' and d.callee in ('@malloc', '@calloc', '@get_aligned_buffer16', '@alloc_zeroed_buffer'):
                    roots.append(d)
            if not roots:
                continue
            LSf = LSf or _lo(P, fn)
            L = _inn(LSf, c.bb)
            if L is None:
                continue
            # only a buffer that is also consumed inside the loop (handed on as a source, stored somewhere) is a per-iteration
            # temporary; a buffer that is nothing but the accumulation target in the loop may be a running sum read afterwards
            aliases_ = {dest} | {i_.res for i_ in fn.insts() if i_.op in ('bitcast', 'getelementptr', 'phi', 'select') and i_.res and
                                 any(o == dest for o in (i_.ops if i_.op != 'phi' else [v for v, _ in i_.incoming]))}
            consumed = any((u.op == 'store' and u.ops[0] in aliases_ and u.bb in L.body) or
                           (u.op == 'call' and u.bb in L.body and u is not c and u.callee not in CLR and
                            any(o in aliases_ for ai_, o in enumerate(u.ops) if not (u.callee in ACC and ai_ == ACC[u.callee])))
                           for u in fn.insts())
            if not consumed:
                continue
            nacc += 1
            fresh = all(rt.bb in L.body and not any(fn.defs.get(dest) is not None and fn.defs[dest].op in ('phi', 'select') for _ in [0]) for rt in roots)
            idom = _doms(fn)
            cleared = any(k_.op == 'call' and k_.callee in CLR and strip_ptr_casts(fn, k_.ops[0]) == dest and k_.bb in L.body and
                          (k_.bb is c.bb and k_.idx < c.idx or (_dom(idom, k_.bb, c.bb) and k_.bb is not c.bb)) for k_ in fn.insts())
            inst = f'{fn.name}: {c.callee[1:]} into a local buffer at line {c.line}'
            if fresh or cleared:
                r.ok(inst + (': allocated in this iteration' if fresh else ': cleared in this iteration'), func=fn.name, loc=c.loc)
            else:
                r.fail(inst, func=fn.name, sig='accumulation into a scratch buffer that is reused across iterations without clearing', loc=c.loc,
                       msg=f'{c.callee[1:]} accumulates (XOR) into a local buffer that is allocated once and reused in every iteration of the loop without being '
                           'cleared: from the second iteration on it still holds the previous result')
    if not nacc:
        r.ok('no accumulating kernel writes a reused local scratch buffer inside a loop', loc='src/builtin', trivial=True)
    r.require_min(1)

    # ---------------- R04i coefficient rows of reconstruct
    r = ctx.rule('R04i', 'built-in RS reconstruct: every coefficient row handed to region_dot_product is a row of the inverse or a freshly zeroed local row',
                 'the parity row is accumulated with ^=: built in a buffer that is not zero to begin with (a matrix left over from the inversion) it carries that content into the rebuilt parity')
    from ..cfg import dominators as _d4, dominates as _dm4
    cands = [m.functions.get('@liberasurecode_rs_vand_reconstruct') for m in P.mods if m.src == 'src/builtin/rs_vand/liberasurecode_rs_vand.c']
    cands = [x for x in cands if x is not None]
    if not cands:
        raise AnalysisBroken('anchor vanished: built-in liberasurecode_rs_vand_reconstruct')
    g = cands[0]
    idom4 = _d4(g)
    def root_alloc(v, depth=0):
        v = strip_ptr_casts(g, v)
        d = g.defs.get(v)
        while d is not None and d.op in ('getelementptr', 'bitcast') and depth < 8:
            v = strip_ptr_casts(g, d.ops[0]); d = g.defs.get(v); depth += 1
        return d
    inv = [i for i in g.insts() if i.op == 'call' and i.callee == '@gaussj_inversion']
    inv_root = root_alloc(inv[0].ops[1]) if inv else None
    ndp = 0
    for c in [i for i in g.insts() if i.op == 'call' and i.callee == '@region_dot_product']:
        ndp += 1
        rt = root_alloc(c.ops[2])
        inst = f'liberasurecode_rs_vand_reconstruct: coefficient row of the dot product at line {c.line}'
        if rt is not None and inv_root is not None and rt is inv_root:
            r.ok(inst + ': a row of the inverse', func=g.name, loc=c.loc)
            continue
        zeroed = False
        if rt is not None and rt.op == 'call' and rt.callee == '@calloc':
            zeroed = True
        elif rt is not None and rt.op == 'call' and rt.callee == '@malloc':
            A4, _ = derived_pointers(g, [rt.res])
            for ms in g.insts():
                if ms.op == 'call' and (ms.callee or '').startswith('@llvm.memset') and ms.ops[0] in A4 and ms.ops[1] == '0' and \
                   (ms.bb is c.bb and ms.idx < c.idx or (ms.bb is not c.bb and _dm4(idom4, ms.bb, c.bb))):
                    zeroed = True
        if zeroed:
            r.ok(inst + ': a local row, zero-filled before it is accumulated into', func=g.name, loc=c.loc)
        else:
            what = (rt.callee if rt is not None and rt.op == 'call' else 'a value that is not a local allocation')
            r.fail(inst, func=g.name, sig='coefficient row is neither an inverse row nor a zeroed local', loc=c.loc,
                   msg=f'the row multiplied into the rebuilt fragment is built in {what} at line {rt.line if rt is not None else "?"}, which is neither the inverse matrix nor '
                       'a buffer cleared beforehand: the ^= accumulation starts from whatever that buffer held')
    if not ndp:
        r.undecided('reconstruct: dot products', loc=g.mod.src, msg='no region_dot_product call found')
    r.require_min(2)

    # ---------------- R04h one construction of the generator
    r = ctx.rule('R04h', 'the generator has one construction: whatever make_systematic_matrix returns is the matrix create_non_systematic_vand_matrix built, which is its single allocation',
                 'the parity coefficients are defined by the elimination of the Vandermonde matrix for every shape: a second, shape-specific way of writing the matrix down is a second code')
    def sources(fn, v, seen=None):
        seen = seen if seen is not None else set()
        v = strip_ptr_casts(fn, v)
        if v in seen:
            return set()
        seen.add(v)
        if v == 'null':
            return {'null'}
        d = fn.defs.get(v)
        if d is None:
            return {v}
        if d.op == 'phi':
            out = set()
            for x, _ in d.incoming:
                out |= sources(fn, x, seen)
            return out
        if d.op == 'select':
            return sources(fn, d.ops[1], seen) | sources(fn, d.ops[2], seen)
        if d.op in ('bitcast', 'getelementptr'):
            return sources(fn, d.ops[0], seen)
        return {d}
    for fname, maker in (('make_systematic_matrix', '@create_non_systematic_vand_matrix'), ('create_non_systematic_vand_matrix', None)):
        cands = [m.functions.get('@' + fname) for m in P.mods if m.src == 'src/builtin/rs_vand/liberasurecode_rs_vand.c']
        cands = [x for x in cands if x is not None]
        if not cands:
            raise AnalysisBroken(f'anchor vanished: {fname}')
        g = cands[0]
        srcs = set()
        for t in [i for i in g.insts() if i.op == 'ret' and i.ops]:
            srcs |= sources(g, t.ops[0])
        real = [x for x in srcs if x != 'null']
        inst = f'{fname}: the returned matrix has one origin'
        if maker is not None:
            ok = len(real) == 1 and not isinstance(real[0], str) and real[0].op == 'call' and real[0].callee == maker
        else:
            ok = len(real) == 1 and not isinstance(real[0], str) and real[0].op == 'call' and real[0].callee in ('@malloc', '@calloc')
        if ok:
            r.ok(inst + f' ({real[0].callee})', func=g.name, loc=real[0].loc)
        else:
            shown = sorted((x if isinstance(x, str) else f'{x.callee if x.op == "call" else x.op} at line {x.line}') for x in real)
            bad = [x for x in real if isinstance(x, str) or x.op != 'call' or x.callee != maker]
            r.fail(inst, func=g.name, sig=f'{fname} returns matrices of {len(real)} origins', loc=(bad[0].loc if bad and not isinstance(bad[0], str) else g.mod.src),
                   msg=f'{fname} returns a matrix from {shown}: the generator is not built by the one Vandermonde construction for every shape '
                       '(a shape-specific shortcut yields different parity coefficients for those shapes; stripes written earlier are no longer decodable)')
    r.require_min(2)

    ctx.borrow('c18', ['R18b'], 'the GF tables must be complete before any other thread can build a generator from them')
