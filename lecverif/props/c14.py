"""C14 descriptors and instance isolation: allocator (R14a), locked registry updates (R14b), destroy order (R14c), create order
(R14d), instances immutable after create (R14e), shared GF tables reference counting (R14f)."""
import re
from .. import callgraph, lockset, api, consteval
from ..vflow import Canon, strip_int_casts, strip_ptr_casts, access_path, fields_in_path, derived_pointers
from ..guards import Facts, dominating_edges
from ..cfg import reachable_from, reaches_without, dominators, dominates, rpo
from ..retval import returns_via_edge, all_negative
from ..build import AnalysisBroken
from . import shared, c18

EXPLANATION = (
    "R14a: liberasurecode_backend_alloc_desc returns the counter after increment, clamped to 1 on the <= 0 edge, and the return "
    "is control-dependent on a NULL registry look-up of that same value (loop otherwise). R14b: registry insertion, descriptor "
    "allocation and removal hold the write lock (lockset, shared with C18). R14c: in destroy the backend exit and library close "
    "precede the removal, the removal precedes free(instance) and the free is on the rc == 0 edge only. R14d: in create the "
    "registration is dominated by the success edges of dlopen and init; every failing edge before it returns a negative "
    "constant. R14e: fields of struct ec_backend, of the backend descriptors and of xor_code_t are stored only during "
    "create/init/register/unregister/close (who-may-write over the whole build), so operations on one instance cannot alter "
    "another. R14f: over every path of the RS back end's init the net number of table references taken (init - deinit calls, "
    "path-sensitive dataflow) is 1 on success and 0 on failure; exit drops exactly one; the tables are freed only on the edge "
    "where the counter reaches 0. NOT decided: behaviour over histories as such (uniqueness after wrap, destruction orders) - "
    "only through these invariants.")

def run(ctx):
    P = ctx.program()
    cg = callgraph.get(P)

    # ---------------- R14a
    r = ctx.rule('R14a', 'descriptor allocator: ++counter, clamp to 1 when <= 0, return only a value the registry does not hold',
                 'a descriptor equal to a live one (after wrap-around) or <= 0 aliases two instances / looks like an error')
    f = P.fn('liberasurecode_backend_alloc_desc')
    from ..consteval import ConstEval, Undecidable
    CE = ConstEval(P, f.mod)
    IMAX = 2**31 - 1
    probes = [i for i in f.insts() if i.op == 'call' and i.res and 'get_by_desc' in i.callee]
    # a concrete registry for the value-function checks: three live instances with descriptors 5, 11, 7 (head to tail)
    I_DESC, I_LINK = P.field_index('ec_backend', 'idesc'), P.field_index('ec_backend', 'link')
    REG = [5, 11, 7]
    def registry(descs):
        objs = {}
        for n_, d_ in enumerate(descs):
            objs[f'inst{n_}'] = {(I_DESC,): d_, (I_LINK, 0): (('obj', f'inst{n_ + 1}', ()) if n_ + 1 < len(descs) else ('null',))}
        head = ('obj', 'inst0', ()) if descs else ('null',)
        return objs, {('@active_instances', (0,)): head}
    def walks_registry(fn_):
        return any(i.op == 'load' and '@active_instances' in i.ops[0] for i in fn_.insts())
    if not probes and walks_registry(f):
        # the search is written out in the allocator itself: decide the same value function against concrete registries
        bad = None
        try:
            for c in (-7, -2, -1, 0, 1, 5, 41, IMAX - 1, IMAX):
                objs, gm = registry([])
                res = CE.run(f, [], gmem=dict(gm, **{'@next_backend_desc': c}), objs=objs, call_hook=lambda ins, args: 0)
                nxt = c + 1 if c < IMAX else -2**31
                want = nxt if nxt > 0 else 1
                if res['ret'] != want or res['gmem'].get('@next_backend_desc') != want:
                    bad = f'counter {c}, empty registry: returns {res["ret"]} (counter left at {res["gmem"].get("@next_backend_desc")}), expected {want}'
                    break
            for c, want in ((10, 12), (6, 8), (4, 6), (20, 21)) if bad is None else ():
                objs, gm = registry(REG)
                res = CE.run(f, [], gmem=dict(gm, **{'@next_backend_desc': c}), objs=objs, call_hook=lambda ins, args: 0)
                if res['ret'] != want:
                    bad = f'counter {c} with descriptors {REG} live: returns {res["ret"]}, expected {want}'
                    break
        except Undecidable as e:
            bad = None
            r.undecided('allocator value function', loc=f.mod.src, msg=str(e))
        else:
            if bad is None:
                r.ok('free registry: returns ++counter, 1 when that is <= 0 (incl. INT_MAX wrap)', func=f.name, loc=f.mod.src)
                r.ok('a descriptor held by a live instance (head, middle or tail of the registry) is skipped', func=f.name, loc=f.mod.src)
                r.ok('probe present (search written out in the allocator)', func=f.name, loc=f.mod.src, trivial=True)
            else:
                r.fail('allocator value function', func=f.name, sig='allocator: ' + bad[:70], loc=f.mod.src, msg='the descriptor allocator does not return a fresh positive descriptor: ' + bad)
    elif not probes:
        r.fail('registry probe', func=f.name, sig='no look-up of the candidate', loc=f.mod.src, msg='the candidate descriptor is not checked against live instances')
    else:
        # (1) with a free registry: counter c -> returns c+1, or 1 when c+1 <= 0 (also at the INT_MAX wrap); the probe sees that value
        bad = None
        for c in (-7, -2, -1, 0, 1, 5, 41, IMAX - 1, IMAX):
            seen = []
            def hook(ins, args):
                if ins in probes:
                    seen.append(next((a_ for a_ in args if isinstance(a_, int)), args[0])); return ('null',)     # the descriptor among the arguments
                return None
            try:
                res = CE.run(f, [], gmem=dict(registry([])[1], **{'@next_backend_desc': c}), call_hook=hook)
            except Undecidable as e:
                bad = ('undecided', str(e)); break
            nxt = c + 1 if c < IMAX else -2**31
            want = nxt if nxt > 0 else 1
            if res['ret'] != want or seen != [want] or res['gmem'].get('@next_backend_desc') != want:
                bad = ('fail', f'counter {c}: returns {res["ret"]} (probed {seen}, counter left at {res["gmem"].get("@next_backend_desc")}), expected {want}')
                break
        if bad is None:
            r.ok('free registry: returns ++counter, 1 when that is <= 0 (incl. INT_MAX wrap); the probe sees exactly that value', func=f.name, loc=probes[0].loc)
        elif bad[0] == 'undecided':
            r.undecided('allocator value function', loc=probes[0].loc, msg=bad[1])
        else:
            r.fail('allocator value function', func=f.name, sig='allocator: ' + bad[1][:70], loc=probes[0].loc, msg='the descriptor allocator does not compute ++counter clamped to 1: ' + bad[1])
        # (2) a value the registry holds is skipped: first probe non-NULL, second NULL -> returns the second candidate
        seq = []
        def hook2(ins, args):
            if ins in probes:
                seq.append(next((a_ for a_ in args if isinstance(a_, int)), args[0]))
                return ('g', '@some_instance', ()) if len(seq) == 1 else ('null',)
            return None
        try:
            res = CE.run(f, [], gmem=dict(registry([])[1], **{'@next_backend_desc': 10}), call_hook=hook2)
            if res['ret'] == 12 and seq == [11, 12]:
                r.ok('a descriptor held by a live instance is skipped (loop until the probe is NULL)', func=f.name, loc=probes[0].loc)
            else:
                r.fail('live descriptor skipped', func=f.name, sig=f'with 11 live: returns {res["ret"]} after probing {seq}', loc=probes[0].loc,
                       msg=f'with descriptor 11 in use the allocator returns {res["ret"]} (probes {seq}); it must go on to 12')
        except Undecidable as e:
            r.undecided('live descriptor skipped', loc=probes[0].loc, msg=str(e))
        r.ok('probe present', func=f.name, loc=probes[0].loc, trivial=True)
    # whatever the registry holds, the allocator has no failing exit: register links the instance before it asks for the descriptor
    # and only unlocks when the answer is <= 0, so a refusal would leave an instance registered under descriptor 0
    from ..vflow import possible_consts as _pc14
    bad_rets = set()
    for t_ in [i for i in f.insts() if i.op == 'ret' and i.ops]:
        bad_rets |= {v_ for v_ in _pc14(f, t_.ops[0]) if isinstance(v_, int) and v_ <= 0}
    if bad_rets:
        r.fail('allocator never refuses', func=f.name, sig=f'allocator can return {sorted(bad_rets)}', loc=f.mod.src,
               msg=f'liberasurecode_backend_alloc_desc can return {sorted(bad_rets)}: liberasurecode_backend_instance_register has already linked the instance and '
                   'only unlocks on a non-positive descriptor, so the failed create leaves an instance that answers on descriptor 0')
    else:
        r.ok('the allocator has no constant non-positive return value', func=f.name, loc=f.mod.src, trivial=True)
    r.require_min(3)

    # ---------------- R14b (lockset, shared)
    r = ctx.rule('R14b', 'registry insert / descriptor allocation / remove run under the write lock',
                 'two creates would otherwise obtain the same descriptor')
    pub = ['@' + a['name'] for a in api.public_api(ctx.root)]
    LS = lockset.Lockset(P, pub)
    for fname in ('liberasurecode_backend_instance_register', 'liberasurecode_backend_instance_unregister', 'liberasurecode_backend_alloc_desc'):
        g = P.fn(fname)
        n = 0
        for ins in g.insts():
            if ins.op == 'store':
                root, steps = access_path(P, g, ins.ops[1])
                fl = fields_in_path(steps)
                if root in ('@active_instances', '@next_backend_desc') or ('ec_backend', 'link') in fl or ('ec_backend', 'idesc') in fl:
                    n += 1
                    held = LS.held_at(ins) or {}
                    if held.get('@active_instances_rwlock') == 'W':
                        r.ok(f'{fname}: store at line {ins.line} under the write lock', func=g.name, loc=ins.loc)
                    else:
                        r.fail(f'{fname}: registry store at line {ins.line}', func=g.name, sig=f'registry store held={held}', loc=ins.loc, msg=f'registry is modified with locks {held}')
    r.require_min(4)

    # ---------------- R14c destroy order
    r = ctx.rule('R14c', 'destroy: backend exit and library close, then unregister, then free(instance) on rc == 0 only',
                 'freeing before removal leaves a dangling registry entry that later look-ups dereference')
    d = P.fn('liberasurecode_instance_destroy')
    Cd = Canon(P, d)
    lk = [i for i in d.insts() if i.op == 'call' and i.callee == '@liberasurecode_backend_instance_get_by_desc']
    unreg = [i for i in d.insts() if i.op == 'call' and i.callee == '@liberasurecode_backend_instance_unregister']
    frees = [i for i in d.insts() if i.op == 'call' and i.callee == '@free']
    exits = [i for i in d.insts() if i.op == 'call' and i.callee.startswith('%') and set(cg.callees(d, i)) & set(cg.slot_functions('exit').values())]
    closes = [i for i in d.insts() if i.op == 'call' and i.callee == '@liberasurecode_backend_close']
    if not (lk and unreg and frees and exits and closes):
        r.fail('destroy sequence', func=d.name, sig='missing step', loc=d.mod.src,
               msg=f'look-up {len(lk)}, exit op {len(exits)}, close {len(closes)}, unregister {len(unreg)}, free {len(frees)}')
    else:
        from ..cfg import inst_dominates
        u, fr = unreg[0], frees[0]
        ok_order = inst_dominates(d, exits[0], u) and inst_dominates(d, closes[0], u) and inst_dominates(d, u, fr)
        F = Facts(P, d, fr.bb)
        ok_rc = any(p == 'eq' and a == Cd.val(u.res) and b == '0' for p, a, b in F.facts)
        same = Cd.val(fr.ops[0]) == Cd.val(u.ops[0]) == Cd.val(lk[0].res)
        if ok_order and ok_rc and same:
            r.ok('exit op, close, unregister, then free(instance) only when unregister returned 0', func=d.name, loc=fr.loc)
        else:
            why = []
            if not ok_order: why.append('order is not exit/close -> unregister -> free')
            if not ok_rc: why.append('free(instance) is not conditional on unregister == 0')
            if not same: why.append('freed object is not the looked-up instance')
            r.fail('destroy order', func=d.name, sig='; '.join(why)[:100], loc=fr.loc, msg='; '.join(why))
    r.require_min(1)

    # ---------------- R14d create order
    r = ctx.rule('R14d', 'create: registration happens after dlopen and init succeeded; refusals return negative constants',
                 'a half-initialised instance must never be visible through a descriptor')
    c = P.fn('liberasurecode_instance_create')
    Cc = Canon(P, c)
    reg = [i for i in c.insts() if i.op == 'call' and i.callee == '@liberasurecode_backend_instance_register']
    init = [i for i in c.insts() if i.op == 'call' and i.callee.startswith('%') and set(cg.callees(c, i)) & set(cg.slot_functions('init').values())]
    op = [i for i in c.insts() if i.op == 'call' and i.callee == '@liberasurecode_backend_open']
    if not (reg and init and op):
        raise AnalysisBroken('anchor vanished: create lacks open/init/register')
    from ..cfg import inst_dominates
    def null_edges_after(call, field):
        out = []
        for b in c.order:
            t = b.insts[-1]
            if t.op == 'br' and len(t.targets) == 2 and t.ops:
                cc = c.defs.get(t.ops[0])
                if cc is not None and cc.op == 'icmp' and 'null' in cc.ops and cc.pred in ('eq', 'ne'):
                    o = cc.ops[0] if cc.ops[1] == 'null' else cc.ops[1]
                    od = c.defs.get(o)
                    hit = o == call.res
                    if od is not None and od.op == 'load':
                        _, st2 = access_path(P, c, od.ops[0])
                        hit = hit or fields_in_path(st2)[-1:] == [('ec_backend_desc', field)]
                    if hit and (b is call.bb or dominates(dominators(c), call.bb, b)):
                        out.append((b, c.blocks[t.targets[0] if cc.pred == 'eq' else t.targets[1]]))
        return out
    probs = []
    for call, field, what in ((op[0], 'backend_sohandle', 'library handle'), (init[0], 'backend_desc', 'backend descriptor')):
        ne = null_edges_after(call, field)
        if not ne:
            probs.append(f'the {what} is never tested after it was obtained')
        elif any(reg[0].bb in reachable_from(dst) for _, dst in ne):
            probs.append(f'registration is reachable although the {what} is NULL')
    if not inst_dominates(c, init[0], reg[0]):
        probs.append('registration is not preceded by the backend init on every path')
    if not probs:
        r.ok('register is reached only with a non-NULL handle and a non-NULL backend descriptor, after init', func=c.name, loc=reg[0].loc)
    else:
        r.fail('register after successful open and init', func=c.name, sig='; '.join(probs)[:100], loc=reg[0].loc, msg='; '.join(probs))
    bad = []
    for src, dst in dominating_edges(c, reg[0].bb):
        for other in src.succs:
            if other is not dst:
                vals = returns_via_edge(c, src, other)
                if not all_negative(vals):
                    bad.append((src, vals))
    if bad:
        r.fail('refusals return errors', func=c.name, sig=f'refusal returns {sorted(map(str, bad[0][1]))}', loc=bad[0][0].insts[-1].loc, msg='a refusing edge of create can return a non-negative value')
    else:
        r.ok('every refusing edge before registration returns a negative constant', func=c.name, loc=reg[0].loc)
    r.require_min(2)

    # ---------------- R14g dead descriptors are refused everywhere (shared with C13)
    r = ctx.rule('R14g', 'every entry point tests the descriptor look-up before use; unknown / destroyed descriptor => error',
                 'a destroyed descriptor must be refused by every entry point until reissued')
    from . import c13
    c13.rule_lookups(ctx, P, r)
    r.require_min(11)

    # ---------------- R14e who may write instance state
    r = ctx.rule('R14e', 'instance state is written only while the instance is created / registered / torn down',
                 'an operation that caches into its descriptor makes results depend on history and races with other threads')
    ALLOWED = {
        'ec_backend': {'@liberasurecode_instance_create', '@liberasurecode_backend_instance_register', '@liberasurecode_backend_instance_unregister',
                       '@liberasurecode_backend_close', '@liberasurecode_backend_available'},
    }
    desc_structs = {'flat_xor_hd_descriptor', 'liberasurecode_rs_vand_descriptor', 'isa_l_descriptor', 'null_descriptor', 'xor_code_s'}
    inits = set(cg.slot_functions('init').values()) | {'@isa_l_common_init', '@init_xor_hd_code'}
    n = 0
    for m in P.mods:
        if re.search(r'jerasure|shss|phazrio|alg_sig', m.src):
            continue
        for g in m.functions.values():
            for ins in g.insts():
                if ins.op != 'store':
                    continue
                root, steps = access_path(P, g, ins.ops[1])
                fl = fields_in_path(steps)
                if not fl:
                    continue
                top = fl[0][0]
                # stores into a by-value local copy (alloca) are not instance state
                rd = g.defs.get(root) if isinstance(root, str) else None
                if rd is not None and rd.op == 'alloca':
                    continue
                if top == 'ec_backend' or (fl[0][0] in ('ec_backend_common', 'ec_backend_args', 'ec_backend_desc') and False):
                    n += 1
                    if g.name in ALLOWED['ec_backend']:
                        r.ok(f'{g.name} stores ec_backend.{".".join(x[1] for x in fl)}', func=g.name, loc=ins.loc, trivial=True)
                    else:
                        r.fail(f'{g.name} stores ec_backend.{fl[0][1]}', func=g.name, sig='store ec_backend.' + '.'.join(x[1] for x in fl), loc=ins.loc,
                               msg=f'{g.name} writes instance state ({".".join(x[1] for x in fl)}) outside create/register/unregister/close')
                elif top in desc_structs:
                    n += 1
                    if g.name in inits:
                        r.ok(f'{g.name} stores {top}.{fl[0][1]}', func=g.name, loc=ins.loc, trivial=True)
                    else:
                        r.fail(f'{g.name} stores {top}.{fl[0][1]}', func=g.name, sig=f'store {top}.{fl[0][1]}', loc=ins.loc,
                               msg=f'{g.name} writes backend descriptor state {top}.{fl[0][1]} after init: results of later calls depend on earlier ones')
                elif top == 'ec_args':
                    n += 1
                    if g.name in inits or g.name == '@liberasurecode_instance_create':
                        r.ok(f'{g.name} stores ec_args.{fl[0][1]}', func=g.name, loc=ins.loc, trivial=True)
                    else:
                        r.fail(f'{g.name} stores ec_args.{fl[0][1]}', func=g.name, sig=f'store ec_args.{fl[0][1]}', loc=ins.loc, msg='instance arguments are modified after create')
    # memory the descriptor points at (encode tables, matrices, scratch areas) is instance state too: outside init / exit nothing is
    # stored through a pointer loaded from a descriptor field and no callee that writes through its argument receives one
    from .. import effects as _eff14e
    E14e = _eff14e.get(P)
    exits_ = set(cg.slot_functions('exit').values()) | {'@isa_l_exit'}
    nind = 0
    for m in P.mods:
        if re.search(r'jerasure|shss|phazrio|alg_sig', m.src):
            continue
        for g in m.functions.values():
            if g.name in inits or g.name in exits_:
                continue
            owned = []
            for ld in g.insts():
                if ld.op == 'load' and ld.ty and ld.ty.endswith('*') and '(' not in ld.ty:
                    root, steps = access_path(P, g, ld.ops[0])
                    fl = fields_in_path(steps)
                    rd = g.defs.get(root) if isinstance(root, str) else None
                    if fl and fl[-1][0] in desc_structs and not (rd is not None and rd.op == 'alloca'):
                        owned.append((ld, fl[-1]))
            for ld, fld in owned:
                D, _ = derived_pointers(g, [ld.res])
                for ins in g.insts():
                    w = None
                    if ins.op == 'store' and ins.ops[1] in D:
                        w = 'a store'
                    elif ins.op == 'call' and not (ins.callee or '').startswith('@llvm.dbg'):
                        for ai, a in enumerate(ins.ops):
                            if isinstance(a, str) and a in D:
                                for cal in cg.callees(g, ins) or []:
                                    if cal in ('@free',):
                                        continue
                                    if E14e.writes_through(cal, ai, deep=False):
                                        w = f'{cal} (writes through argument {ai})'
                    if w:
                        nind += 1
                        r.fail(f'{g.name} writes memory owned by the descriptor ({fld[0]}.{fld[1]})', func=g.name, sig=f'write through {fld[0]}.{fld[1]}', loc=ins.loc,
                               msg=f'{g.name} writes ({w}) into the memory {fld[0]}.{fld[1]} points at: that memory belongs to the instance and is shared by every call '
                                   'and thread that uses the descriptor, so later results depend on earlier calls and concurrent calls race')
    ctx.extra['instance_state_stores'] = n
    r.require_min(30, 'stores to instance state')

    # ---------------- R14i the registry search itself
    r = ctx.rule('R14i', 'registry search: NULL only after the whole list was walked, an entry only when its descriptor equals the argument',
                 'a search that stops early (e.g. assuming an ordering) reports live instances as unknown and lets the allocator reissue their descriptors')
    from ..paths import enumerate_paths
    # the public look-up as a value function: against the registry 5 -> 11 -> 7 it returns exactly the entry whose descriptor is asked for
    pubf = P.fn('liberasurecode_backend_instance_get_by_desc')
    CEp = ConstEval(P, pubf.mod)
    def public_lookup(d_):
        # the search may live in a file-local helper (followed by name) or be written out in the function itself
        objs, gm = registry(REG)
        def hook(ins, args):
            g_ = P.fns.get(ins.callee)
            if g_ is not None and g_.order and g_.linkage == 'internal':          # the file-local finder (it may be handed the list head)
                return CEp.run(g_, args, gmem=dict(gm), objs=objs, call_hook=lambda i2, a2: 0)['ret']
            return 0
        return CEp.run(pubf, [d_], gmem=dict(gm), objs=objs, call_hook=hook)['ret']
    try:
        wrong = []
        for d_, want in ((5, ('obj', 'inst0', ())), (11, ('obj', 'inst1', ())), (7, ('obj', 'inst2', ())), (6, ('null',)), (12, ('null',)), (0, ('null',)), (-1, ('null',))):
            got = public_lookup(d_)
            if got != want:
                wrong.append(f'descriptor {d_}: {"NULL" if got == ("null",) else got} instead of {"NULL" if want == ("null",) else "the instance holding it"}')
        if wrong:
            r.fail('look-up value function', func=pubf.name, sig='look-up: ' + wrong[0][:70], loc=pubf.mod.src,
                   msg=f'with descriptors {REG} live (head to tail) the look-up answers: ' + '; '.join(wrong))
        else:
            r.ok(f'look-up against the registry {REG}: each live descriptor yields its instance, anything else NULL', func=pubf.name, loc=pubf.mod.src)
    except Undecidable as e:
        r.undecided('look-up value function', loc=pubf.mod.src, msg=str(e))
    lf = P.fns.get('@backend_instance_get_by_desc_locked')
    if lf is None:
        # the search is written out in its callers: the value functions above (look-up) and under R14a (allocator) decide it
        class _NoPaths:
            name = pubf.name
        paths_of = []
    else:
        paths_of = enumerate_paths(P, lf)
    Cl = Canon(P, lf) if lf is not None else None
    np_ = 0
    for n, p in enumerate(paths_of):
        T = [(pr, a, b) for pr, a, b, w, i in p.truths()]
        isnull = p.ret == 'null' or ('eq', p.ret, 'null') in T
        np_ += 1
        if isnull:
            # exhausted: the last truth says the cursor is NULL, and no entry was skipped on a condition other than "different descriptor"
            skipped = [(pr, a, b) for pr, a, b in T if '.idesc' in a + b and pr != 'ne']
            if T and T[-1][0] == 'eq' and T[-1][2] == 'null' and not skipped:
                r.ok(f'path #{n}: NULL after the end of the list', func=lf.name, loc=lf.mod.src, trivial=(len(T) == 1))
            else:
                r.fail(f'path #{n}: NULL result', func=lf.name, sig='NULL returned before the end of the list', loc=lf.mod.src,
                       msg=f'the search returns NULL although the list is not exhausted (conditions on this path: {T[-3:]}): a live instance behind this position is reported unknown')
        else:
            di_ = next((n_ for n_, (ty_, _pn) in enumerate(lf.params) if ty_ == 'i32'), 0)      # the descriptor among the parameters
            want = ('eq', f'*{p.ret}.idesc', f'arg{di_}')
            if want in T or ('eq', f'arg{di_}', f'*{p.ret}.idesc') in T:
                r.ok(f'path #{n}: entry returned under idesc == desc', func=lf.name, loc=lf.mod.src)
            else:
                r.fail(f'path #{n}: entry result', func=lf.name, sig='entry returned without idesc == desc', loc=lf.mod.src,
                       msg=f'the search returns {p.ret} on a path without the test idesc == desc (conditions: {T[-3:]})')
    r.require_min(3 if lf is not None else 1)

    # ---------------- R14k no success without looking the descriptor up
    r = ctx.rule('R14k', 'every entry point that takes a descriptor looks it up on every path that returns a non-negative value',
                 'a shortcut that returns 0 before the look-up ("nothing to release") accepts destroyed and never-issued descriptors')
    from .. import api as _api14
    nk = 0
    for a_ in _api14.public_api(ctx.root):
        fnk = P.fns.get('@' + a_['name'])
        if fnk is None or not fnk.params or fnk.params[0][0] != 'i32' or fnk.retty.strip() != 'i32':
            continue
        looks = [i_ for i_ in fnk.insts() if i_.op == 'call' and 'get_by_desc' in i_.callee and strip_int_casts(fnk, i_.ops[0]) == fnk.params[0][1]]
        if not looks:
            continue
        nk += 1
        bad = None
        for rt in [i_ for i_ in fnk.insts() if i_.op == 'ret' and i_.ops]:
            # expand merges of return values down to (value, block it comes from)
            inc, st_, seen_ = [], [(rt.ops[0], None)], set()
            while st_:
                v0, lab0 = st_.pop()
                d_ = fnk.defs.get(v0)
                if d_ is not None and d_.op == 'phi' and (v0, lab0) not in seen_:
                    seen_.add((v0, lab0))
                    st_ += list(d_.incoming)
                else:
                    inc.append((v0, lab0))
            for v_, lab in inc:
                if re.match(r'^-\d+$', v_):
                    continue
                goal_blk = fnk.blocks[lab] if lab else rt.bb
                hit = reaches_without(fnk, fnk.entry, lambda i2, gb=goal_blk: i2.bb is gb and i2 is gb.insts[-1], lambda i2: i2 in looks, 0)
                if hit is not None:
                    bad = (v_, goal_blk)
        inst = f'{fnk.name}: a non-negative result implies the descriptor was looked up'
        if bad:
            r.fail(inst, func=fnk.name, sig=f'returns {bad[0][:30]} without a look-up', loc=bad[1].insts[-1].loc,
                   msg=f'{fnk.name} can return {bad[0]} on a path that never calls the descriptor look-up: a destroyed or never issued descriptor is accepted there')
        else:
            r.ok(inst, func=fnk.name, loc=looks[0].loc)
    r.require_min(9)

    # ---------------- R14j unlink rewrites the link that points at the removed instance
    r = ctx.rule('R14j', 'unregister: the pointer that is overwritten is one that was compared equal to the removed instance (head or predecessor link)',
                 'rewriting another node\'s link (e.g. the head\'s instead of the predecessor\'s) cuts live instances out of the registry')
    uf = P.fn('liberasurecode_backend_instance_unregister')
    Cu = Canon(P, uf)
    inst_param = uf.params[0][1]
    nun = 0
    def pointees(fn_, ptr, depth=0, seen=None):
        """(root, fields) alternatives of a pointer that may be a merge (`pp = &head` / `pp = &node->link.next`)"""
        seen = seen if seen is not None else set()
        d_ = fn_.defs.get(ptr)
        if d_ is not None and d_.op in ('phi', 'select') and depth < 4 and ptr not in seen:
            seen.add(ptr)
            out = []
            for v_ in ([v for v, _ in d_.incoming] if d_.op == 'phi' else d_.ops[1:]):
                out += pointees(fn_, v_, depth + 1, seen)
            return out
        root_, steps_ = access_path(P, fn_, ptr)
        return [(root_, fields_in_path(steps_))]
    for st in [i for i in uf.insts() if i.op == 'store']:
        alts = pointees(uf, st.ops[1])
        if not any(root == '@active_instances' or ('ec_backend', 'link') in fl for root, fl in alts):
            continue
        nun += 1
        F = Facts(P, uf, st.bb)
        addr = Cu.addr(st.ops[1])
        ok = False
        for raw, truth in F.raw:
            if raw.op == 'icmp' and ((raw.pred == 'eq') == truth) and raw.pred in ('eq', 'ne') and inst_param in raw.ops:
                other = raw.ops[0] if raw.ops[1] == inst_param else raw.ops[1]
                od = uf.defs.get(other)
                if od is not None and od.op == 'load' and (od.ops[0] == st.ops[1] or Cu.addr(od.ops[0]) == addr):
                    ok = True
        inst = f'unregister: store to {addr[:50]} at line {st.line}'
        if ok:
            r.ok(inst + ': that pointer was found equal to the instance being removed', func=uf.name, loc=st.loc)
        else:
            r.fail(inst, func=uf.name, sig='unlink rewrites a pointer not shown to point at the removed instance', loc=st.loc,
                   msg=f'the registry pointer {addr} is overwritten although no dominating test shows that it points at the instance being removed: '
                       'every instance between that node and the removed one is cut out of the list')
    if not nun:
        r.undecided('unregister: list surgery', loc=uf.mod.src, msg='no store into the registry list found')
    r.require_min(1)                # two stores (head case / predecessor case) or one store through a pointer-to-link

    # ---------------- R14l registry state written at insertion is maintained at removal
    r = ctx.rule('R14l', 'every global that register points at an instance is also updated by unregister',
                 'a remembered instance pointer (tail, cache, "most recent") that removal does not maintain dangles after destroy: the next insertion links into freed memory')
    from .. import effects as _eff14
    E14 = _eff14.get(P)
    rf_, uf_ = P.fn('liberasurecode_backend_instance_register'), P.fn('liberasurecode_backend_instance_unregister')
    def instance_globals(fn_):
        out = {}
        for ins, glob, kind in E14.global_accesses(fn_):
            if kind != 'store' or ins.op != 'store':
                continue
            # the stored value is an instance pointer (the parameter or something read from the registry)
            if ins.ty and 'ec_backend*' in ins.ty.replace(' ', '') and 'rwlock' not in glob:
                out.setdefault(glob, ins)
        # stores through a merged pointer (`*pp = ...` with pp = &global or &node->link)
        for ins in fn_.insts():
            if ins.op == 'store' and ins.ty and 'ec_backend*' in ins.ty.replace(' ', ''):
                for root_, fl_ in pointees(fn_, ins.ops[1]):
                    if isinstance(root_, str) and root_.startswith('@') and 'rwlock' not in root_:
                        out.setdefault(root_, ins)
        return out
    gr, gu = instance_globals(rf_), instance_globals(uf_)
    if not gr:
        r.undecided('register: registry stores', loc=rf_.mod.src, msg='register stores no instance pointer into a global')
    for glob, ins in sorted(gr.items()):
        inst = f'{glob}: written with an instance pointer by register'
        if glob in gu:
            r.ok(inst + ' and by unregister', func=rf_.name, loc=ins.loc)
        else:
            r.fail(inst, func=rf_.name, sig=f'{glob} set by register, never updated by unregister', loc=ins.loc,
                   msg=f'register stores an instance pointer in {glob} but unregister never updates it: after the instance it names is destroyed the pointer dangles')
    r.require_min(1)

    # ---------------- R14f
    # ---------------- R14m the adapters keep nothing between instances
    r = ctx.rule('R14m', 'a back end\'s init / exit keep no state of their own between instances: they write no global (the GF tables behind their mutex are the one shared resource, R14f)',
                 'whatever an init remembers in a static (entry points bound with dlsym, a descriptor, a table) is stale once the instance that produced it is gone: the library it '
                 'came from is unloaded by destroy, and the next create then works - or crashes - depending on which instances existed in between')
    from .. import effects as _eff14
    E14 = _eff14.get(P)
    cg14 = callgraph.get(P)
    nio = 0
    for slot in ('init', 'exit'):
        for gname in sorted(set(cg14.slot_functions(slot).values())):
            gf = P.fns.get(gname)
            if gf is None or re.search(r'jerasure|shss|phazrio', gf.mod.src):
                continue
            nio += 1
            wr = [(ins_, glob_) for ins_, glob_, kind_ in E14.global_accesses(gf) if kind_ == 'store' and 'mutex' not in glob_ and 'rwlock' not in glob_]
            inst = f'{gname}: writes no global'
            if wr:
                r.fail(inst, func=gname, sig=f'{slot} stores to {wr[0][1]}', loc=wr[0][0].loc,
                       msg=f'{gname} (the {slot} operation of a back end) stores into the global / static {wr[0][1]} at line {wr[0][0].line}: state that outlives the instance')
            else:
                r.ok(inst, func=gname, loc=gf.mod.src)
    r.require_min(6)

    r = ctx.rule('R14f', 'GF table references: +1 on every successful RS init path, 0 on every failing one, -1 in exit; free only at count 0',
                 'an unbalanced count frees tables a live instance uses, or keeps 1 MiB forever')
    rule_refcount(ctx, P, r)
    r.require_min(5)

def rule_refcount(ctx, P, r):
    cg = callgraph.get(P)
    init = P.fn('liberasurecode_rs_vand_init')
    ex = P.fn('liberasurecode_rs_vand_exit')
    def delta(fn, ins):
        if ins.op != 'call':
            return 0
        cs = cg.callees(fn, ins)
        d = 0
        if any(c in ('@init_liberasurecode_rs_vand', '@rs_galois_init_tables') for c in cs):
            d += 1
        if any(c in ('@deinit_liberasurecode_rs_vand', '@rs_galois_deinit_tables') for c in cs):
            d -= 1
        return d
    # path-sensitive count sets
    def flow(fn, delta=delta):
        IN = {fn.entry: {0}}
        OUT = {}
        changed = True
        order = rpo(fn)
        while changed:
            changed = False
            for b in order:
                if b is not fn.entry:
                    st = set()
                    for p in b.preds:
                        st |= OUT.get(p, set())
                    if not st:
                        continue
                    IN[b] = st
                cur = set(IN.get(b, set()))
                for i in b.insts:
                    dd = delta(fn, i)
                    if dd:
                        cur = {x + dd for x in cur if -3 <= x + dd <= 3}
                if OUT.get(b) != cur:
                    OUT[b] = cur; changed = True
        return IN, OUT
    # the built-in wrappers take / drop exactly one reference on every one of their paths
    def gdelta(fn, ins):
        if ins.op != 'call':
            return 0
        return (1 if ins.callee == '@rs_galois_init_tables' else 0) - (1 if ins.callee == '@rs_galois_deinit_tables' else 0)
    for w, want in (('init_liberasurecode_rs_vand', 1), ('deinit_liberasurecode_rs_vand', -1)):
        wf = P.fn(w)
        INw, OUTw = flow(wf, gdelta)
        got = set()
        for t in [i for i in wf.insts() if i.op == 'ret']:
            got |= OUTw.get(t.bb, set())
        if got == {want}:
            r.ok(f'{w}: every path changes the table reference count by {want:+d}', func=wf.name, loc=wf.mod.src)
        else:
            r.fail(f'{w}: reference count change', func=wf.name, sig=f'paths change the count by {sorted(got)}', loc=wf.mod.src,
                   msg=f'{w} changes the table reference count by {sorted(got)} depending on the path (must be {want:+d} always): its callers pair it '
                       'unconditionally with the opposite call, so a reference is dropped that was never taken, or never dropped')
    # the counter itself: every path of init_tables adds one, every path of deinit_tables subtracts one (clamped at 0)
    from ..paths import enumerate_paths
    from ..poly import PolyCtx, Poly
    deinit_by_value = [False]
    for gm in [m for m in P.mods if m.src == 'src/builtin/rs_vand/rs_galois.c'][:1]:
        # deinit (loop-free): constant propagation of counter values -> new counter == max(c - 1, 0), tables freed iff c == 1
        from ..consteval import ConstEval as _CE, Undecidable as _Und
        gde = gm.functions.get('@rs_galois_deinit_tables')
        if gde is None:
            raise AnalysisBroken('anchor vanished: @rs_galois_deinit_tables')
        cname = [g for g in gm.globals if 'init_counter' in g]
        badd = None
        for c0 in (-2, -1, 0, 1, 2, 3, 7):
            try:
                res = _CE(P, gm).run(gde, [], gmem={cname[0]: c0} if cname else {})
            except _Und as e:
                badd = ('undecided', str(e)); break
            newc = res['gmem'].get(cname[0]) if cname else None
            freed = sum(1 for k_, i_, a_ in res['events'] if k_ == 'call' and i_.callee == '@free')
            if newc != max(c0 - 1, 0):
                badd = ('fail', f'counter {c0} becomes {newc}, expected {max(c0 - 1, 0)}'); break
            if (freed > 0) != (c0 == 1):
                badd = ('fail', f'with counter {c0} the tables are ' + ('freed' if freed else 'not freed')); break
        inst = '@rs_galois_deinit_tables: counter := max(counter - 1, 0); tables freed exactly when it drops from 1 to 0'
        deinit_by_value[0] = badd is None
        if badd is None:
            r.ok(inst, func=gde.name, loc=gde.mod.src)
        elif badd[0] == 'undecided':
            r.undecided(inst, loc=gde.mod.src, msg=badd[1])
        else:
            r.fail(inst, func=gde.name, sig='deinit: ' + badd[1][:60], loc=gde.mod.src, msg=f'rs_galois_deinit_tables: {badd[1]}: users of the shared tables are miscounted or the tables are freed under a live instance')
        for gname, step in (('@rs_galois_init_tables', 1),):
            gf = gm.functions.get(gname)
            if gf is None:
                raise AnalysisBroken(f'anchor vanished: {gname}')
            Cg = Canon(P, gf)
            pcg = PolyCtx(P, gf, Cg)
            cnt = None
            bad = None
            npaths = 0
            for p in enumerate_paths(P, gf):
                npaths += 1
                sts = [e for e in p.events if e.op == 'store' and Cg.addr(e.ops[1], p.env).startswith('@init_counter')]
                if cnt is None and sts:
                    cnt = Cg.addr(sts[0].ops[1], p.env)
                if not sts:
                    bad = ('a path returns without changing the counter', gf.mod.src); break
                first = pcg.val(sts[0].ops[0])
                if first != Poly.atom('*' + Cg.addr(sts[0].ops[1], p.env)) + Poly.const(step):
                    bad = (f'the counter is set to {first} (expected counter {step:+d})', sts[0].loc); break
                for e in sts[1:]:
                    v = Cg.val(e.ops[0], p.env)
                    if not (step == -1 and v == '0' and any(pr in ('slt', 'sle') and b in ('0', '-1') for pr, a, b, w, i in p.truths())):
                        bad = (f'the counter is stored again with {v}', e.loc); break
                if bad:
                    break
            inst = f'{gname}: every path changes init_counter by {step:+d}' + (' (reset to 0 only when it went negative)' if step < 0 else '')
            if bad:
                r.fail(inst, func=gf.name, sig=f'counter update: {bad[0][:60]}', loc=bad[1], msg=f'{gname}: {bad[0]}: users of the shared tables are miscounted, so the tables are freed under a live instance or never')
            elif npaths:
                r.ok(inst, func=gf.name, loc=gf.mod.src, facts={'paths': npaths})
    IN, OUT = flow(init)
    rets = [i for i in init.insts() if i.op == 'ret']
    for t in rets:
        d = init.defs.get(t.ops[0]) if t.ops else None
        if d is not None and d.op == 'phi' and d.bb is t.bb:
            for v, l in d.incoming:
                cnt = OUT.get(init.blocks[l], set())
                want = {0} if v == 'null' else {1}
                kind = 'failure' if v == 'null' else 'success'
                line = init.blocks[l].insts[-1].line
                inst = f'rs_vand init: {kind} return via line {line} leaves {sorted(want)[0]} table reference(s)'
                if cnt == want:
                    r.ok(inst, func=init.name, loc=init.blocks[l].insts[-1].loc)
                else:
                    r.fail(inst, func=init.name, sig=f'{kind} path holds {sorted(cnt)} references', loc=init.blocks[l].insts[-1].loc,
                           msg=f'a {kind} path of the RS backend init returns with a net table reference count of {sorted(cnt)} (must be {sorted(want)[0]}): ' +
                               ('the shared tables stay allocated with no instance' if kind == 'failure' and max(cnt | {0}) > 0 else
                                'a reference is dropped that was never taken: tables of a live instance are freed' if min(cnt | {0}) < 0 else 'instance without a reference'))
        else:
            r.undecided('rs_vand init returns', loc=t.loc, msg='return value is not a merge of NULL / descriptor')
    IN2, OUT2 = flow(ex)
    for t in [i for i in ex.insts() if i.op == 'ret']:
        cnt = OUT2.get(t.bb, set())
        if cnt == {-1}:
            r.ok('rs_vand exit drops exactly one table reference', func=ex.name, loc=t.loc)
        else:
            r.fail('rs_vand exit', func=ex.name, sig=f'exit changes the count by {sorted(cnt)}', loc=t.loc, msg=f'exit changes the table reference count by {sorted(cnt)}, must be -1')
    # free only when the counter reached 0
    for gm in [m for m in P.mods if m.src == 'src/builtin/rs_vand/rs_galois.c'][:1]:
        de = gm.functions.get('@rs_galois_deinit_tables')
        Cd = Canon(P, de)
        frees = [i for i in de.insts() if i.op == 'call' and i.callee == '@free']
        if not frees:
            r.fail('deinit frees the tables', func=de.name, sig='no free', loc=gm.src, msg='the tables are never freed')
        for fr in frees:
            F = Facts(P, de, fr.bb)
            ok = any(p == 'eq' and re.search(r'init_counter', a + b) and '0' in (a, b) for p, a, b in F.facts)
            # (however the guard is written - a snapshot of the counter compared with 1 - the value function above has established
            # that the frees happen exactly when the count drops from 1 to 0)
            if ok or deinit_by_value[0]:
                r.ok(f'free at line {fr.line} only when the counter reached 0', func=de.name, loc=fr.loc)
            else:
                r.fail('free of tables', func=de.name, sig='free not guarded by counter == 0', loc=fr.loc, msg=f'tables are freed under {F.facts}: live instances may still use them')
