"""rule bodies shared by several properties (each takes the Rule to report into)"""
import re
from .. import api, callgraph
from ..vflow import Canon, strip_int_casts, strip_ptr_casts, access_path, fields_in_path, const_int, possible_consts, derived_pointers
from ..guards import Facts, dominating_edges, edge_condition
from ..cfg import dominators, dominates, reachable_from
from ..retval import returns_via_edge, all_negative
from ..ir import INT
from ..build import AnalysisBroken

IN_SCOPE_BACKENDS = ('@backend_null', '@backend_flat_xor_hd', '@backend_liberasurecode_rs_vand',
                     '@backend_isa_l_rs_vand', '@backend_isa_l_rs_cauchy')

def param_by_name(ctx, P, fname, pname):
    for a in api.public_api(ctx.root):
        if a['name'] == fname:
            for i, (n, _) in enumerate(a['params']):
                if n == pname:
                    return P.fn(fname), i
            raise AnalysisBroken(f'anchor vanished: parameter {pname} of {fname}')
    raise AnalysisBroken(f'anchor vanished: prototype {fname}')

def users(fn, v, through_casts=True):
    """instructions using value v (following integer casts)"""
    vals = {v}
    changed = True
    while changed and through_casts:
        changed = False
        for i in fn.insts():
            if i.res and i.res not in vals and i.op in ('sext', 'zext', 'trunc') and i.ops[0] in vals:
                vals.add(i.res); changed = True
    out = []
    for i in fn.insts():
        if i.op in ('sext', 'zext', 'trunc'):
            continue
        if any(o in vals for o in i.ops if isinstance(o, str)):
            out.append(i)
    return out, vals

K_PLUS_M = re.compile(r'^\(\*(.+)\.k add \*(.+)\.m\)$')
def is_k_plus_m(e):
    m = K_PLUS_M.match(e)
    return bool(m) and m.group(1) == m.group(2)

def km_upper_ok(F, e):
    """facts imply e < k+m (or e <= k+m-1)"""
    for (b, strict, sign) in F.upper_bound_sym(e):
        if strict and is_k_plus_m(b):
            return True
        m = re.match(r'^\((.+) sub 1\)$', b) or re.match(r'^\(-1 add (.+)\)$', b)
        if not strict and m and is_k_plus_m(m.group(1)):
            return True
    return False

def weaker_km_bound(F, e):
    for (b, strict, sign) in F.upper_bound_sym(e):
        if not strict and is_k_plus_m(b):
            return f'{e} <= k+m (needs < k+m)'
    return None

LOGFNS = {'@syslog', '@printf', '@fprintf'}

def must_pass_store(fn, stores, ret_blocks):
    """every path from the entry to the end of one of ret_blocks executes one of `stores` (the compiler may have duplicated
    the block that holds the store, so no single copy dominates)"""
    from ..cfg import reaches_without
    ends = {b.insts[-1] for b in ret_blocks}
    return reaches_without(fn, fn.entry, lambda i_: i_ in ends, lambda i_: any(i_ is s_ for s_ in stores), 0) is None

def nonnull_return_blocks(fn):
    """blocks from which a non-null pointer is returned (clang merges returns through a phi)"""
    out = []
    def walk(v, blk, depth=0):
        # the returned value may pass several merges and casts on its way (`desc = NULL` on the failure arm of a single exit)
        d = fn.defs.get(v)
        while d is not None and d.op == 'bitcast':
            v = d.ops[0]
            d = fn.defs.get(v)
        if v == 'null':
            return
        if d is not None and d.op == 'phi' and depth < 6 and all(i.op in ('phi', 'bitcast', 'br', 'ret') for i in d.bb.insts):
            for v2, l in d.incoming:
                walk(v2, fn.blocks[l], depth + 1)
        elif d is not None and d.op == 'phi' and d.bb is blk and depth == 0:
            for v2, l in d.incoming:
                if v2 != 'null':
                    out.append(fn.blocks[l])
        else:
            out.append(blk)
    for b in fn.order:
        t = b.insts[-1]
        if t.op == 'ret' and t.ops:
            walk(t.ops[0], b)
    return out

# ---------------------------------------------------------------- R03a / R13c
def rule_dest_range(ctx, P, r):
    f, pi = param_by_name(ctx, P, 'liberasurecode_reconstruct_fragment', 'destination_idx')
    pn = f.params[pi][1]
    e = f'arg{pi}'
    us, vals = users(f, pn)
    consumers = []
    for i in us:
        if i.op == 'getelementptr' and any(o in vals for o in i.ops[1:]):
            consumers.append((i, 'array subscript'))
        elif i.op == 'sub' and i.ops[0] in vals:
            consumers.append((i, 'parity subscript (destination - k)'))
        elif i.op == 'call' and i.callee not in LOGFNS:
            consumers.append((i, 'argument of ' + (i.callee if i.callee.startswith('@') else 'backend op / helper')))
    if not consumers:
        raise AnalysisBroken('anchor vanished: no consumer of destination_idx in liberasurecode_reconstruct_fragment')
    for i, how in consumers:
        F = Facts(P, f, i.bb)
        lo = F.lower_bound(e)
        up = km_upper_ok(F, e)
        inst = f'reconstruct: destination_idx as {how} (line {i.line})'
        if lo is not None and lo >= 0 and up:
            r.ok(inst, loc=i.loc, func=f.name, facts={'facts': F.mentions(e)})
        else:
            why = []
            if lo is None or lo < 0:
                why.append('no dominating lower bound 0')
            if not up:
                why.append(weaker_km_bound(F, e) or 'no dominating upper bound k+m')
            r.fail(inst, func=f.name, sig='destination_idx unchecked: ' + '; '.join(why), loc=i.loc,
                   msg=f'destination_idx used as {how} without a dominating check 0 <= idx < k+m ({"; ".join(why)})')
    # failing edges return a negative constant
    for b in f.order:
        t = b.insts[-1]
        if t.op == 'br' and len(t.targets) == 2 and t.ops:
            c = f.defs.get(t.ops[0])
            if c is not None and c.op == 'icmp' and any(strip_int_casts(f, o) == pn for o in c.ops) and c.pred not in ('eq', 'ne'):
                for dst in b.succs:
                    vals_ = returns_via_edge(f, b, dst)
                    cons_reach = any(ci.bb in reachable_from(dst) for ci, _ in consumers if ci.op != 'call' or True)
                    if not cons_reach:
                        if all_negative(vals_):
                            r.ok(f'reconstruct: out-of-range edge at line {t.line} returns an error', loc=t.loc, func=f.name)
                        else:
                            r.fail(f'reconstruct: out-of-range edge at line {t.line}', func=f.name, sig='range failure does not return an error',
                                   loc=t.loc, msg=f'the edge rejecting destination_idx may return {sorted(map(str, vals_))}')

def rule_fragment_len(ctx, P, r):
    hdr = 80
    for fname in ('liberasurecode_decode', 'liberasurecode_reconstruct_fragment'):
        f, pi = param_by_name(ctx, P, fname, 'fragment_len')
        e = f'arg{pi}'
        named = [i for i in f.insts() if i.op == 'call' and i.callee in ('@is_invalid_fragment_header', '@get_fragment_partition',
                                                                          '@fragments_to_string', '@prepare_fragments_for_decode')]
        if not named:
            raise AnalysisBroken(f'anchor vanished: no fragment consumer in {fname}')
        # every use of the caller's fragments counts, whatever it is called: a call that receives the fragment array or one of
        # its elements, or a load through an element (an error message that prints a header field is a read too)
        _, ai_ = param_by_name(ctx, P, fname, 'available_fragments')
        A_arr, _x = derived_pointers(f, [f.params[ai_][1]])
        elems = [i.res for i in f.insts() if i.op == 'load' and i.ops[0] in A_arr and i.ty == 'i8*']
        A_el, _y = derived_pointers(f, elems) if elems else (set(), None)
        cons = list(named)
        for i in f.insts():
            if i in cons:
                continue
            if i.op == 'call' and not i.callee.startswith('@llvm.dbg') and i.callee not in ('@free',) and any(isinstance(a, str) and (a in A_el or a in A_arr) for a in i.ops):
                cons.append(i)
            elif i.op == 'load' and i.ops[0] in A_el:
                cons.append(i)
        bad = None
        for i in cons:
            F = Facts(P, f, i.bb)
            lo = F.lower_bound(e, signed=False)
            if lo is None or lo < hdr:
                bad = (i, lo); break
        inst = f'{fname}: fragment_len >= sizeof(fragment_header_t) before fragment bytes are read'
        if bad:
            i, lo = bad
            what = i.callee if i.op == 'call' else 'a load through a fragment pointer'
            r.fail(inst, func=f.name, sig=f'fragment_len unchecked before {what}', loc=i.loc,
                   msg=f'{what} at line {i.line} reads the caller\'s fragments but no dominating check fragment_len >= {hdr} (bound found: {lo}): a shorter buffer is read past its end')
        else:
            r.ok(inst, func=f.name, loc=cons[0].loc, facts={'consumers': len(cons)})

def rule_num_fragments(ctx, P, r):
    f, pi = param_by_name(ctx, P, 'liberasurecode_decode', 'num_fragments')
    e = f'arg{pi}'
    cons = [i for i in f.insts() if i.op == 'call' and i.callee in ('@get_fragment_partition', '@fragments_to_string')]
    if not cons:
        raise AnalysisBroken('anchor vanished: no partition/reassembly call in liberasurecode_decode')
    ok = True
    for i in cons:
        F = Facts(P, f, i.bb)
        has = any((p == 'sge' and a == e and re.search(r'\.k$', b)) or (p == 'sle' and b == e and re.search(r'\.k$', a)) for p, a, b in F.facts)
        inst = f'decode: num_fragments >= k before {i.callee} (line {i.line})'
        # the second fragments_to_string call passes the constant k, not the parameter
        if not any(strip_int_casts(f, o) == f.params[pi][1] for o in i.ops):
            continue
        if has:
            r.ok(inst, loc=i.loc, func=f.name)
        else:
            r.fail(inst, func=f.name, sig=f'num_fragments < k not refused before {i.callee}', loc=i.loc,
                   msg='no dominating check num_fragments >= k')
    f, pi = param_by_name(ctx, P, 'liberasurecode_verify_stripe_metadata', 'num_fragments')
    e = f'arg{pi}'
    cons = [i for i in f.insts() if i.op == 'call' and i.callee == '@is_invalid_fragment_metadata']
    if not cons:
        raise AnalysisBroken('anchor vanished: verify_stripe_metadata does not call is_invalid_fragment_metadata')
    # the `i < num_fragments` loop guard is itself a fact; require the explicit > 0 test on the path to the loop
    i = cons[0]
    F = Facts(P, f, i.bb)
    lo = F.lower_bound(e)
    if lo is not None and lo >= 1:
        r.ok('verify_stripe_metadata: num_fragments > 0', loc=i.loc, func=f.name)
    else:
        r.fail('verify_stripe_metadata: num_fragments > 0', func=f.name, sig='num_fragments <= 0 not refused', loc=i.loc,
               msg='zero or negative fragment count is not rejected with an error')

# ---------------------------------------------------------------- R13d
def rule_create_shapes(ctx, P, r):
    f = P.fn('liberasurecode_instance_create')
    sites = [i for i in f.insts() if i.op == 'call' and i.callee in ('@calloc', '@malloc')]
    if not sites:
        raise AnalysisBroken('anchor vanished: no instance allocation in liberasurecode_instance_create')
    site = sites[0]
    F = Facts(P, f, site.bb)
    C = Canon(P, f)
    emax = None
    for m in P.mods:
        e = m.enumerators('EC_BACKENDS_MAX')
        if 'EC_BACKENDS_MAX' in e:
            emax = e['EC_BACKENDS_MAX']
    if emax is None:
        raise AnalysisBroken('anchor vanished: enumerator EC_BACKENDS_MAX')
    kexp = [x for p, a, b in F.facts for x in (a, b) if re.search(r'^\*arg\d+\.k$', x)]
    mexp = [x for p, a, b in F.facts for x in (a, b) if re.search(r'^\*arg\d+\.m$', x)]
    k = kexp[0] if kexp else '*arg1.k'
    m = mexp[0] if mexp else '*arg1.m'
    def chk(name, ok, detail):
        if ok:
            r.ok(f'create: {name}', loc=site.loc, func=f.name, facts={'facts': [x for x in F.facts if 'arg' in x[1] + x[2]]})
        else:
            r.fail(f'create: {name}', func=f.name, sig=f'shape check missing: {name}', loc=site.loc,
                   msg=f'the conditions dominating the instance allocation do not imply {name} ({detail})')
    lo = F.lower_bound(k); chk('k >= 1', lo is not None and lo >= 1, f'bound on k: {lo}')
    lo = F.lower_bound(m); chk('m >= 0', lo is not None and lo >= 0, f'bound on m: {lo}')
    s1, s2 = f'({k} add {m})', f'({m} add {k})'
    ub = F.upper_bound_const(s1)
    if ub is None:
        ub = F.upper_bound_const(s2)
    chk('k+m <= 32', ub is not None and ub <= 32, f'bound on k+m: {ub}')
    ub = F.upper_bound_const('arg0')
    chk('id < EC_BACKENDS_MAX', ub is not None and ub <= emax - 1, f'bound on id: {ub}, EC_BACKENDS_MAX={emax}')
    # the refusing edges return negative constants
    for (src, dst) in dominating_edges(f, site.bb):
        for other in src.succs:
            if other is dst:
                continue
            vals = returns_via_edge(f, src, other)
            t = src.insts[-1]
            if all_negative(vals):
                r.ok(f'create: refusal at line {t.line} returns an error', loc=t.loc, func=f.name, trivial=True)
            else:
                r.fail(f'create: refusal at line {t.line}', func=f.name, sig='shape refusal does not return an error', loc=t.loc,
                       msg=f'refusing edge may return {sorted(map(str, vals))}')
    # RS back end: m >= 1 and k >= 1 before the generator matrix is built
    cg = callgraph.get(P)
    g = P.fn('liberasurecode_rs_vand_init')
    msites = [i for i in g.insts() if i.op == 'call' and '@make_systematic_matrix' in cg.callees(g, i)]
    if not msites:
        raise AnalysisBroken('anchor vanished: liberasurecode_rs_vand_init does not build the generator matrix')
    F = Facts(P, g, msites[0].bb)
    for fld in ('m', 'k'):
        ex = sorted({x for p, a, b in F.facts for x in (a, b) if re.search(r'\.%s$' % fld, x)})
        lo = max([F.lower_bound(x) for x in ex if F.lower_bound(x) is not None], default=None)
        if lo is not None and lo >= 1:
            r.ok(f'rs_vand init: {fld} >= 1 before make_systematic_matrix', loc=msites[0].loc, func=g.name)
        else:
            r.fail(f'rs_vand init: {fld} >= 1', func=g.name, sig=f'rs_vand accepts {fld} < 1', loc=msites[0].loc,
                   msg=f'make_systematic_matrix(k, m) is reached without a dominating check {fld} >= 1 (over-read of the matrix for {fld} = 0)')
    # ISA-L: word size is a positive multiple of 8
    rule_isal_w(ctx, P, r)

def rule_isal_w(ctx, P, r):
    cg = callgraph.get(P)
    g = P.fn('isa_l_common_init')
    sites = [i for i in g.insts() if i.op == 'call' and any(c.startswith('ext:gf_gen') for c in cg.callees(g, i))]
    if not sites:
        raise AnalysisBroken('anchor vanished: isa_l_common_init does not generate the encoding matrix')
    site = sites[0]
    from ..paths import enumerate_paths
    C = Canon(P, g)
    paths = [p for p in enumerate_paths(P, g) if p.ret != 'null']
    if not paths:
        raise AnalysisBroken('isa_l_common_init has no path returning a descriptor')
    inst = 'isa_l init: word size is a positive multiple of 8 before it is used'
    problems, seen_store = [], 0
    for p in paths:
        vals = []
        for e in p.events:
            if e.op == 'store':
                root, steps = access_path(P, g, e.ops[1])
                fl = fields_in_path(steps)
                if fl and fl[-1] == ('isa_l_descriptor', 'w'):
                    vals.append(C.val(strip_int_casts(g, e.ops[0]), p.env))
        if not vals:
            problems.append('a successful path leaves the descriptor word size unset'); continue
        seen_store += 1
        V = vals[-1]
        if INT.match(V):
            if int(V) < 8 or int(V) % 8:
                problems.append(f'constant word size {V}')
            continue
        tr = [(a, b_, c) for a, b_, c, _, _ in p.truths()]
        mult8 = any(pr == 'eq' and {a, b_} in ({f'({V} srem 8)', '0'}, {f'({V} urem 8)', '0'}, {f'({V} and 7)', '0'}, {f'(7 and {V})', '0'}) for pr, a, b_ in tr)
        # `switch (w) { case 8: case 16: ...` : on this path the value is one of the listed constants
        pinned = [int(b_) for pr, a, b_ in tr if pr == 'eq' and a == V and INT.match(b_)]
        if pinned and all(c_ >= 8 and c_ % 8 == 0 for c_ in pinned):
            continue
        lo = None
        for pr, a, b_ in tr:
            cand = None
            if a == V and INT.match(b_):
                cand = {'sgt': int(b_) + 1, 'sge': int(b_), 'eq': int(b_)}.get(pr)
            elif b_ == V and INT.match(a):
                cand = {'slt': int(a) + 1, 'sle': int(a), 'eq': int(a)}.get(pr)
            if cand is not None:
                lo = cand if lo is None else max(lo, cand)
        if not mult8 or lo is None or lo < 1:
            # whatever the guard is written as (a switch over the legal widths ends up as a rotated range test): which values of w
            # satisfy the path's conditions on w alone?  they must all be positive multiples of 8
            cond_w = [(pr, a, b_) for pr, a, b_ in tr if V in a + b_ and not re.search(r'[*@]', (a + b_).replace(V, 'W'))]
            ok_grid = []
            decided = bool(cond_w)
            for wv in list(range(-9, 80)) + [128, 255, 256, 1 << 16, (1 << 31) - 8]:
                holds = True
                for pr, a, b_ in cond_w:
                    x, y = canon_eval(a, {V: wv}), canon_eval(b_, {V: wv})
                    if x is None or y is None:
                        decided = False
                        break
                    if not _cmp_holds(pr, x, y):
                        holds = False
                        break
                if not decided:
                    break
                if holds:
                    ok_grid.append(wv)
            if decided and ok_grid and all(wv >= 8 and wv % 8 == 0 for wv in ok_grid):
                continue
        if not mult8:
            problems.append('no guard w % 8 == 0 on a path that keeps the caller value')
        if lo is None or lo < 1:
            problems.append('w <= 0 is neither refused nor replaced by a default before use')
    if not seen_store:
        raise AnalysisBroken('anchor vanished: isa_l_common_init does not store the descriptor word size')
    if not problems:
        r.ok(inst, loc=site.loc, func=g.name, facts={'successful_paths': len(paths)})
    else:
        why = sorted(set(problems))
        r.fail(inst, func=g.name, sig='isa-l word size unchecked: ' + '; '.join(why), loc=site.loc,
               msg='a caller-supplied w reaches the ISA-L descriptor and the size arithmetic (w/8 may be 0 or disagree with the element size): ' + '; '.join(why))


# ---------------------------------------------------------------- aligned, zero-filled allocation (R01b, R15c)
def aligned_zero_alloc(P, fn, depth=0):
    """what fn's returned buffer is, judged by what the code does rather than by which wrapper it calls:
    -> dict(alignment=int|None, zeroed=bool, site=inst, how=str) or None when fn does not allocate with posix_memalign (directly
    or through a function of the program that does).  zeroed: a memset(buf, 0, n) with n == the allocation size lies on every path
    from the successful allocation to a return."""
    from ..cfg import reaches_without
    C = Canon(P, fn)
    pm = [i for i in fn.insts() if i.op == 'call' and i.callee == '@posix_memalign']
    if pm:
        p0 = pm[0]
        al = int(p0.ops[1]) if INT.match(p0.ops[1]) else None
        slot = strip_ptr_casts(fn, p0.ops[0])
        def is_fill(i):
            if i.op != 'call' or not (i.callee or '').startswith('@llvm.memset') or i.ops[1] != '0':
                return False
            d = fn.defs.get(strip_ptr_casts(fn, i.ops[0]))
            from_slot = d is not None and d.op == 'load' and strip_ptr_casts(fn, d.ops[0]) == slot
            return from_slot and C.val(strip_int_casts(fn, i.ops[2])) == C.val(strip_int_casts(fn, p0.ops[2]))
        zeroed = False
        for b in fn.order:
            t = b.insts[-1]
            if t.op == 'br' and len(t.targets) == 2 and t.ops:
                for at_, tv_ in implied_atoms_(fn, t.ops[0], True):
                    if p0.res in at_.ops and '0' in at_.ops and at_.pred in ('eq', 'ne'):
                        okdst = fn.blocks[t.targets[0] if (at_.pred == 'eq') == tv_ else t.targets[1]]
                        zeroed = reaches_without(fn, okdst, lambda i: i.op == 'ret', is_fill) is None
        return dict(alignment=al, zeroed=zeroed, site=p0, how='posix_memalign')
    if depth < 3:
        for i in fn.insts():
            if i.op == 'call' and i.callee in P.fns and P.fns[i.callee].order and i.res and P.fns[i.callee].retty.strip().endswith('*'):
                sub = aligned_zero_alloc(P, P.fns[i.callee], depth + 1)
                if sub is not None:
                    return dict(sub, site=i, how='through ' + i.callee)
    return None


# ---------------------------------------------------------------- list capacities (R02g, R03e)
def min_nonneg(p, lows):
    """polynomial p over atoms with known lower bounds `lows` {atom: lower bound}: True when every non-constant coefficient is >= 0,
    no other atom occurs and the value at the lower bounds is >= 0"""
    tot = 0
    for mono, c in p.items():
        if mono == ():
            tot += c
        elif len(mono) == 1 and mono[0] in lows and c >= 0:
            tot += c * lows[mono[0]]
        else:
            return False
    return tot >= 0

def rule_list_capacity(ctx, P, r, fname, allocs, need, what, lows_of):
    """the buffer of a -1 terminated index list has room for the most entries it can receive plus the terminator.
    allocs: callee names that allocate it (size in bytes = first argument); need(pc) -> polynomial number of entries incl. the terminator"""
    from ..poly import PolyCtx, Poly
    f = P.fn(fname)
    C = Canon(P, f)
    pc = PolyCtx(P, f, C)
    n = 0
    for a in [i for i in f.insts() if i.op == 'call' and i.callee in allocs and i.res]:
        cap = PolyCtx.div(pc.val(a.ops[0]), 4)
        want = need(pc, a)
        if want is None:
            continue
        n += 1
        inst = f'{fname}: {what} allocated at line {a.line} holds every entry and the terminator'
        cv = cap.const_value()
        if (cv is not None and cv >= 33) or min_nonneg(cap - want, lows_of(pc)):
            r.ok(inst, func=f.name, loc=a.loc, facts={'capacity': str(cap), 'needed': str(want)})
        elif cv is not None and cv >= 32:
            r.ok(inst + ' (library-wide limit of 32 fragments)', func=f.name, loc=a.loc, facts={'capacity': str(cap)})
        else:
            r.fail(inst, func=f.name, sig=f'list capacity {str(cap)[:40]} < entries + terminator', loc=a.loc,
                   msg=f'the {what} has room for {cap} ints but can receive {want} (entries plus the -1 terminator): with the list full the terminator / the scan runs past the allocation')
    return n


# ---------------------------------------------------------------- adapters forward (R02h)
FORWARDING_BACKENDS = ('@backend_liberasurecode_rs_vand', '@backend_flat_xor_hd')      # the null backend codes nothing

def rule_forwarders(ctx, P, r):
    """the adapters of the built-in codes (rs_vand, flat_xor_hd, null) are forwarders: encode / decode / reconstruct hand the caller's
    arrays to the plug-in function on every path and do not touch the fragment buffers themselves.  A shortcut in an adapter
    (an early `return 0`, a hand-written fast path) is a second decoder that none of the rules on the coders sees."""
    from ..cfg import reaches_without
    cg = callgraph.get(P)
    n = 0
    for be in FORWARDING_BACKENDS:
        c = cg.common.get(be)
        if c is None:
            continue
        t = cg.op_tables[c['ops']]
        for slot in ('encode', 'decode', 'reconstruct'):
            f = P.fns.get(t[slot])
            if f is None:
                continue
            fwd = [i for i in f.insts() if i.op == 'call' and ((i.callee or '').startswith('%') or (i.callee in P.fns and P.fns[i.callee].mod is not f.mod))
                   and f.params[1][1] in i.ops and f.params[2][1] in i.ops]
            inst = f'{f.name}: forwards data[] / parity[] to the plug-in on every path and does nothing else with them'
            n += 1
            if not fwd:
                r.fail(inst, func=f.name, sig='adapter does not forward', loc=f.mod.src, msg=f'{f.name} never hands data[] and parity[] to a function of its descriptor')
                continue
            skip = reaches_without(f, f.entry, lambda i_: i_.op == 'ret', lambda i_: any(i_ is x for x in fwd), 0)
            A, _ = derived_pointers(f, [f.params[1][1], f.params[2][1]])
            elems = [i.res for i in f.insts() if i.op == 'load' and i.ops[0] in A and i.ty and i.ty.endswith('*')]
            B, _ = derived_pointers(f, elems) if elems else (set(), None)
            touch = [i for i in f.insts() if (i.op == 'store' and (i.ops[1] in B or i.ops[1] in A)) or
                     (i.op == 'call' and not any(i is x for x in fwd) and not (i.callee or '').startswith('@llvm.dbg') and any(isinstance(a, str) and (a in B) for a in i.ops))]
            if skip is not None:
                r.fail(inst, func=f.name, sig='adapter returns without calling the coder', loc=skip.loc,
                       msg=f'{f.name} can return (line {skip.line}) without having called the plug-in {slot} function: for those inputs nothing is decoded / encoded although the caller is told 0 or gets unprocessed buffers')
            elif touch:
                r.fail(inst, func=f.name, sig='adapter works on fragment buffers itself', loc=touch[0].loc,
                       msg=f'{f.name} reads / writes fragment buffers itself (line {touch[0].line}) instead of leaving the arithmetic to the coder behind its descriptor')
            else:
                r.ok(inst, func=f.name, loc=fwd[0].loc)
    return n

# ---------------------------------------------------------------- R13e
FRONT_UNITS = ('src/erasurecode.c', 'src/erasurecode_helpers.c', 'src/erasurecode_preprocessing.c', 'src/erasurecode_postprocessing.c')

def divisor_ok(P, f, v, depth=0):
    """divisor expression is built from k, byte word size (w/8 or element_size()/8), non-zero constants"""
    cg = callgraph.get(P)
    v = strip_int_casts(f, v)
    if INT.match(v):
        return int(v) != 0, 'const'
    if depth > 8:
        return False, 'too deep'
    d = f.defs.get(v)
    if d is None:
        pi = f.param_index(v)
        sites = cg.callers_of(f.name) if pi is not None else []
        if not sites:
            return False, f'parameter {v}'
        res = [divisor_ok(P, g, s.ops[pi], depth + 1) for g, s in sites]
        return all(a for a, _ in res), 'param:' + '|'.join(sorted({w for _, w in res}))
    if d.op == 'load':
        root, steps = access_path(P, f, d.ops[0])
        fl = fields_in_path(steps)
        if fl and fl[-1] == ('ec_args', 'k'):
            return True, 'k'
        if fl and fl[-1] == ('ec_args', 'w'):
            return True, 'w'
        return False, 'load of ' + '.'.join(x[1] for x in fl)
    if d.op in ('sdiv', 'udiv'):
        c = const_int(f, d.ops[1])
        x = strip_int_casts(f, d.ops[0])
        xd = f.defs.get(x)
        if c == 8 and xd is not None:
            if xd.op == 'load':
                root, steps = access_path(P, f, xd.ops[0])
                fl = fields_in_path(steps)
                if fl and fl[-1] == ('ec_args', 'w'):
                    return True, 'w/8'
            if xd.op == 'call' and xd.callee.startswith('%'):
                cal = cg.callees(f, xd)
                slot = cg.slot_functions('element_size').values()
                if cal and set(cal) <= set(slot):
                    return True, 'element_size()/8'
        return False, 'quotient of something else'
    if d.op == 'mul':
        a, wa = divisor_ok(P, f, d.ops[0], depth + 1)
        b, wb = divisor_ok(P, f, d.ops[1], depth + 1)
        return a and b, f'{wa}*{wb}'
    if d.op == 'phi':
        res = [divisor_ok(P, f, x, depth + 1) for x, _ in d.incoming]
        return all(a for a, _ in res), '|'.join(w for _, w in res)
    if d.op == 'shl':
        a, wa = divisor_ok(P, f, d.ops[0], depth + 1)
        return a, wa + '<<'
    if d.op == 'select':
        res = [divisor_ok(P, f, x, depth + 1) for x in d.ops[1:]]
        return all(a for a, _ in res), '|'.join(w for _, w in res)
    return False, d.op

def rule_divisors(ctx, P, r):
    n = 0
    for u in FRONT_UNITS:
        m = P.mod(u)
        for f in m.functions.values():
            for i in f.insts():
                if i.op in ('sdiv', 'udiv', 'srem', 'urem'):
                    c = const_int(f, i.ops[1])
                    if c is not None:
                        if c == 0:
                            r.fail(f'{f.name}: division by constant 0', func=f.name, sig='div by 0', loc=i.loc, msg='division by zero')
                        continue
                    n += 1
                    ok, why = divisor_ok(P, f, i.ops[1])
                    C = Canon(P, f)
                    inst = f'{f.name}: {i.op} by {why} (line {i.line})'
                    if ok:
                        r.ok(inst, loc=i.loc, func=f.name)
                    else:
                        r.fail(inst, func=f.name, sig=f'{i.op} divisor {why}', loc=i.loc,
                               msg=f'divisor {C.val(i.ops[1])} is not built from k and the byte word size only; nothing bounds it away from 0')
    # w/8 >= 1: every in-scope back end stores a whole-byte word size >= 8 into args->uargs.w (or guards it: ISA-L, see R13d)
    cg = callgraph.get(P)
    for be in IN_SCOPE_BACKENDS:
        c = cg.common.get(be)
        if c is None:
            raise AnalysisBroken(f'anchor vanished: {be}')
        init = cg.op_tables[c['ops']]['init']
        g = P.fn(init)
        chain = [g] + [P.fns[x] for i in g.insts() if i.op == 'call' for x in cg.callees(g, i) if x in P.fns and 'init' in x]
        stores = []
        for h in chain:
            for i in h.insts():
                if i.op == 'store':
                    root, steps = access_path(P, h, i.ops[1])
                    fl = fields_in_path(steps)
                    if fl and fl[-1] == ('ec_args', 'w'):
                        stores.append((h, i))
        inst = f'{be}: init leaves a whole-byte word size >= 8 in args.w'
        consts = [const_int(h, i.ops[0]) for h, i in stores]
        if stores and all(cv is not None and cv >= 8 and cv % 8 == 0 for cv in consts):
            isal = 'isa_l' in be
            if isal:
                r.ok(inst + ' (default store; caller value guarded, see R13d)', func=init, loc=stores[0][1].loc, facts={'stores': consts})
            else:
                # the constant store must be unconditional: it dominates every return
                h, i = stores[0]
                rets = nonnull_return_blocks(g) if h is g else [x.bb for x in h.insts() if x.op == 'ret']
                idom = dominators(h)
                if rets and (all(dominates(idom, i.bb, x) for x in rets) or must_pass_store(h, [s_ for h_, s_ in stores if h_ is h], rets)):
                    r.ok(inst, func=init, loc=i.loc, facts={'stores': consts})
                else:
                    r.fail(inst, func=init, sig='word size store is conditional', loc=i.loc,
                           msg='the store of the word size into args.w does not dominate every successful return of init')
        else:
            loc = stores[0][1].loc if stores else g.mod.src
            r.fail(inst, func=init, sig=f'word size stores {consts}', loc=loc,
                   msg=f'init stores {consts or "nothing"} into args.uargs.w; the front end divides by k*(w/8)')

# ---------------------------------------------------------------- R12c
def rule_op_tables(ctx, P, r):
    cg = callgraph.get(P)
    emax = None
    for m in P.mods:
        e = m.enumerators('EC_BACKENDS_MAX')
        if 'EC_BACKENDS_MAX' in e:
            emax = e['EC_BACKENDS_MAX']
    if emax is None:
        raise AnalysisBroken('anchor vanished: EC_BACKENDS_MAX')
    # registry array
    em = P.mod('src/erasurecode.c')
    g = em.globals.get('@ec_backends_supported')
    if g is None:
        raise AnalysisBroken('anchor vanished: ec_backends_supported')
    entries = re.findall(r'%struct\.ec_backend\* (null|bitcast \(%struct\.ec_backend_common\* (@[\w.]+) to %struct\.ec_backend\*\)|(@[\w.]+))', g)
    names = [e[1] or e[2] or None for e in entries]
    if len(names) == emax + 1 and names[-1] is None and all(names[:-1]):
        r.ok(f'ec_backends_supported has {emax} entries and a NULL terminator', func='@ec_backends_supported', loc='src/erasurecode.c')
    else:
        r.fail('ec_backends_supported shape', func='@ec_backends_supported', sig=f'{len(names)} entries, EC_BACKENDS_MAX={emax}',
               loc='src/erasurecode.c', msg=f'array entries {names} do not match EC_BACKENDS_MAX={emax} plus terminator')
    for i, n in enumerate(names[:-1]):
        c = cg.common.get(n)
        if c is None:
            r.fail(f'ec_backends_supported[{i}]', func='@ec_backends_supported', sig=f'entry {i} unknown {n}', loc='src/erasurecode.c', msg='entry is not a backend descriptor')
            continue
        if c['id'] == i:
            r.ok(f'ec_backends_supported[{i}] = {n} has id {i}', func='@ec_backends_supported', loc=c['unit'])
        else:
            r.fail(f'ec_backends_supported[{i}]', func='@ec_backends_supported', sig=f'{n} has id {c["id"]} at position {i}', loc=c['unit'],
                   msg=f'backend {n} (id {c["id"]}) is registered at position {i}: create(id) would instantiate another backend')
    # tables
    for tname, slots in cg.op_tables.items():
        missing = [s for s, fn in slots.items() if fn in ('null', '0', None)]
        owner = [n for n, c in cg.common.items() if c['ops'] == tname]
        if missing:
            r.fail(f'{tname} complete', func=tname, sig='null slot ' + ','.join(missing), loc=(cg.common[owner[0]]['unit'] if owner else ''),
                   msg=f'op table {tname} has null slot(s) {missing}; the front end calls them unconditionally')
        else:
            r.ok(f'{tname}: all {len(slots)} slots non-null', func=tname, trivial=True)
        if len(owner) != 1:
            r.fail(f'{tname} owner', func=tname, sig=f'{len(owner)} owners', loc='', msg=f'op table is referenced by {owner}')
            continue
        own = owner[0]
        fn = P.fns.get(slots['is_compatible_with'])
        if fn is None:
            continue
        C = Canon(P, fn)
        rets = [i for i in fn.insts() if i.op == 'ret']
        exprs = {C.val(i.ops[0]) for i in rets}
        inst = f'{slots["is_compatible_with"]} compares with {own}.ec_backend_version'
        ok = False
        for e in exprs:
            if e in ('true', '1'):
                ok = True
            mm = re.match(r'^\((?:arg0 eq \*(@[\w.]+)\.ec_backend_version|\*(@[\w.]+)\.ec_backend_version eq arg0)\)$', e)
            if mm and (mm.group(1) or mm.group(2)) == own:
                ok = True
            elif mm:
                r.fail(inst, func=fn.name, sig=f'compares with {(mm.group(1) or mm.group(2))}', loc=rets[0].loc,
                       msg=f'{fn.name} sits in the table of {own} but compares with the version of {(mm.group(1) or mm.group(2))}')
                ok = None
        if ok is False and own in IN_SCOPE_BACKENDS:
            # not the plain equality: decide the predicate as a value function of the version (every in-scope backend accepts
            # exactly its own version; the siblings agree on that)
            from ..consteval import ConstEval, Undecidable
            CEv = ConstEval(P, fn.mod)
            try:
                mine = CEv.load(('g', own, (P.field_index('ec_backend_common', 'ec_backend_version'),)), rets[0])
                if isinstance(mine, int):
                    acc = [v for v in sorted({0, 1, mine - 1, mine, mine + 1, (mine | 0xff0000) + 1}) if v >= 0 and CEv.run(fn, [v])['ret'] not in (0, None)]
                    if acc == [mine]:
                        ok = True
                    else:
                        r.fail(inst, func=fn.name, sig=f'accepts versions {acc[:4]}', loc=rets[0].loc,
                               msg=f'{fn.name} accepts backend versions {acc} while the backend\'s own version is {mine}: fragments written by another version of the '
                                   'backend validate as good (every other backend accepts exactly its own version)')
                        ok = None
            except (Undecidable, AnalysisBroken):
                pass
        if ok:
            r.ok(inst, func=fn.name, loc=rets[0].loc, facts={'returns': sorted(exprs)})
        elif ok is False:
            if own in IN_SCOPE_BACKENDS:
                r.undecided(inst, loc=rets[0].loc, msg=f'unrecognised compatibility predicate: {sorted(exprs)}')
            else:
                r.info(inst, loc=rets[0].loc, msg=f'out-of-scope backend with predicate {sorted(exprs)}')

# ---------------------------------------------------------------- R09a
def _loop_of(f, block):
    from ..cfg import natural_loops
    best = None
    for h, body in natural_loops(f).items():
        if block in body and (best is None or len(body) < len(best[1])):
            best = (h, body)
    return best

def validation_loop_facts(P, f, vcall, frag_param, count_param):
    """-> dict(ok=bool, why=str, bound_exit=(src,dst), error_exits=[...]) for the loop around a per-fragment validation call"""
    from ..vflow import derived_pointers
    from ..poly import PolyCtx, Poly
    from ..loops import loops_of, innermost, affine_in_t
    pc = PolyCtx(P, f)
    LL = innermost(loops_of(P, f, pc), vcall.bb)
    if LL is None:
        return None
    h, body = LL.header, LL.body
    res = {'header': h, 'body': body, 'problems': []}
    # iteration space: a guard tested in the header whose trip count is the fragment count parameter
    want = Poly.atom(f'arg{count_param}')
    guard = None
    for g in LL.guards():
        N_, rot_ = LL.count_for(g)
        if N_ is not None and N_ == want and (not rot_ or LL.entry_positive(N_)):
            guard = g
    if guard is None:
        # first iteration peeled off: the loop does fragments 1 .. n-1, fragment 0 is validated in front of it (checked by the caller)
        for g in LL.guards():
            N_, rot_ = LL.count_for(g)
            if N_ is not None and N_ == want - Poly.const(1) and not rot_ and g.block is h:
                guard = g
                res['peeled'] = True
    if guard is None:
        res['problems'].append('the loop does not run once per supplied fragment (no header guard with trip count num_fragments): '
                               + '; '.join(f'{g.lhs} {g.pred} {g.bound} -> {LL.trip(g)} iterations' for g in LL.guards())[:160])
        return res
    res['bound_exit'] = guard.exit_edge
    res['skip_edges'] = set()
    if LL.count_for(guard)[1]:
        # a loop tested at its end sits behind a guard: the edge that goes round the loop when there is nothing to validate
        from ..guards import upper_bound_at
        from ..cfg import dominators, dominates
        idom = dominators(f)
        for b in f.order:
            if b in body or len(b.succs) != 2 or not dominates(idom, b, h):
                continue
            for s_ in b.succs:
                ub = upper_bound_at(P, f, f.params[count_param][1], b, (b, s_))
                if ub is not None and ub <= 0:
                    res['skip_edges'].add((b, s_))
    # the validated value is fragments[t] in iteration t
    arg = strip_ptr_casts(f, vcall.ops[-1] if vcall.callee != '@is_invalid_fragment' else vcall.ops[1])
    d = f.defs.get(arg)
    okarg = False
    if d is not None and d.op == 'load':
        pt = LL.ptr_at_iteration(*pc.ptr(d.ops[0]))
        if pt is not None and pt[0] == f'arg{frag_param}':
            ab = affine_in_t(pt[1])
            if ab is not None and ab[0] == Poly.const(8 if res.get('peeled') else 0) and ab[1] == Poly.const(8):
                okarg = True
    if not okarg:
        res['problems'].append('validated value is not fragments[i] for i = 0 .. num_fragments-1')
    # exits
    vres = vcall.res
    err_edges = []
    for b in body:
        tt = b.insts[-1]
        if tt.op == 'br' and len(tt.targets) == 2 and tt.ops:
            c = f.defs.get(tt.ops[0])
            if c is not None and c.op == 'icmp' and vres in [strip_int_casts(f, o) for o in c.ops] and '0' in c.ops:
                nz = tt.targets[0] if c.pred == 'ne' else (tt.targets[1] if c.pred == 'eq' else None)
                if nz is not None:
                    err_edges.append((b, f.blocks[nz]))
            elif c is not None and c.op == 'icmp' and c.ops[0] == vres and c.pred in ('slt', 'sgt') and c.ops[1] == '0':
                err_edges.append((b, f.blocks[tt.targets[0]]))
    if not err_edges:
        # the verdict may be carried in a flag that also stops the loop (`for (...; i < n && !bad; ) bad = check(...)`), and be tested
        # once behind the loop: the loop must stay only while the flag is 0, the non-zero side behind it must be an error, and the
        # zero side is then "the list was exhausted without a bad header"
        from ..guards import implied_atoms as _ia_v
        from ..retval import returns_via_edge as _rve_v, all_negative as _an_v
        for F in [p_ for p_ in h.insts if p_.op == 'phi']:
            carried = [v_ for v_, l_ in F.incoming if f.blocks[l_] in body]
            if not carried or not all(strip_int_casts(f, v_) == vres for v_ in carried):
                continue
            ht = h.insts[-1]
            stay = f.blocks[ht.targets[0]] in body if ht.op == 'br' and len(ht.targets) == 2 else None
            stops = stay is not None and any(at_.op == 'icmp' and F.res in [strip_int_casts(f, o) for o in at_.ops] and '0' in at_.ops and
                                             ((at_.pred == 'eq') == tv_) for at_, tv_ in _ia_v(f, ht.ops[0], stay))
            if not stops:
                continue
            for tb in f.order:
                tt = tb.insts[-1]
                if tb in body or tt.op != 'br' or len(tt.targets) != 2 or not tt.ops:
                    continue
                c = f.defs.get(tt.ops[0])
                if c is not None and c.op == 'icmp' and c.pred in ('eq', 'ne') and F.res in [strip_int_casts(f, o) for o in c.ops] and '0' in c.ops:
                    bad_b = f.blocks[tt.targets[0] if c.pred == 'ne' else tt.targets[1]]
                    good_b = f.blocks[tt.targets[1] if c.pred == 'ne' else tt.targets[0]]
                    if _an_v(_rve_v(f, tb, bad_b)):
                        err_edges.append((tb, bad_b))
                        res['bound_exit'] = (tb, good_b)
                        res['flag_exit'] = True
    res['err_edges'] = err_edges
    if not err_edges:
        res['problems'].append('result of the validation call is not tested')
        return res
    # error region = blocks reachable in the loop only through an error edge
    err_region = set()
    for (s, dd) in err_edges:
        for x in reachable_from(dd):
            if x in body or True:
                others = reachable_from(f.entry, avoid_edges={(s, dd)})
                if x not in others:
                    err_region.add(x)
    res['exits'] = []
    for b in body:
        for s in b.succs:
            if s in body:
                continue
            if res.get('bound_exit') == (b, s) or (res.get('flag_exit') and b is h):
                continue
            if (b, s) in err_edges or b in err_region:
                res['exits'].append(('error', b, s))
            else:
                res['exits'].append(('other', b, s))
                res['problems'].append(f'loop can be left at line {b.insts[-1].line} without finishing validation')
    # the non-error continuation must not skip the increment: covered by iv step check + no other exits
    return res

def rule_validation_gates(ctx, P, r, ebad):
    from ..guards import dominating_edges
    for fname in ('liberasurecode_decode', 'liberasurecode_reconstruct_fragment'):
        f, fp = param_by_name(ctx, P, fname, 'available_fragments')
        _, cp = param_by_name(ctx, P, fname, 'num_fragments')
        A, _ = __import__('lecverif.vflow', fromlist=['x']).derived_pointers(f, [f.params[fp][1]])
        consumers = [i for i in f.insts() if i.op == 'call' and i.callee in ('@fragments_to_string', '@get_fragment_partition', '@is_invalid_fragment')
                     and any(o in A for o in i.ops)]
        loads = [i for i in f.insts() if i.op == 'load' and i.ops[0] in A]
        # whatever else is handed one of the caller's fragments (a size helper, an index helper, ...) reads header fields too
        elems_ = [i.res for i in loads if i.ty == 'i8*']
        B_, _b = derived_pointers(f, elems_) if elems_ else (set(), None)
        for i in f.insts():
            if i.op == 'call' and i not in consumers and i.callee not in ('@is_invalid_fragment_header', '@free') and i.callee not in LOGFNS \
                    and not (i.callee or '').startswith('@llvm.') and any(isinstance(o, str) and o in B_ for o in i.ops):
                consumers.append(i)
        vcalls = [i for i in f.insts() if i.op == 'call' and i.callee == '@is_invalid_fragment_header']
        if not consumers:
            raise AnalysisBroken(f'anchor vanished: no consumer of available_fragments in {fname}')
        inst = f'{fname}: every supplied fragment header is validated before the first consumer'
        if not vcalls:
            r.fail(inst, func=f.name, sig='no header validation', loc=consumers[0].loc, msg=f'{consumers[0].callee} consumes fragment headers but is_invalid_fragment_header is never called')
            continue
        good = None
        problems = []
        for v in vcalls:
            info = validation_loop_facts(P, f, v, fp, cp)
            if info is None:
                problems.append('validation call is not inside a loop over the fragments')
                continue
            if info['problems']:
                problems += info['problems']
                continue
            if info.get('peeled'):
                # fragments[0] must have been validated by a call in front of the loop whose failure leaves with an error
                from ..retval import returns_via_edge as _rve_p, all_negative as _an_p
                from ..cfg import dominators as _dm_p, dominates as _dom_p
                idom_p = _dm_p(f)
                first_ok = False
                for v0 in vcalls:
                    if v0 is v:
                        continue
                    if not _dom_p(idom_p, v0.bb, info['header']):
                        # ... unless it is skipped only when there is no first fragment (`if (n > 0) check(fragments[0])`)
                        from ..guards import upper_bound_at as _ub_p
                        skips = set()
                        for b_ in f.order:
                            if len(b_.succs) == 2:
                                for s_ in b_.succs:
                                    u_ = _ub_p(P, f, f.params[cp][1], b_, (b_, s_))
                                    if u_ is not None and u_ <= 0:
                                        skips.add((b_, s_))
                        if info['header'] in reachable_from(f.entry, avoid_edges=skips, avoid_blocks={v0.bb}):
                            continue
                    a0 = f.defs.get(strip_ptr_casts(f, v0.ops[-1]))
                    if a0 is None or a0.op != 'load' or strip_ptr_casts(f, a0.ops[0]) != f.params[fp][1]:
                        continue
                    t0 = v0.bb.insts[-1]
                    c0 = f.defs.get(t0.ops[0]) if t0.op == 'br' and t0.ops else None
                    if c0 is not None and c0.op == 'icmp' and v0.res in [strip_int_casts(f, o) for o in c0.ops] and '0' in c0.ops and len(t0.targets) == 2:
                        bad_t = t0.targets[0] if c0.pred == 'ne' else t0.targets[1]
                        if _an_p(_rve_p(f, v0.bb, f.blocks[bad_t])):
                            first_ok = True
                if not first_ok:
                    problems.append('the loop starts at the second fragment and no validation of the first one was found in front of it')
                    continue
            good = (v, info)
        if good is None:
            r.fail(inst, func=f.name, sig='validation loop incomplete: ' + '; '.join(sorted(set(problems)))[:120], loc=vcalls[0].loc,
                   msg='header validation does not cover all fragments: ' + '; '.join(sorted(set(problems))))
            continue
        v, info = good
        be = info['bound_exit']
        bad = [c for c in consumers if be not in dominating_edges(f, c.bb)]
        if bad and info.get('skip_edges'):
            free_ = reachable_from(f.entry, avoid_edges={be} | info['skip_edges'])
            bad = [c for c in bad if c.bb in free_]
        if bad:
            r.fail(inst, func=f.name, sig=f'{bad[0].callee} not dominated by validation', loc=bad[0].loc,
                   msg=f'{bad[0].callee} at line {bad[0].line} can run before all headers were validated')
        else:
            r.ok(inst, func=f.name, loc=v.loc, facts={'consumers': [c.callee for c in consumers], 'loop_header_line': info['header'].insts[-1].line})
        for kind, b, s in info['exits']:
            vals = returns_via_edge(f, b, s)
            if vals == {-ebad}:
                r.ok(f'{fname}: invalid header => -EBADHEADER', func=f.name, loc=b.insts[-1].loc)
            else:
                r.fail(f'{fname}: invalid header => -EBADHEADER', func=f.name, sig=f'invalid header edge returns {sorted(map(str, vals))}', loc=b.insts[-1].loc,
                       msg=f'the edge taken for an invalid header may return {sorted(map(str, vals))} instead of {-ebad}')
    # single-fragment query
    f, fp = param_by_name(ctx, P, 'liberasurecode_get_fragment_metadata', 'fragment')
    A, _ = derived_pointers(f, [f.params[fp][1]])
    vcalls = [i for i in f.insts() if i.op == 'call' and i.callee == '@is_invalid_fragment_header' and any(o in A for o in i.ops)]
    cons = [i for i in f.insts() if (i.op == 'load' and i.ops[0] in A) or (i.op == 'call' and i is not (vcalls[0] if vcalls else None)
            and i.callee not in LOGFNS and any(o in A for o in i.ops))]
    inst = 'liberasurecode_get_fragment_metadata: header validated before any header byte is used'
    if not cons:
        raise AnalysisBroken('anchor vanished: get_fragment_metadata does not read the fragment')
    if not vcalls:
        r.fail(inst, func=f.name, sig='no header validation', loc=cons[0].loc, msg='fragment bytes are used without is_invalid_fragment_header')
        return
    v = vcalls[0]
    okedge = None
    for b in f.order:
        t = b.insts[-1]
        if t.op == 'br' and len(t.targets) == 2 and t.ops:
            c = f.defs.get(t.ops[0])
            if c is not None and c.op == 'icmp' and v.res in c.ops and '0' in c.ops and c.pred in ('ne', 'eq'):
                okedge = (b, f.blocks[t.targets[1] if c.pred == 'ne' else t.targets[0]])
                erredge = (b, f.blocks[t.targets[0] if c.pred == 'ne' else t.targets[1]])
    if okedge is None:
        r.fail(inst, func=f.name, sig='validation result not tested', loc=v.loc, msg='result of is_invalid_fragment_header is ignored')
        return
    bad = [c for c in cons if okedge not in dominating_edges(f, c.bb)]
    if bad:
        r.fail(inst, func=f.name, sig='consumer not dominated by validation', loc=bad[0].loc, msg=f'line {bad[0].line} uses the fragment before/without validation')
    else:
        r.ok(inst, func=f.name, loc=v.loc, facts={'consumers': len(cons)})
    vals = returns_via_edge(f, *erredge)
    if vals == {-ebad}:
        r.ok('get_fragment_metadata: invalid header => -EBADHEADER', func=f.name, loc=v.loc)
    else:
        r.fail('get_fragment_metadata: invalid header => -EBADHEADER', func=f.name, sig=f'invalid header edge returns {sorted(map(str, vals))}', loc=v.loc,
               msg=f'invalid header may return {sorted(map(str, vals))}')

# ---------------------------------------------------------------- R16d
def rule_exit_mirrors_init(ctx, P, r):
    from .. import own as own_
    O = own_.get(P)
    cg = callgraph.get(P)
    seen = set()
    for be in IN_SCOPE_BACKENDS:
        c = cg.common[be]
        t = cg.op_tables[c['ops']]
        init, ex = P.fn(t['init']), P.fn(t['exit'])
        key = (init.name, ex.name)
        # follow one level: xxx_init -> common init
        chain = [init] + [P.fns[x] for i in init.insts() if i.op == 'call' for x in cg.callees(init, i) if x in P.fns and x != init.name and 'init' in x]
        owned_fields = set()
        desc_struct = None
        for h in chain:
            for i in h.insts():
                if i.op == 'store':
                    root, steps = access_path(P, h, i.ops[1])
                    fl = fields_in_path(steps)
                    vd = h.defs.get(strip_ptr_casts(h, i.ops[0]))
                    if fl and vd is not None and vd.op == 'call' and any(x in O.returns_owned for x in cg.callees(h, vd)):
                        rd = h.defs.get(root)
                        if rd is not None and rd.op == 'call' and rd.callee in ('@malloc', '@calloc'):
                            owned_fields.add(fl[-1])
                            desc_struct = fl[-1][0]
        if key in seen:
            continue
        seen.add(key)
        # fields released in exit: passed to a freeing callee, directly or through a function pointer of the descriptor
        freed_fields = set()
        frees_desc = False
        for i in ex.insts():
            if i.op == 'call':
                for ai, a in enumerate(i.ops):
                    for cal in cg.callees(ex, i):
                        if ai in O.frees.get(cal, ()) or (cal == '@free' and ai == 0):
                            v = strip_ptr_casts(ex, a)
                            d = ex.defs.get(v)
                            if d is not None and d.op == 'load':
                                root, steps = access_path(P, ex, d.ops[0])
                                fl = fields_in_path(steps)
                                if fl:
                                    freed_fields.add(fl[-1])
                            elif d is None or d.op != 'load':
                                if v == ex.params[0][1] or (d is not None and d.op == 'bitcast'):
                                    frees_desc = True
                            if v == ex.params[0][1]:
                                frees_desc = True
        inst = f'{be}: exit {ex.name} mirrors init {init.name}'
        missing = sorted(f'{a}.{b}' for a, b in owned_fields - freed_fields)
        if missing:
            r.fail(inst, func=ex.name, sig='exit does not release ' + ','.join(missing), loc=ex.mod.src,
                   msg=f'init stores owned allocations into {missing} but {ex.name} never frees them')
        elif not frees_desc:
            r.fail(inst, func=ex.name, sig='descriptor not freed', loc=ex.mod.src, msg=f'{ex.name} does not free the descriptor itself')
        else:
            r.ok(inst, func=ex.name, loc=ex.mod.src, facts={'owned_fields': sorted(map(str, owned_fields)), 'freed_fields': sorted(map(str, freed_fields))})

# ---------------------------------------------------------------- R16e
def rule_single_owner(ctx, P, r):
    from .. import own as own_, oblig
    from ..retval import returns_from_block
    O = own_.get(P)
    cg = callgraph.get(P)
    n = 0
    for u in FRONT_UNITS:
        for f in P.mod(u).functions.values():
            C = Canon(P, f)
            for c in f.insts():
                if c.op != 'call' or c.callee not in P.fns or c.callee == '@free':
                    continue
                g = P.fns[c.callee]
                fr = O.frees.get(g.name, set())
                if g.name in ('@liberasurecode_encode_cleanup', '@liberasurecode_decode_cleanup', '@check_and_free_buffer', '@free_fragment_buffer'):
                    continue
                if not fr:
                    if any(t.endswith('*') for t in c.optys):
                        n += 1
                        r.ok(f'{f.name}: {g.name} (line {c.line}) frees none of its pointer arguments', func=f.name, loc=c.loc, trivial=True)
                    continue
                # return classes under which g frees
                for pi in sorted(fr):
                    if pi >= len(c.ops):
                        continue
                    A, _ = own_.aliases(g, [g.params[pi][1]])
                    classes = set()
                    for s in g.insts():
                        if s.op == 'call' and any(ai in O.frees.get(x, ()) for x in cg.callees(g, s) for ai, a in enumerate(s.ops) if a in A):
                            for v in returns_from_block(g, s.bb):
                                classes.add('neg' if isinstance(v, int) and v < 0 else ('zero' if v == 0 else 'other'))
                    n += 1
                    arg = C.val(c.ops[pi])
                    # later frees of the same object in the caller, per result class of c
                    clash = None
                    for v in oblig.representative_values(f, c.res) if c.res else [0]:
                        cls = 'neg' if v < 0 else ('zero' if v == 0 else 'other')
                        if cls not in classes:
                            continue
                        later = set()
                        for kind, val, trail in oblig.simulate(f, c, v, stop_calls=tuple(k for k in O.frees)):
                            if kind == 'event' and val.op == 'call':
                                for ai, a in enumerate(val.ops):
                                    if ai in O.frees.get(val.callee, ()) and C.val(a) == arg:
                                        clash = (v, val)
                    inst = f'{f.name}: {g.name}(arg {pi} = {arg}) frees it when returning {sorted(classes)}'
                    if clash:
                        v, s2 = clash
                        r.fail(inst, func=f.name, sig=f'{g.name} and {s2.callee} both free {arg}', loc=s2.loc,
                               msg=f'when {g.name} fails (returns {v}) it has already freed {arg}; the caller then passes the same object to {s2.callee} '
                                   f'(line {s2.line}): double free / use after free')
                    else:
                        r.ok(inst + '; the caller does not free it again on those paths', func=f.name, loc=c.loc)
    return n


# ---------------------------------------------------------------- R06f list bitmaps
from ..guards import implied_atoms as implied_atoms_

def rule_list_bitmaps(ctx, P, r, units=None, every_backend=False):
    """convert_list_to_bitmap builds its 64-bit result from `1 << idx` in int arithmetic: for index 31 the sign extension sets
    bits 31..63.  That is harmless as long as every consumer tests single bits (`bm & (1 << i)`, i < 32); any whole-word consumer
    (population count, comparison, shift, arithmetic) sees 33 elements for a list that names fragment 31."""
    from ..chains import OUT_OF_SCOPE
    def single_bit(fn, v, depth=0):
        v = strip_int_casts(fn, v)
        d = fn.defs.get(v)
        if d is None or depth > 6:
            return False
        if d.op == 'shl' and d.ops[0] == '1':
            return True
        if d.op in ('sext', 'zext', 'trunc'):
            return single_bit(fn, d.ops[0], depth + 1)
        if d.op == 'load':
            root, steps = access_path(P, fn, d.ops[0])
            return bool(root) and 'bit_lookup' in root
        return False
    n = 0
    # the hazard exists only while the helper shifts in 32-bit signed arithmetic and sign-extends the result
    hazard = False
    for fn in P.fns.values():
        if fn.name.startswith('@convert_list_to_bitmap'):
            for i in fn.insts():
                if i.op == 'sext' and i.ty == 'i64':
                    d = fn.defs.get(i.ops[0])
                    if d is not None and d.op == 'shl' and d.ty == 'i32':
                        hazard = True
    if not hazard:
        r.ok('convert_list_to_bitmap shifts in 64-bit arithmetic: whole-word consumers are safe', loc='include/erasurecode/erasurecode_helpers.h')
    # the bitmap may be handed on to a helper as an argument: the helper's parameter is then a list bitmap too (its uses are
    # examined there; passing it on is not a use of its value)
    seeds = {}
    for name, fn in sorted(P.fns.items()):
        if hazard and not ((OUT_OF_SCOPE.search(fn.mod.src) and not every_backend) or (units and fn.mod.src not in units)):
            t0 = {i.res for i in fn.insts() if i.op == 'call' and i.callee.startswith('@convert_list_to_bitmap') and i.res}
            if t0:
                seeds[name] = t0
    work = sorted(seeds)
    done_sets = {}
    order = []
    while work:
        name = work.pop(0)
        fn = P.fns[name]
        T = set(seeds[name])
        ch_ = True
        while ch_:
            ch_ = False
            for i in fn.insts():
                if i.res and i.res not in T:
                    ops = i.ops if i.op != 'phi' else [v for v, _ in i.incoming]
                    if i.op in ('or', 'phi', 'select', 'sext', 'zext', 'trunc') and any(o in T for o in ops):
                        T.add(i.res); ch_ = True
        done_sets[name] = T
        if name not in order:
            order.append(name)
        for i in fn.insts():
            if i.op == 'call' and i.callee in P.fns and not i.callee.startswith('@convert_list_to_bitmap') and P.fns[i.callee].order:
                g_ = P.fns[i.callee]
                for ai, o in enumerate(i.ops[:len(g_.params)]):
                    if o in T and g_.params[ai][1] not in seeds.get(g_.name, set()):
                        seeds.setdefault(g_.name, set()).add(g_.params[ai][1])
                        if g_.name not in work:
                            work.append(g_.name)
    for name in order:
        fn = P.fns[name]
        if not hazard:
            break
        T = done_sets[name]
        changed = True
        while changed:
            changed = False
            for i in fn.insts():
                if i.res and i.res not in T:
                    ops = i.ops if i.op != 'phi' else [v for v, _ in i.incoming]
                    if i.op in ('or', 'phi', 'select', 'sext', 'zext', 'trunc') and any(o in T for o in ops):
                        T.add(i.res); changed = True
        # list positions: induction variables of loops that walk a -1 terminated list (guard = list[iv] compared with the sentinel)
        from ..loops import loops_of as _lo2
        from ..poly import PolyCtx as _PC2
        listpos = set()
        try:
            for L_ in _lo2(P, fn, _PC2(P, fn)):
                bounded = {g_.iv for g_ in L_.guards()}
                for (xb, xs) in L_.exits:
                    tt = xb.insts[-1]
                    cc = fn.defs.get(tt.ops[0]) if tt.op == 'br' and tt.ops else None
                    for at_, tv_ in (implied_atoms_(fn, tt.ops[0], True) + implied_atoms_(fn, tt.ops[0], False)) if cc is not None else []:
                        for o_ in at_.ops:
                            ld_ = fn.defs.get(strip_int_casts(fn, o_))
                            if ld_ is not None and ld_.op == 'load':
                                g_ = fn.defs.get(ld_.ops[0])
                                if g_ is not None and g_.op == 'getelementptr':
                                    iv_ = strip_int_casts(fn, g_.ops[-1])
                                    if iv_ in L_.ivs() and iv_ not in bounded and any(x in ('-1', '0') for x in at_.ops):
                                        listpos.add(iv_)
        except Exception:
            listpos = set()
        for i in fn.insts():
            ops = i.ops if i.op != 'phi' else [v for v, _ in i.incoming]
            if not any(o in T for o in ops) or i.res in T:
                continue
            if i.op == 'call' and i.callee in P.fns and P.fns[i.callee].order and not i.callee.startswith('@convert_list_to_bitmap') \
                    and all(o not in T or (ai < len(P.fns[i.callee].params) and P.fns[i.callee].params[ai][1] in seeds.get(i.callee, ())) for ai, o in enumerate(i.ops)):
                continue                              # handed on: examined in the callee
            n += 1
            inst = f'{name}: use of the list bitmap at line {i.line}'
            if i.op == 'and' and any(single_bit(fn, o) for o in i.ops if o not in T):
                amt = None
                for o in i.ops:
                    if o not in T:
                        x_ = strip_int_casts(fn, o)
                        d_ = fn.defs.get(x_)
                        while d_ is not None and d_.op in ('sext', 'zext', 'trunc'):
                            x_ = strip_int_casts(fn, d_.ops[0]); d_ = fn.defs.get(x_)
                        if d_ is not None and d_.op == 'shl':
                            amt = strip_int_casts(fn, d_.ops[1])
                if amt in listpos:
                    r.fail(inst, func=name, sig='bitmap of fragment indexes tested with a list position', loc=i.loc,
                           msg=f'the bitmap holds one bit per fragment index, but bit {Canon(P, fn).val(amt)} is the position in a -1 terminated list '
                               '(the loop walks the list and tests 1 << position, not 1 << list[position])')
                    continue
                r.ok(inst + ': single-bit test', func=name, loc=i.loc)
            else:
                what = i.callee if i.op == 'call' else i.op
                r.fail(inst, func=name, sig=f'whole-word use of a list bitmap: {what}', loc=i.loc,
                       msg=f'the result of convert_list_to_bitmap is consumed as a whole word ({what}): for a list naming fragment 31 the int shift in '
                           'convert_list_to_bitmap sign-extends and bits 32..63 are set too, so counts / comparisons are off by 32')
    return n


# ---------------------------------------------------------------- R05i bitmap accumulation
def rule_bitmap_accumulation(ctx, P, r):
    """a loop-carried value that starts at 0 and receives bit-valued contributions (1 << x, *_bit_lookup[x]) in the loop must
    combine each contribution with its previous value; otherwise only the last list element survives"""
    from ..chains import OUT_OF_SCOPE
    from ..cfg import natural_loops
    def bitlike(fn, v):
        v = strip_int_casts(fn, v)
        d = fn.defs.get(v)
        if d is None:
            return False
        if d.op == 'shl' and d.ops[0] == '1':
            return True
        if d.op == 'load':
            root, steps = access_path(P, fn, d.ops[0])
            return bool(root) and 'bit_lookup' in root
        return d.op == 'call' and d.callee in ('@data_bit_lookup', '@parity_bit_lookup')
    def has_bit(fn, x, depth=0):
        x = strip_int_casts(fn, x)
        dd = fn.defs.get(x)
        if dd is None or depth > 5:
            return False
        if bitlike(fn, x):
            return True
        if dd.op in ('or', 'and', 'xor', 'select', 'phi'):
            ops = dd.ops if dd.op != 'phi' else [q for q, _ in dd.incoming]
            return any(has_bit(fn, o, depth + 1) for o in ops if isinstance(o, str) and o.startswith('%'))
        return False
    def depends(fn, v, target, depth=0, seen=None):
        seen = seen if seen is not None else set()
        v = strip_int_casts(fn, v)
        if v == target:
            return True
        if v in seen or depth > 12:
            return False
        seen.add(v)
        d = fn.defs.get(v)
        if d is None:
            return False
        ops = d.ops if d.op != 'phi' else [x for x, _ in d.incoming]
        return any(isinstance(o, str) and o.startswith('%') and depends(fn, o, target, depth + 1, seen) for o in ops)
    for name, fn in sorted(P.fns.items()):
        if OUT_OF_SCOPE.search(fn.mod.src):
            continue
        for h, body in natural_loops(fn).items():
            for phi in [i for i in h.insts if i.op == 'phi' and not i.ty.endswith('*')]:
                inits = [v for v, l in phi.incoming if fn.blocks[l] not in body]
                lat = [v for v, l in phi.incoming if fn.blocks[l] in body]
                # (the bitmap starts empty, or with the bits of iterations peeled off in front of the loop)
                if not inits or not all(v == '0' or has_bit(fn, v) for v in inits) or not lat or not any(has_bit(fn, v) for v in lat):
                    continue
                inst = f'{name}: bitmap {phi.res} assembled in the loop at line {h.insts[-1].line}'
                if all(depends(fn, v, phi.res) for v in lat):
                    r.ok(inst + ' accumulates (previous value is combined in)', func=name, loc=h.insts[-1].loc)
                else:
                    r.fail(inst, func=name, sig='bitmap overwritten in a loop instead of accumulated', loc=h.insts[-1].loc,
                           msg='each iteration overwrites the bitmap with the bit of the current list element: after the loop only the last element is set')


# ---------------------------------------------------------------- R15f erasure list is an input
def rule_missing_list_readonly(ctx, P, r):
    """the erasure list handed to a backend's decode / reconstruct operation is read again by the front end afterwards (to stamp
    headers on the rebuilt fragments, to find the destination): no operation may write through it, directly or in a callee"""
    from .. import effects
    E = effects.get(P)
    cg = callgraph.get(P)
    seen = set()
    for be in IN_SCOPE_BACKENDS + ('@backend_isa_l_rs_vand',):
        c = cg.common.get(be)
        if c is None:
            continue
        t = cg.op_tables[c['ops']]
        for slot in ('decode', 'reconstruct'):
            fname = t.get(slot)
            if not fname or fname in seen or fname not in P.fns:
                continue
            seen.add(fname)
            f = P.fns[fname]
            pis = [i for i, (ty, n) in enumerate(f.params) if ty == 'i32*']
            if not pis:
                continue
            pi = pis[0]
            wit = E.writes_through(fname, pi, deep=True)
            wit = [w for w in wit if 'unknown external' not in w[2]]
            inst = f'{fname}: the missing-index list (parameter {pi}) is not written'
            if wit:
                w = wit[0]
                r.fail(inst, func=fname, sig=f'missing list written in {w[0]}', loc=w[1] or f.mod.src,
                       msg=f'{fname} can write through its missing-index list ({w[0]}: {w[2]}): the front end walks that list after the call to stamp the '
                           'rebuilt fragments, so clobbered entries leave rebuilt fragments without a header')
            else:
                r.ok(inst, func=fname, loc=f.mod.src)

# ---------------------------------------------------------------- refusal inventory
_INST_KM = re.compile(r'\*@liberasurecode_backend_instance_get_by_desc\(arg0\)\.args\.uargs\.(k|m)\b')

def _refusal_operand_ok(e):
    """an operand of a refusing comparison in a front-end operation: a constant, an argument, the result of a call (a callee's
    verdict), a local counter, or the instance's k / m - never another instance parameter or a value read from memory"""
    e = e.strip()
    while True:
        m = re.match(r'^(?:sext|zext|trunc)\.i\d+\((.*)\)$', e)
        if not m:
            break
        e = m.group(1)
    if e.startswith('@') or e.startswith('(*'):
        return True                     # a callee's result
    rest = _INST_KM.sub('K', e)
    # results of callees may take part in the arithmetic (a count kept as the distance a write cursor moved from the allocation)
    out, i = '', 0
    while i < len(rest):
        m = re.match(r'@[\w.$]+\(', rest[i:])
        if m:
            depth, j = 1, i + m.end()
            while j < len(rest) and depth:
                depth += rest[j] == '('
                depth -= rest[j] == ')'
                j += 1
            out += 'CALL'
            i = j
        else:
            out += rest[i]
            i += 1
    return '*' not in out and '@' not in out

def rule_refusal_inventory(ctx, P, r, fnames, policy=None, what=None):
    """every branch of a front-end operation that leads only to negative returns tests nothing but: arguments, k / m of the
    instance, local counters and results of callees.  A refusal that looks at another instance parameter (hd, w, ct) or at
    memory directly is a new reason to fail that the operation's contract does not have."""
    from ..guards import edge_condition
    from ..retval import returns_via_edge, all_negative
    for fname in fnames:
        f = P.fn(fname)
        C = Canon(P, f)
        n = 0
        for b in f.order:
            t = b.insts[-1]
            if t.op != 'br' or len(t.targets) != 2 or not t.ops or t.targets[0] == t.targets[1]:
                continue
            s0, s1 = f.blocks[t.targets[0]], f.blocks[t.targets[1]]
            v0, v1 = returns_via_edge(f, b, s0), returns_via_edge(f, b, s1)
            if all_negative(v0) == all_negative(v1):
                continue
            # all comparisons the decision is made of
            leaves, st, seen = [], [t.ops[0]], set()
            while st:
                x = st.pop()
                if x in seen:
                    continue
                seen.add(x)
                d = f.defs.get(x)
                if d is None:
                    continue
                if d.op == 'icmp':
                    leaves.append(d)
                elif d.op in ('and', 'or', 'xor', 'select', 'zext', 'trunc', 'phi'):
                    st += [o for o in (d.ops if d.op != 'phi' else [v for v, _ in d.incoming]) if isinstance(o, str) and o.startswith('%')]
                elif d.op == 'call':
                    leaves.append(d)
            n += 1
            bad = None
            for lf in leaves:
                if lf.op == 'call':
                    continue
                ops_ = [C.val(strip_int_casts(f, o)) for o in lf.ops[:2]]
                if policy is not None:
                    pb = policy(lf, ops_)
                    if pb:
                        bad = (lf, pb)
                    continue
                for e in ops_:
                    if not _refusal_operand_ok(e):
                        bad = (lf, e)
            inst = f'{fname}: refusal decided at line {t.line}'
            if bad and what is not None:
                r.fail(inst, func=f.name, sig=f'refusal: {bad[1][:70]}', loc=bad[0].loc, msg=f'{fname} fails on {bad[1]}: {what}')
            elif bad:
                r.fail(inst, func=f.name, sig=f'refusal depends on {bad[1][:60]}', loc=bad[0].loc,
                       msg=f'{fname} fails (returns {sorted(map(str, v0 if all_negative(v0) else v1))[:3]}) on a condition over {bad[1]}: the operation may refuse because of its '
                           'arguments, k, m, or a callee\'s verdict - not because of another parameter of the instance or a value it reads itself')
            else:
                r.ok(inst, func=f.name, loc=t.loc)
        if not n:
            r.undecided(f'{fname}: refusals', loc=f.mod.src, msg='no branch that leads only to negative returns was found')


# ---------------------------------------------------------------- evaluation of canonical expressions (vflow.Canon syntax) on numbers
def _cmp_holds(pr, x, y, w=32):
    if pr[0] == 'u':
        x &= (1 << w) - 1; y &= (1 << w) - 1
    return {'eq': x == y, 'ne': x != y, 'slt': x < y, 'sle': x <= y, 'sgt': x > y, 'sge': x >= y, 'ult': x < y, 'ule': x <= y, 'ugt': x > y, 'uge': x >= y}[pr]

def canon_eval(e, env, w=32):
    """value of a canonical expression such as `(((V sub 8) lshr 3) or ((V sub 8) shl 29))` with the atoms in env replaced by
    numbers (two's complement of width w); None when it mentions anything else"""
    e = e.strip()
    for k_, v_ in env.items():
        if e == k_:
            return v_
    if re.match(r'^-?\d+$', e):
        return int(e)
    m = re.match(r'^(sext|zext|trunc)\.i(\d+)\((.*)\)$', e)
    if m:
        x = canon_eval(m.group(3), env, w)
        if x is None:
            return None
        nb = int(m.group(2))
        if m.group(1) == 'zext':
            return x & ((1 << w) - 1)
        if m.group(1) == 'trunc':
            x &= (1 << nb) - 1
            return x - (1 << nb) if x >> (nb - 1) else x
        return x
    if e.startswith('(') and e.endswith(')'):
        body, depth = e[1:-1], 0
        for i, ch in enumerate(body):
            depth += ch == '('
            depth -= ch == ')'
            if depth == 0 and ch == ' ':
                m2 = re.match(r'^ (add|sub|mul|and|or|xor|shl|lshr|ashr|srem|urem|sdiv|udiv) ', body[i:])
                if m2:
                    a, b = canon_eval(body[:i], env, w), canon_eval(body[i + m2.end():], env, w)
                    if a is None or b is None:
                        return None
                    op = m2.group(1)
                    M = (1 << w) - 1
                    ua, ub = a & M, b & M
                    try:
                        r_ = {'add': a + b, 'sub': a - b, 'mul': a * b, 'and': ua & ub, 'or': ua | ub, 'xor': ua ^ ub,
                              'shl': ua << (ub % w), 'lshr': ua >> (ub % w), 'ashr': a >> (ub % w),
                              'srem': (abs(a) % abs(b)) * (1 if a >= 0 else -1) if b else None, 'urem': ua % ub if ub else None,
                              'sdiv': (abs(a) // abs(b)) * (1 if (a >= 0) == (b >= 0) else -1) if b else None, 'udiv': ua // ub if ub else None}[op]
                    except (ValueError, ZeroDivisionError):
                        return None
                    if r_ is None:
                        return None
                    r_ &= M
                    return r_ - (1 << w) if r_ >> (w - 1) else r_
    return None


def total_iterations(P, f, insts):
    """sum of the iteration counts of the (innermost) loops that hold the given instructions, as a poly.py form; None when an
    instruction is not in a loop or its loop's count is not known.  Two loops over k and m, or one fused loop over k + m, give
    the same total"""
    from ..poly import PolyCtx, Poly
    from ..loops import loops_of, innermost
    pc = PolyCtx(P, f)
    LS = loops_of(P, f, pc)
    tot, seen = Poly(), set()
    for i in insts:
        L = innermost(LS, i.bb)
        if L is None:
            return None
        if L.header in seen:
            continue
        seen.add(L.header)
        cands = [(L.count_for(g), g) for g in L.guards()]
        cands = [(n_, rot_, g) for (n_, rot_), g in cands if n_ is not None and (not rot_ or L.entry_positive(n_))]
        if len({str(c_[0]) for c_ in cands}) != 1:
            return None
        tot = tot + cands[0][0]
    return tot

def is_k_plus_m_poly(p):
    ks = [k_ for k_ in p if len(k_) == 1 and (k_[0] == 'arg1' or re.search(r'\.k$', k_[0]))]
    ms = [k_ for k_ in p if len(k_) == 1 and (k_[0] == 'arg2' or re.search(r'\.m$', k_[0]))]
    return len(p) == 2 and len(ks) == 1 and len(ms) == 1 and all(v == 1 for v in p.values())
