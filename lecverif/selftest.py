"""thorough tier: run the property's check against catalogue mutants / benign variants and the seeded changes (scratch copies)"""
import os, sys, json, subprocess, importlib.util
from concurrent.futures import ThreadPoolExecutor
from .scratch import scratch_tree
from .core import VERIF

def _load_catalogue():
    p = os.path.join(VERIF, 'selftest', 'catalogue.py')
    spec = importlib.util.spec_from_file_location('catalogue', p)
    m = importlib.util.module_from_spec(spec)
    spec.loader.exec_module(m)
    return m.CATALOGUE

def _run(prop, root_src, patch=None, edits=None):
    try:
        with scratch_tree(root_src, patch, edits) as root:
            r = subprocess.run([os.path.join(VERIF, 'check'), prop, '--root', root, '--tier', 'quick'], capture_output=True, text=True,
                               env=dict(os.environ, LECVERIF_NO_SELFTEST='1'))
            rules = sorted({l.split()[1] for l in r.stdout.split('\n') if l.strip().startswith('violation:')})
            return r.returncode, rules
    except ValueError as e:
        return None, [str(e)[:120]]

def run_selftest(prop, root_src='/repo'):
    items = []
    for c in _load_catalogue():
        if c['prop'] == prop:
            items.append(('catalogue', c['name'], c['kind'], c.get('rule'), None, c['edits']))
    sd = os.path.join(VERIF, 'seeded')
    if os.path.isdir(sd):
        for d in sorted(os.listdir(sd)):
            mp = os.path.join(sd, d, 'meta.json')
            if d.startswith(prop + '-') and os.path.exists(mp):
                items.append(('seeded', d, 'M', None, os.path.join(sd, d, 'patch.diff'), None))
    bd = os.path.join(VERIF, 'selftest', 'benign')
    if os.path.isdir(bd):
        names = sorted(os.listdir(bd))
        if os.environ.get('LECVERIF_SELFTEST_BENIGN', 'sample') != 'all':
            # the complete refactorings x checks matrix is tools/benign_matrix.py (45 min, result in selftest/benign/MATRIX.txt); a run
            # of one property's thorough tier takes every fifth refactoring, rotated by the property number, so that the twenty
            # thorough runs together still apply each refactoring to four different checks
            rot = int(prop[1:]) if prop[1:].isdigit() else 0
            names = [d for i, d in enumerate(names) if (i + rot) % 5 == 0]
        for d in names:
            if d.endswith('.diff'):
                items.append(('benign', d, 'B', None, os.path.join(bd, d), None))
            elif os.path.exists(os.path.join(bd, d, 'patch.diff')):
                # agent-written behaviour-preserving refactorings: every property's check must stay silent on each of them
                items.append(('benign', d, 'B', None, os.path.join(bd, d, 'patch.diff'), None))
    def one(it):
        src, name, kind, rule, patch, edits = it
        rc, rules = _run(prop, root_src, patch, edits)
        if rc is None:
            status = 'skipped (does not apply)'
        elif kind == 'M':
            status = 'killed' if rc == 1 else ('analysis-broken' if rc == 2 else 'SURVIVED')
        else:
            status = 'silent' if rc == 0 else ('analysis-broken' if rc == 2 else 'FALSE-ALARM')
        return {'source': src, 'name': name, 'kind': kind, 'expected_rule': rule, 'exit': rc, 'rules_reporting': rules, 'status': status}
    with ThreadPoolExecutor(max_workers=12) as ex:
        res = list(ex.map(one, items))
    return res
