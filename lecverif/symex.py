"""expression trees over SSA definitions and their evaluation on a finite grid (used to decide closed-form arithmetic
identities such as the round-up to a multiple; no library code runs, the IR expression is interpreted)."""
from .ir import INT
from .vflow import strip_int_casts
from .consteval import wrap, width_of

def tree(fn, v, opaque=(), depth=0):
    """nested tuples: ('c', int) | ('p', param index) | ('v', ssa) opaque | (op, ty, a, b) | ('cast', op, from, to, a) |
    ('phi', [trees])"""
    if INT.match(v):
        return ('c', int(v))
    if v in opaque or depth > 30:
        return ('v', v)
    d = fn.defs.get(v)
    if d is None:
        pi = fn.param_index(v)
        return ('p', pi) if pi is not None else ('v', v)
    if d.op in ('add', 'sub', 'mul', 'sdiv', 'udiv', 'srem', 'urem', 'and', 'or', 'xor', 'shl', 'lshr', 'ashr'):
        return (d.op, d.ty, tree(fn, d.ops[0], opaque, depth + 1), tree(fn, d.ops[1], opaque, depth + 1))
    if d.op in ('sext', 'zext', 'trunc'):
        return ('cast', d.op, d.optys[0], d.ty, tree(fn, d.ops[0], opaque, depth + 1))
    if d.op == 'phi':
        return ('phi', [tree(fn, x, opaque, depth + 1) for x, _ in d.incoming])
    if d.op == 'select':
        return ('phi', [tree(fn, d.ops[1], opaque, depth + 1), tree(fn, d.ops[2], opaque, depth + 1)])
    if d.op == 'load':
        # element of a constant global table with a computed index: ('tab', @global, element type, index tree)
        g = fn.defs.get(d.ops[0])
        if g is not None and g.op == 'getelementptr' and g.ops[0].startswith('@') and len(g.ops) == 3 and g.ops[1] == '0':
            return ('tab', g.ops[0], d.ty, tree(fn, g.ops[2], opaque, depth + 1))
        return ('v', v)
    if d.op == 'call' and d.callee.startswith('@'):
        g = fn.mod.functions.get(d.callee)
        if g is not None and len(g.order) == 1 and depth < 20:
            rets = [i for i in g.insts() if i.op == 'ret' and i.ops]
            if rets:
                return ('call', d.callee, tree(g, rets[0].ops[0], (), depth + 1), [tree(fn, a, opaque, depth + 1) for a in d.ops])
    return ('v', v)

def leaves(t, out=None):
    out = out if out is not None else set()
    if t[0] in ('c',):
        return out
    if t[0] in ('p', 'v'):
        out.add(t); return out
    if t[0] == 'cast':
        return leaves(t[4], out)
    if t[0] == 'tab':
        return leaves(t[3], out)
    if t[0] == 'phi':
        for x in t[1]:
            leaves(x, out)
        return out
    if t[0] == 'call':
        inner = leaves(t[2], set())
        if any(l[0] == 'v' for l in inner):
            out.add(('v', t[1]))
        for a in t[3]:
            leaves(a, out)
        return out
    leaves(t[2], out); leaves(t[3], out)
    return out

def evaluate(t, env):
    k = t[0]
    if k == 'c':
        return t[1]
    if k in ('p', 'v'):
        return env[t]
    if k == 'cast':
        _, op, t0, t1, a = t
        x = evaluate(a, env)
        w0, w1 = width_of(t0), width_of(t1)
        if op == 'zext':
            x &= (1 << w0) - 1
        return wrap(x, w1)
    if k == 'phi':
        raise ValueError('phi')
    if k == 'tab':
        idx = evaluate(t[3], env)
        tabv = env.get(('table', t[1]))
        if tabv is None:
            raise KeyError(t[1])
        if not (0 <= idx < len(tabv)):
            raise IndexError(f'{t[1]}[{idx}]')
        return wrap(tabv[idx], width_of(t[2]))
    if k == 'call':
        sub = {('p', i): evaluate(a, env) for i, a in enumerate(t[3])}
        return evaluate(t[2], sub)
    op, ty, a, b = t
    x, y = evaluate(a, env), evaluate(b, env)
    w = width_of(ty)
    ux, uy = x & ((1 << w) - 1), y & ((1 << w) - 1)
    if op in ('sdiv', 'srem', 'udiv', 'urem') and y == 0:
        raise ZeroDivisionError
    r = {'add': lambda: x + y, 'sub': lambda: x - y, 'mul': lambda: x * y, 'and': lambda: x & y, 'or': lambda: x | y, 'xor': lambda: x ^ y,
         'shl': lambda: x << (y % w), 'lshr': lambda: ux >> (y % w), 'ashr': lambda: x >> (y % w),
         'sdiv': lambda: abs(x) // abs(y) * (1 if (x >= 0) == (y >= 0) else -1),
         'srem': lambda: (abs(x) % abs(y)) * (1 if x >= 0 else -1),
         'udiv': lambda: ux // uy, 'urem': lambda: ux % uy}[op]()
    return wrap(r, w)

def alternatives(t):
    """expand phi nodes into alternative phi-free trees"""
    if t[0] in ('c', 'p', 'v'):
        return [t]
    if t[0] == 'cast':
        return [('cast', t[1], t[2], t[3], a) for a in alternatives(t[4])]
    if t[0] == 'tab':
        return [('tab', t[1], t[2], a) for a in alternatives(t[3])]
    if t[0] == 'phi':
        out = []
        for x in t[1]:
            out += alternatives(x)
        return out
    if t[0] == 'call':
        inner = alternatives(t[2])
        if len(inner) != 1:
            return [('v', t[1])]
        import itertools
        return [('call', t[1], inner[0], list(args)) for args in itertools.product(*[alternatives(a) for a in t[3]])]
    return [(t[0], t[1], a, b) for a in alternatives(t[2]) for b in alternatives(t[3])]
