"""forward influence (data dependence through values, local memory objects and call arguments/out-parameters)"""
from .vflow import strip_ptr_casts, derived_pointers
from . import callgraph

def influence(prog, fn, roots):
    """SSA values and local objects (allocas / allocation results) influenced by the root values"""
    cg = callgraph.get(prog)
    T = set(roots)
    objs = set()
    def obj_of(p):
        # the local object a pointer points into (alloca or call result), through gep/bitcast
        v = p
        for _ in range(12):
            d = fn.defs.get(v)
            if d is None:
                return None
            if d.op in ('alloca',) or (d.op == 'call' and d.res):
                return d.res
            if d.op in ('getelementptr', 'bitcast'):
                v = d.ops[0]
            elif d.op == 'phi':
                return d.res
            else:
                return None
        return None
    changed = True
    while changed:
        changed = False
        for i in fn.insts():
            if i.op == 'store':
                if i.ops[0] in T:
                    o = obj_of(i.ops[1])
                    if o and o not in objs:
                        objs.add(o); changed = True
                continue
            if not i.res or i.res in T:
                if i.op == 'call':
                    # out-parameters: a call with an influenced argument influences the local objects passed by address
                    if any(a in T or obj_of(a) in objs for a in i.ops if isinstance(a, str)):
                        for a in i.ops:
                            o = obj_of(a) if isinstance(a, str) else None
                            d = fn.defs.get(o) if o else None
                            if o and d is not None and d.op == 'alloca' and o not in objs:
                                objs.add(o); changed = True
                continue
            hit = False
            if i.op == 'load':
                o = obj_of(i.ops[0])
                hit = i.ops[0] in T or (o in objs)
            elif i.op == 'phi':
                hit = any(v in T for v, _ in i.incoming)
            elif i.op == 'call':
                hit = any(a in T or (isinstance(a, str) and obj_of(a) in objs) for a in i.ops)
                if hit:
                    for a in i.ops:
                        o = obj_of(a) if isinstance(a, str) else None
                        d = fn.defs.get(o) if o else None
                        if o and d is not None and d.op == 'alloca' and o not in objs:
                            objs.add(o); changed = True
            elif i.op in ('alloca', 'br', 'ret', 'switch', 'unreachable'):
                hit = False
            else:
                hit = any(o in T for o in i.ops if isinstance(o, str))
            if hit:
                T.add(i.res); changed = True
    return T, objs
