"""what MANIFEST.json claims, per property (kept next to the code that implements it)"""
NOTES = ('Technique family: static analysis only. Every check recompiles /repo\'s working tree to LLVM IR (clang-14 -O0 + mem2reg, '
         'the repo\'s own flags) in a scratch directory and decides structural clauses of the property; exit 0 pass, 1 violation, '
         '2 analysis broken (anchor vanished / undecidable form). Clauses that quantify over runtime values are not decided and are '
         'listed in each level_note and in DESIGN.md §4.')
CHECKS = {
 'C07': dict(
  technique='compile-time layout witnesses (_Static_assert) + who-may-write effect analysis over LLVM IR',
  text='Decides, for the current tree and every function of the build: header layout (all offsets/sizes/signedness/magic) by '
       'compile-time witness; that only the helper setters and add_fragment_metadata store into fragment headers and that the '
       'encode path stores every field; that both metadata-CRC sites cover (&hdr->meta, 59) and nothing is stored after sealing; '
       'that all k+m fragments get one size.',
  note='Structural necessary conditions only: byte-for-byte equality with an independent serializer (parity bytes, payload '
       'contents) is a runtime-value statement and is NOT decided. Trusted: clang-14 ABI for the configured target, the IR loader.'),
}
NOT_APPLICABLE = {}
